SPECIFICATION GenSpec
CONSTANTS
  MaxSegs = 3
  Kinds <- KindsLog
  Times <- TimesBindable
  Weights <- W1
  DistinctHi = FALSE
  Straddle = TRUE
  PassKinds <- PassTime
  Limits <- Limit0
  OpenWs <- Open0
  WithPq = FALSE
  MaxCrash = 0
  MaxRepeat = 1
  DetOrder = TRUE
  Mults <- M1
  Orgs <- Org07
  RewriteScratch = FALSE
  SortedDel = "scan"
  MetKeyWraps = TRUE
  SkipTooBig = TRUE
  PqIdsLoaded = FALSE
  InodeCleansDangling = FALSE
CONSTRAINT Emit
CHECK_DEADLOCK FALSE
