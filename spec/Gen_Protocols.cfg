SPECIFICATION Spec
CONSTANTS
  LogProtocols <- LogP
  MetricProtocols <- MetP
  Kinds <- KindsAll
  MetricKinds <- MetricKindsAll
  Levels <- LevelsAll
  TimeUnits <- UnitsAll
  Shapes <- ShapesAll
  Accepts <- Acc
  EventMs = 1700000123
  ArrivalMs = 1790000456
CONSTRAINT Emit
CHECK_DEADLOCK FALSE
