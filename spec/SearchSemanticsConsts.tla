------------------------ MODULE SearchSemanticsConsts ------------------------
(* The model universe of C02: stored values, literals, the dataset, the leaf
   tuples for composite expressions, time-range boundaries.  (Records and negative
   numbers cannot be written in a .cfg.)  Numbers are scaled by 2 (halves). *)
EXTENDS Integers, Sequences

Absent == [k |-> "absent", n |-> 0, c |-> <<>>]
I(x)   == [k |-> "int", n |-> 2 * x, c |-> <<>>]
F(h)   == [k |-> "flt", n |-> h, c |-> <<>>]                  \* h halves: F(3) = 1.5
NS(h, chars) == [k |-> "numstr", n |-> h, c |-> chars]
T(chars) == [k |-> "text", n |-> 0, c |-> chars]
B(b)   == [k |-> "bool", n |-> IF b THEN 1 ELSE 0, c |-> <<>>]

LInt(x, sp)  == [lk |-> "int", n |-> 2 * x, c |-> sp]
LDec(h, sp)  == [lk |-> "dec", n |-> h, c |-> sp]
LQ(h, sp)    == [lk |-> "qnum", n |-> h, c |-> sp]
LS(chars)    == [lk |-> "str", n |-> 0, c |-> chars]

Cols == {"ci", "cf", "cn", "ct", "cb", "cm"}

(* the dataset: 10 events, ts = 10 * id.  cm is the mixed column, grouped by kind so that
   a layout can put every kind into its own block (rows 0-1 int, 2-3 float, 4-5 numeric
   string, 6-7 text, 8 bool, 9 absent). *)
Row(i, ci, cf, cn, ct, cb, cm) == [id |-> i, ts |-> 10 * i, f |-> [ci |-> ci, cf |-> cf, cn |-> cn, ct |-> ct, cb |-> cb, cm |-> cm]]
DS == {
  Row(0, I(1),   F(2),   NS(2, <<"1">>),           T(<<"a", "b">>),            B(TRUE),  I(1)),
  Row(1, I(2),   F(3),   NS(2, <<"1", ".", "0">>), T(<<"A", "b">>),            B(FALSE), I(2)),
  Row(2, I(-2),  F(-1),  NS(3, <<"1", ".", "5">>), T(<<"a", " ", "b">>),       Absent,   F(3)),
  Row(3, I(0),   F(4),   NS(4, <<"2">>),           T(<<"B">>),                 Absent,   F(2)),
  Row(4, Absent, Absent, NS(-4, <<"-", "2">>),     T(<<"b", " ", "a", "b">>),  B(TRUE),  NS(2, <<"1">>)),
  Row(5, I(3),   Absent, Absent,                   T(<<"A", "B", " ", "B", "A">>), Absent, NS(4, <<"2", ".", "0">>)),
  Row(6, Absent, F(1),   Absent,                   T(<<"a", "b", "a">>),       Absent,   T(<<"a", "b">>)),
  Row(7, I(1),   F(2),   NS(0, <<"0">>),           T(<<"a">>),                 Absent,   T(<<"B", " ", "a">>)),
  Row(8, Absent, Absent, Absent,                   Absent,                     B(FALSE), B(TRUE)),
  Row(9, Absent, Absent, Absent,                   Absent,                     Absent,   Absent) }

(* every stored value class x spelling of the model *)
StoredVals == {Absent, B(TRUE), B(FALSE)} \cup {ev.f[cl] : ev \in DS, cl \in Cols}

NumLitSet == { LInt(1, <<"1">>), LInt(2, <<"2">>), LInt(-2, <<"-", "2">>), LInt(0, <<"0">>),
               LDec(2, <<"1", ".", "0">>), LDec(3, <<"1", ".", "5">>), LDec(4, <<"2", ".", "0">>),
               LDec(-1, <<"-", "0", ".", "5">>), LDec(1, <<"0", ".", "5">>) }
StrLitSet == { LQ(2, <<"1">>), LQ(2, <<"1", ".", "0">>), LQ(4, <<"2">>),
               LS(<<"a", "b">>), LS(<<"A", "B">>), LS(<<"b">>), LS(<<"a", "*">>), LS(<<"*", "b">>),
               LS(<<"a", " ", "b">>), LS(<<"A", " ", "B">>), LS(<<"*", "a", "*">>), LS(<<"a", "*", "b">>), LS(<<"b", "a">>) }
Lits == NumLitSet \cup StrLitSet

TermLits == { LS(<<"a", "b">>), LS(<<"A", "B">>), LS(<<"b">>), LS(<<"a">>), LS(<<"a", " ", "b">>), LS(<<"b", " ", "a">>),
              LS(<<"B", " ", "A", "B">>), LS(<<"a", "*">>), LS(<<"*", "a">>), LS(<<"b", "a">>), LS(<<"b", "b">>) }

Cmp(cl, op, l) == [t |-> "cmp", col |-> cl, op |-> op, lit |-> l]
Term(l) == [t |-> "term", col |-> "*", op |-> "=", lit |-> l]

(* leaf tuples for the composite expressions: determined numeric leaves, text leaves, free text,
   leaves with open cells (bool, != on absent), the mixed column *)
LeafSets == <<
  << Cmp("ci", ">=", LInt(1, <<"1">>)), Cmp("ct", "=", LS(<<"a", "*">>)), Term(LS(<<"b">>)), Cmp("cf", "<", LDec(3, <<"1", ".", "5">>)) >>,
  << Cmp("cn", "=", LInt(1, <<"1">>)), Cmp("ct", "!=", LS(<<"a", "b">>)), Term(LS(<<"a", " ", "b">>)), Cmp("cb", "=", LS(<<"a", "b">>)) >>,
  << Cmp("cm", ">", LInt(1, <<"1">>)), Cmp("cm", "=", LS(<<"a", "b">>)), Cmp("ci", "!=", LInt(1, <<"1">>)), Term(LS(<<"a", "b">>)) >>,
  << Cmp("ci", "<", LInt(2, <<"2">>)), Cmp("cf", ">=", LInt(1, <<"1">>)), Cmp("ci", "=", LInt(1, <<"1">>)), Cmp("cf", "<=", LDec(4, <<"2", ".", "0">>)) >>
>>

RangeBounds == {0, 1, 9, 10, 11, 40, 45, 89, 90, 91}

(* text universe for the matcher laws *)
Alpha == {"a", "b", " "}
PatAlpha == {"a", "b", " ", "*"}
SeqsUpTo(S, n) == UNION {[1..k -> S] : k \in 0..n}
=============================================================================
