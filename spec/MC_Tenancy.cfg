SPECIFICATION Spec
CONSTANTS
  Orgs <- Orgs2
  Indexes <- IndexNames
  Aliases <- AliasNames
  Exprs <- ExprsAll
  DelExprs <- DelExprsAll
  TermsOf <- Terms
  Matches <- Match
  IsWild <- Wild
  MaxOps = 4
  FixDelete = FALSE
  FixRegistry = FALSE
INVARIANTS NoDeleteExact TypeOK
CHECK_DEADLOCK FALSE
VIEW View
