SPECIFICATION Spec
CONSTANTS
  c1 = c1
  c2 = c2
  c3 = c3
  NF = 3
  Cols <- Cols3
  SfmAtomic = TRUE
  Rotate = TRUE
  Tree = TRUE
  TreeAtomic = FALSE
INVARIANTS TreeReadable
CHECK_DEADLOCK FALSE
