SPECIFICATION Spec
CONSTANTS
  NSEG = 2
  NBLK = 2
  R = 2
  T = 4
  MAXB = 1
  RF = FALSE
INVARIANTS NoLivelock
VIEW View
