SPECIFICATION GenSpec
CONSTANTS
  MaxDp = 9
  MaxIdx = 0
  MaxBlk = 0
  MaxCrash = 0
  Faults = FALSE
  LexListing = TRUE
  CrcChecked = TRUE
  FlushBeforeDelete = FALSE
  KeepFlushedBlock = FALSE
  MetaAtomic = FALSE
  StartupIngest = FALSE
  MetaSkipsEmptyBlock = FALSE
  MaxMeta = 0
  NpDp = 0
  Kinds = {"dp", "mname", "meta"}
  MaxBlocks = 3
  MaxPerBlock = 3
CONSTRAINTS Bound Emit
CHECK_DEADLOCK FALSE
