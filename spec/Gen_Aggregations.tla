--------------------------- MODULE Gen_Aggregations ---------------------------
(* Behaviour generator for Aggregations: every complete behaviour (all events
   ingested, last part closed) is written as one JSON line: the dataset, the
   segmentation (cuts: events per part and whether the part ends with a block
   flush or a segment rotation) and the expected tables: global aggregates,
   group-by rows, time buckets (origin 0) for every span, and the buckets of
   `bin span= aligntime=` for every (span, align time) of AlignSpans x AlignTimes. *)
EXTENDS Aggregations, AggregationsConsts, Json, IOUtils

BagJ(b) == {[v |-> w, n |-> b[w]] : w \in DOMAIN b}
FinalJ(p) == LET f == Final(p) IN
  [count |-> f.count, countx |-> f.countx, sum |-> f.sum, min |-> f.min, max |-> f.max, range |-> f.range,
   avgnum |-> f.avgnum, avgden |-> f.avgden, hasnum |-> f.hasnum, values |-> f.values, list |-> BagJ(f.list),
   dc |-> f.dc, dcnum |-> f.dcnum, earliest |-> f.earliest, latest |-> f.latest]
BucketsJ(span) == LET T == BucketTable(Seen, span, 0)
                  IN {[b |-> b, count |-> T[b].cnt, sum |-> T[b].sum] : b \in DOMAIN T}
(* second admissible reading: a numeric string is text (not a number) for sum/min/max/avg *)
StripEv(e) == [e EXCEPT !.x = IF @.k = "numstr" THEN [k |-> "text", n |-> 0, c |-> @.c] ELSE @]
Strip(E) == {StripEv(e) : e \in E}
AlignedJ(span, a) == LET T == BucketTable(Seen, span, a)
                     IN {[b |-> b, count |-> T[b].cnt, sum |-> T[b].sum] : b \in DOMAIN T}
Line == [ds |-> ds, cuts |-> cuts,
         global |-> FinalJ(MergedG),
         global_ns |-> FinalJ(Direct(Strip(Seen))),
         rows |-> {[key |-> MergedT[j].key, f |-> FinalJ(MergedT[j].p),
                    f_ns |-> FinalJ(Direct(Strip({e \in Seen : e.g = MergedT[j].key})))] : j \in DOMAIN MergedT},
         buckets |-> {[span |-> s, rows |-> BucketsJ(s)] : s \in Spans},
         aligned |-> IF Spans = {} THEN {} ELSE {[span |-> s, align |-> a, rows |-> AlignedJ(s, a)] : s \in AlignSpans, a \in AlignTimes}]
Emit == done => Serialize(ToJson(Line) \o "\n", "behaviours.ndjson",
                  [format |-> "TXT", charset |-> "UTF-8", openOptions |-> <<"WRITE", "CREATE", "APPEND">>]).exitValue = 0
=============================================================================
