SPECIFICATION GenSpec
CONSTANTS
  Defect = "none"
  Mode = "ds"
CONSTRAINT Emit
CHECK_DEADLOCK FALSE
