SPECIFICATION GenSpec
CONSTANTS
  Orgs <- OrgsColl
  Indexes <- IndexNamesColl
  Aliases <- NoAliases
  Exprs <- ExprsColl
  DelExprs <- DelExprsColl
  TermsOf <- Terms
  Matches <- Match
  IsWild <- Wild
  GenMode = "plain"
  MaxOps = 4
  FixDelete = FALSE
  FixRegistry = FALSE
CONSTRAINT Emit
CHECK_DEADLOCK FALSE
