SPECIFICATION Spec
CONSTANTS
  Vals <- ValsSmall
  Ops <- OpsAuto
  Tol = 0
  MaxRows = 2
  NKeys = 2
  RankByLooks = FALSE
INVARIANTS SortExists AdjacentIsTotal
CHECK_DEADLOCK FALSE
