------------------------------- MODULE Alerts -------------------------------
(* C20, alert part.  Transcription of what pkg/alerts/alertsHandler does at one
   evaluation of one alert, next to the required law (AlertsLaw.tla), so that TLC
   lists the histories where they differ (candidates; a verdict is only ever
   given on the real code, by Judge_Alerts.tla on recorded traces).

   Code state (sqlite, siglens.db):
     hist       alert_history_details rows of the alert, oldest first:
                [state, isEval]; evaluation rows carry the state the evaluation
                wrote, "Config Modified" rows (ProcessUpdateAlertRequest) carry the
                zero AlertState = "Inactive"
     state      all_alerts.state
     lastSent   notification_details.last_sent_time  (-1 = zero time)
     lastNotif  notification_details.last_alert_state ("Inactive" = never sent)
     silence    all_alerts.silence_minutes (ticks)
     now        the clock (ticks)
   Configuration: N = eval_for / eval_interval, Cool = cooldown_period.

   cronJobHandler.go handleAlertCondition(cond):
     cond:  newState := Pending; if shouldUpdateAlertStateToFiring then Firing
            shouldUpdate...: N = 1 -> TRUE; else read the newest N-1 history rows
            (ANY rows of the alert, GetAlertHistoryByAlertID, DESC, limit N-1):
            fewer than N-1 -> FALSE; all Pending/Firing -> TRUE
            if Firing: NotifyAlertHandlerRequest(Firing)
     ~cond: newState := Normal; NotifyAlertHandlerRequest(Normal)
     then UpdateAlertStateAndNotificationDetails(state, sent) + history row.
   notificationHandler.go shouldSendNotification(state):
     Normal and lastNotif in {Inactive, Normal} -> no
     not isCooldownOver(Cool, lastSent) -> no ; not isSilenceMinutesOver -> no ; yes
     (both "over" tests: zero lastSent -> TRUE, else now - lastSent >= minutes). *)
EXTENDS AlertsLaw, TLC

CONSTANTS N,          \* evaluation window / interval
          Cool,       \* cool-down in ticks
          SilLen,     \* silence minutes set by the Silence action (ticks)
          MaxEvals,   \* evaluations per history
          MaxDt,      \* ticks that may pass between two evaluations
          MaxEdits,   \* UserEdit actions per history
          MaxSil,     \* Silence/Unsilence actions per history
          MaxFails,   \* evaluations at which the contact point is unreachable (delivery fails)
          RowsDelta   \* the code reads the newest N-1+RowsDelta earlier rows: 0 as written;
                      \* -1 / +1 are model mutants (sensitivity of the model)

VARIABLES hist, state, lastSent, lastNotif, silence, now,
          g,        \* ghost of the law (AlertsLaw!Ghost0...)
          sent,     \* notification emitted by the last action ("none" if not an evaluation)
          law, adm, \* law state / admissible set computed at the last evaluation
          isEval,   \* the last action was an evaluation
          dt, nEdit, nSil, quiet, \* bounding counters; quiet = a non-evaluation action just happened
          nFail, tried            \* failing deliveries so far; the last evaluation attempted a delivery
vars == <<hist, state, lastSent, lastNotif, silence, now, g, sent, law, adm, isEval, dt, nEdit, nSil, quiet, nFail, tried>>

PendingOrFiring(s) == s \in {"Pending", "Firing"}
Rows == N - 1 + RowsDelta

CodeShouldFire == IF N = 1 THEN TRUE
                  ELSE /\ Len(hist) >= Rows
                       /\ \A i \in (Len(hist) - Rows + 1)..Len(hist) : PendingOrFiring(hist[i].state)
CodeCooldownOver == lastSent = -1 \/ now - lastSent >= Cool
CodeSilenceOver == lastSent = -1 \/ now - lastSent >= silence
CodeShouldSend(s) == /\ ~(s = "Normal" /\ lastNotif \in {"Inactive", "Normal"})
                     /\ CodeCooldownOver /\ CodeSilenceOver

Init == /\ hist = <<>> /\ state = "Inactive" /\ lastSent = -1 /\ lastNotif = "Inactive"
        /\ silence = 0 /\ now = 0 /\ g = Ghost0 /\ sent = "none" /\ law = "Inactive" /\ adm = {"none"}
        /\ isEval = FALSE /\ dt = 0 /\ nEdit = 0 /\ nSil = 0 /\ quiet = FALSE /\ nFail = 0 /\ tried = FALSE

(* d = "ok" | "fail": whether the contact point is reachable at this evaluation (an input).
   NotifyAlertHandlerRequest returns (false, err) when nothing could be delivered; handleAlertCondition
   logs the error and goes on: the state, the history row and the evaluation counter are written all
   the same, only last_sent_time / last_alert_state stay as they were. *)
Evaluate(c, d) ==
  /\ Len(g.cs) < MaxEvals
  /\ d = "fail" => nFail < MaxFails
  /\ LET newState == IF c THEN (IF CodeShouldFire THEN "Firing" ELSE "Pending") ELSE "Normal"
         doSend == newState \in {"Firing", "Normal"} /\ CodeShouldSend(newState)
         delivered == doSend /\ d = "ok"
         s == IF delivered THEN newState ELSE "none"
         r == LawEval(g, c, s, N, Cool, d = "fail")
     IN /\ hist' = Append(hist, [state |-> newState, isEval |-> TRUE])
        /\ state' = newState
        /\ lastSent' = IF delivered THEN now ELSE lastSent
        /\ lastNotif' = IF delivered THEN newState ELSE lastNotif
        /\ sent' = s /\ g' = r.g /\ law' = r.law /\ adm' = r.adm
        /\ tried' = doSend
  /\ nFail' = IF d = "fail" THEN nFail + 1 ELSE nFail
  /\ isEval' = TRUE /\ dt' = 0 /\ quiet' = FALSE
  /\ UNCHANGED <<silence, now, nEdit, nSil>>

Tick == /\ dt < MaxDt /\ Len(g.cs) < MaxEvals
        /\ now' = now + 1 /\ dt' = dt + 1 /\ g' = LawTick(g)
        /\ sent' = "none" /\ isEval' = FALSE
        /\ UNCHANGED <<hist, state, lastSent, lastNotif, silence, law, adm, nEdit, nSil, quiet, nFail, tried>>

(* ProcessUpdateAlertRequest with an unchanged configuration: UpdateAlert keeps the
   state, a "Config Modified" history row with the zero AlertState is appended *)
UserEdit == /\ nEdit < MaxEdits /\ ~quiet /\ Len(g.cs) < MaxEvals
            /\ hist' = Append(hist, [state |-> "Inactive", isEval |-> FALSE])
            /\ nEdit' = nEdit + 1 /\ quiet' = TRUE /\ sent' = "none" /\ isEval' = FALSE
            /\ UNCHANGED <<state, lastSent, lastNotif, silence, now, g, law, adm, dt, nSil, nFail, tried>>

(* ProcessSilenceAlertRequest / ProcessUnsilenceAlertRequest: no history row *)
Silence == /\ nSil < MaxSil /\ ~quiet /\ silence = 0 /\ Len(g.cs) < MaxEvals
           /\ silence' = SilLen /\ g' = LawSilence(g, TRUE)
           /\ nSil' = nSil + 1 /\ quiet' = TRUE /\ sent' = "none" /\ isEval' = FALSE
           /\ UNCHANGED <<hist, state, lastSent, lastNotif, now, law, adm, dt, nEdit, nFail, tried>>
Unsilence == /\ nSil < MaxSil /\ ~quiet /\ silence # 0 /\ Len(g.cs) < MaxEvals
             /\ silence' = 0 /\ g' = LawSilence(g, FALSE)
             /\ nSil' = nSil + 1 /\ quiet' = TRUE /\ sent' = "none" /\ isEval' = FALSE
             /\ UNCHANGED <<hist, state, lastSent, lastNotif, now, law, adm, dt, nEdit, nFail, tried>>

Next == (\E c \in BOOLEAN, d \in {"ok", "fail"} : Evaluate(c, d)) \/ Tick \/ UserEdit \/ Silence \/ Unsilence
Spec == Init /\ [][Next]_vars

-----------------------------------------------------------------------------
(* Required law, evaluated after every evaluation *)
StateLaw == isEval => state = law
NotifLaw == isEval => sent \in adm
(* the history and the evaluation counter follow the evaluations, whatever the delivery did *)
HistoryLaw == /\ Len(SelectSeq(hist, LAMBDA r : r.isEval)) = Len(g.cs)
              /\ isEval => hist[Len(hist)].state = law
(* the code's own bookkeeping agrees with what really happened *)
Bookkeeping == /\ lastSent = g.lastSent
               /\ (lastNotif = "Inactive") = (g.lastKind = "none")
               /\ (lastNotif # "Inactive" => lastNotif = g.lastKind)
TypeOK == /\ state \in {"Inactive", "Normal", "Pending", "Firing"}
          /\ sent \in {"none", "Firing", "Normal"} /\ now \in Nat /\ lastSent \in -1..now
=============================================================================
