SPECIFICATION Spec
CONSTANTS
  q1 = q1
  q2 = q2
  q3 = q3
  Q <- Q3
  MAXRUN = 2
  CAP = 10
  ASYNC = FALSE
  MAXUPD = 0
  CANCELS = 1
  TIMERS = FALSE
  SeesAdmitting = TRUE
SYMMETRY Sym3
INVARIANTS TypeOK Admission NoDoubleBooking OneTerminal CleanAfterReturn QuiescentClean NoStuckSender NoStuckWithLock CancelTakesEffect
