------------------------------ MODULE Gen_Traces ------------------------------
(* Behaviour generator for Traces.
   forest mode (Mode = "forest", CONSTRAINT EmitForest): every complete forest (with at most one
     malformation) that passes the seed filter is written as one JSON line: the spans and the
     expected views (exact for well-formed traces, bounds of the admissible set otherwise).
     Run exhaustively for small MaxSpans and with -simulate for 5..7 spans.
   plan mode (Mode = "plan", CONSTRAINT EmitPlan): every ingest plan (arrival order, batching,
     flush after every batch or only at the end) for 1..MaxSpans spans. *)
EXTENDS Traces, TracesPick, Json, IOUtils

SvcABC == <<"A", "B", "C">>
SvcAB == <<"A", "B">>
NoMalformations == {}
AllMal == MalKinds
Write(x, file) == Serialize(ToJson(x) \o "\n", file,
                     [format |-> "TXT", charset |-> "UTF-8", openOptions |-> <<"WRITE", "CREATE", "APPEND">>]).exitValue = 0

TraceOut(t) ==
  [trace |-> t, wf |-> WellFormedTrace(F, t),
   roots |-> SetToSeq({[id |-> r.id, service |-> r.service, op |-> r.op, start |-> r.start, dur |-> r.dur] : r \in Roots(F, t)}),
   nspans |-> Cardinality(SpansOf(F, t)),
   nerr |-> Cardinality({s \in SpansOf(F, t) : s.status = "error"}),
   tree |-> SetToSeq(Tree(F, t)),
   links |-> SetToSeq(LinksMax(F, t))]
RedOut(svc) ==
  LET E == Entries(F, svc) IN
  [service |-> svc,
   entries |-> SetToSeq({c.id : c \in E}), def |-> SetToSeq({c.id : c \in EntriesDef(F, svc)}), poss |-> SetToSeq({c.id : c \in EntriesPoss(F, svc)}),
   count |-> Cardinality(E), nerr |-> Cardinality({c \in E : c.status = "error"}),
   pct |-> IF E = {} THEN <<>> ELSE [k \in 1 .. 4 |-> LET p == <<50, 90, 95, 99>>[k] IN [p |-> p, lo |-> PctLo(E, p), hi |-> PctHi(E, p), frac |-> PctFrac(E, p)]]]
ForestHash == (FoldLeft(LAMBDA acc, s : acc * 3 + s.id * 7 + s.trace * 13 + s.parent * 31 + SvcIdx(s.service) * 17 + s.span * 5
                                          + (IF s.status = "error" THEN 11 ELSE 0), PickSeed * 101 + 7, forest)
               + (IF mal.kind = "none" THEN 0 ELSE 1000 + mal.i * 37 + mal.j * 53))
              % (IF mal.kind = "none" THEN PickModNone ELSE PickMod)
EmitForest ==
  IF phase = "done" /\ ForestHash = 0
  THEN Write([spans |-> forest, mal |-> mal, wf |-> WellFormed(F),
              traces |-> [k \in 1 .. Cardinality(TraceIds(F)) |-> TraceOut(k)],
              dep |-> SetToSeq({[from |-> e[1], to |-> e[2], n |-> DepCount(F, e)] : e \in DepEdges(F)}),
              red |-> SetToSeq({RedOut(svc) : svc \in ServicesIn(F)})], "behaviours.ndjson")
  ELSE TRUE
EmitPlan ==
  IF phase = "done"
  THEN Write([n |-> Len(forest), order |-> order, batches |-> batches, flushEach |-> flushEach,
              arrival |-> [k \in 1 .. Len(forest) |-> Perm(order, Len(forest))[k]]], "behaviours.ndjson")
  ELSE TRUE
=============================================================================
