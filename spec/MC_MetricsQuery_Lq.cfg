SPECIFICATION Spec
CONSTANTS
  USeq <- UH
  Scenarios <- ScenLOne
  Grids = {"pow"}
  Orders = {"series"}
  NT = 12
  MaxOps = 2
  Tails <- TailsH
  Queries <- QueriesLMC
  RegisterPerSegment = TRUE
INVARIANTS TypeOK NoLossNoDup TagsCover LayoutInvarianceSel LayoutInvariance
CHECK_DEADLOCK FALSE
VIEW View
