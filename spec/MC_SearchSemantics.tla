------------------------- MODULE MC_SearchSemantics -------------------------
(* Exhaustive evaluation of the laws of SearchSemantics: one TLC state per case.
   Mode selects the case universe:
     "cell"  every stored value x operator x literal                (R1 R2 R3)
     "text"  every pattern (at most 3 chars over a, b, space, star) x every text (at most 4 chars over a, b, space)
     "expr"  every depth <= 2 expression over every leaf tuple, on the dataset  (R4)
     "range" every block [bl,bh] x query range [lo,hi] in 0..6      (R5) *)
EXTENDS SearchSemantics, SearchSemanticsConsts
CONSTANT Mode
VARIABLE c

Texts == SeqsUpTo(Alpha, 4)
Pats  == SeqsUpTo(PatAlpha, 3) \ {<<>>}
Init == CASE Mode = "cell"  -> c \in [v : StoredVals, op : Ops, l : Lits \cup TermLits]
          [] Mode = "text"  -> c \in [p : Pats, s : Texts]
          [] Mode = "expr"  -> c \in [ls : DOMAIN LeafSets, e : Tops(4), lo : {0, 10}, hi : {90, 40}]
          [] Mode = "exprq" -> c \in [ls : {1, 2}, e : Tops(4), lo : {0}, hi : {90}]
          [] Mode = "range" -> c \in [bl : 0..6, bh : 0..6, lo : 0..6, hi : 0..6]
Next == FALSE /\ UNCHANGED c
Spec == Init /\ [][Next]_c

AllL == Lits \cup TermLits
InvDetermined == Mode = "cell" => LawDetermined(c.v, c.op, c.l)
InvSpelling   == Mode = "cell" => LawSpelling(c.v, c.op, c.l, StoredVals, AllL)
InvTrichotomy == Mode = "cell" => LawTrichotomy(c.v, c.l)
InvNeq        == Mode = "cell" => LawNeq(c.v, c.l)
InvCase       == Mode = "cell" => LawCase(c.v, c.op, c.l, StoredVals, AllL)
InvWhere      == Mode = "cell" => LawWhere(c.v, c.op, c.l)
InvAbsent     == Mode = "cell" => LawAbsent(c.v, c.op, c.l)
InvNonEmpty   == Mode = "cell" => LawNonEmpty(c.v, c.op, c.l) /\ TermCell(c.v, c.l) # {}

InvWildLiteral == Mode = "text" => LawWildLiteral(c.p, c.s)
InvWildStar    == Mode = "text" => LawWildStar(c.p, c.s)
InvTermDefs    == Mode = "text" => LawTermDefs(c.p, c.s)
InvTermVsValue == Mode = "text" => LawTermVsValue(c.p, c.s)

InvMustMay  == Mode \in {"expr", "exprq"} => LawMustMay(c.e, LeafSets[c.ls], DS, c.lo, c.hi, Cols)
InvAlgebra  == Mode \in {"expr", "exprq"} => LawAlgebra(c.e, LeafSets[c.ls], DS, c.lo, c.hi, Cols)
InvDeMorgan == Mode \in {"expr", "exprq"} => LawDeMorgan(c.e, LeafSets[c.ls], DS, c.lo, c.hi, Cols)

InvRangeInclusive == Mode = "range" => LawRangeInclusive(c.lo, c.hi)
InvPruneSound     == Mode = "range" => LawPruneSound(c.bl, c.bh, c.lo, c.hi)
=============================================================================
