------------------------------- MODULE Gen_Paths -------------------------------
(* Exports every (api, name) case of the Paths model with the outcome the model predicts for the code as it is.
   The check concretises each class sequence (plus URL-encoded, double-encoded and 4 KiB variants) and performs the real
   request against the real HTTP servers. *)
EXTENDS Paths, Json, IOUtils
Emit == IF done
        THEN Serialize(ToJson([api |-> api.api, transport |-> api.transport, base |-> api.base, suffix |-> api.suffix, store |-> api.store,
                               effect |-> api.effect, entry |-> entry, hist |-> hist, occ |-> occ, multi |-> api.multi, name |-> name, predicted |-> result]) \o "\n", "behaviours.ndjson",
                 [format |-> "TXT", charset |-> "UTF-8", openOptions |-> <<"WRITE", "CREATE", "APPEND">>]).exitValue = 0
        ELSE TRUE
=============================================================================
