------------------------------ MODULE Gen_WAL ------------------------------
(* Behaviour generator for the fn-level binding of WAL: the append histories the writer actions of WAL.tla (Buffer and
   the three writes of Append) can produce within MaxBlocks blocks of at most MaxPerBlock items, for each of the three log
   encoders (datapoints, metric names, meta entries).  Every quiescent state (no append in progress, nothing buffered) is
   written as one JSON line {kind, blocks: items per completed block}; the in-package harness writes that history with the
   real Wal and reads back every truncation and byte flip of it with the real iterators. *)
EXTENDS WAL, Json, IOUtils
CONSTANTS Kinds, MaxBlocks, MaxPerBlock
VARIABLE kind
GenInit == Init /\ kind \in Kinds
GenNext == (Buffer \/ AppendLen \/ AppendCrc \/ AppendPayload) /\ UNCHANGED kind
GenSpec == GenInit /\ [][GenNext]_<<vars, kind>>
Sizes == [i \in 1..Len(appended) |-> Len(appended[i].dps)]
Bound == Len(buf) <= MaxPerBlock /\ Len(appended) + (IF buf # <<>> THEN 1 ELSE 0) <= MaxBlocks
Emit == IF Bound /\ pc = "idle" /\ buf = <<>> /\ appended # <<>>
        THEN Serialize(ToJson([kind |-> kind, blocks |-> Sizes]) \o "\n", "behaviours.ndjson",
                 [format |-> "TXT", charset |-> "UTF-8", openOptions |-> <<"WRITE", "CREATE", "APPEND">>]).exitValue = 0
        ELSE TRUE
=============================================================================
