----------------------------- MODULE GrammarProm -----------------------------
(* Fourth generative grammar for the C17 parser / executor half: PromQL range-vector REQUESTS.  A PromQL query is
   answered for a request (text, start, end); the evaluation of a range function walks the request's time range in
   steps that come either from the text (subquery  [range:step]) or from the request (default step = range / 250).
   The interesting product is therefore (function) x (selector form incl. the subquery step class) x (shape of the
   request range: a single instant, one second, an hour, a day) x (an outer aggregation or none) - token-level
   enumeration (Grammar.tla) keeps the request range fixed and has no subquery token.  TLC enumerates the product;
   each state is exported as JSON and checks/c17_grammar.py turns it into a request against the real engine
   (answer or error in bounded time, process alive, same text => same plan). *)
EXTENDS Naturals, Sequences, Json, IOUtils
CONSTANTS Fns,      \* range functions
          Sels,     \* range selector forms: plain matrix selector, subquery with explicit / default / sub-second step
          Ranges,   \* request range classes (interpreted by the check)
          Outers    \* outer aggregation templates ("" = none)
VARIABLES q, done
None == [fn |-> "", sel |-> "", range |-> "", outer |-> ""]
Init == q = None /\ done = FALSE
Next == /\ ~done /\ done' = TRUE
        /\ \E f \in Fns, s \in Sels, r \in Ranges, o \in Outers : q' = [fn |-> f, sel |-> s, range |-> r, outer |-> o]
Spec == Init /\ [][Next]_<<q, done>>
Emit == IF done
        THEN Serialize(ToJson(q) \o "\n", "behaviours.ndjson",
                 [format |-> "TXT", charset |-> "UTF-8", openOptions |-> <<"WRITE", "CREATE", "APPEND">>]).exitValue = 0
        ELSE TRUE
=============================================================================
