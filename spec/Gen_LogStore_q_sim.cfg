SPECIFICATION GenSpec
CONSTANTS
  Streams <- OneStream
  Classes <- ClassesQ
  TsClasses <- TsOne
  Cols <- ColsAll
  ClassKinds <- KindsTabQ
  ClassX <- XTabQ
  ClassXS <- XSTabQ
  ClassT <- TTabQ
  ClassM <- MTabQ
  LowerOf <- LowerTab
  QNums <- QNumsOne
  QWords <- QWordsTwo
  MaxEvents = 8
  MaxBatch = 3
  MaxFlush = 4
  MaxRotate = 2
  MaxRestart = 1
  MaxPromote = 1
  PromoteOps <- PromoAll
  BlockCap = 99
  CardLimit = 2
  NeSkipsConstBlock = FALSE
  LowerOnInsert = TRUE
  MaxSteps = 10
CONSTRAINT Emit
CHECK_DEADLOCK FALSE
