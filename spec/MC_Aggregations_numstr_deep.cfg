SPECIFICATION Spec
CONSTANTS
  Defect = "none"
  N = 4
  Datasets <- DatasetsNumStr4s
  Spans <- SpansAll
  Origins <- OriginsAll
INVARIANTS InvMergeEqualsDirect InvFinal InvMergeCommutes InvKeysOnce InvRows InvRowsPartition TypeOK
CHECK_DEADLOCK FALSE
