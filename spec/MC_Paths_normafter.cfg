SPECIFICATION Spec
CONSTANTS
  MaxLen = 3
  GuardMode = "all"
  NormAfterGuard <- AllApiNames
  Classes <- CoreClasses
INVARIANTS Confined
CHECK_DEADLOCK FALSE
