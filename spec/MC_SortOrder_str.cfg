SPECIFICATION Spec
CONSTANTS
  Vals <- ValsStr
  Ops <- OpsAll
  Tol = 0
  MaxRows = 3
  NKeys = 1
  RankByLooks = FALSE
INVARIANTS SortExists AdjacentIsTotal
CHECK_DEADLOCK FALSE
