SPECIFICATION GenSpec
CONSTANTS
  Tenants <- T2
  Keys <- K3
  Ops <- OpsCD
  MaxOps = 6
  MaxRestarts = 2
  Strict = TRUE
  Policy <- PolAlias
  ReloadSkips <- NoTenants
  CleanFlush = "none"
CHECK_DEADLOCK FALSE
CONSTRAINT Emit
