SPECIFICATION Spec
CONSTANTS
  Names = {"cpu", "cpua"}
  Keys = {"a", "ab", "b"}
  Vals = {"", "c", "bc", "b,c=d"}
  MaxTags = 2
INVARIANT Separated
CONSTRAINT Emit
CHECK_DEADLOCK FALSE
