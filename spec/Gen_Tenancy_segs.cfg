SPECIFICATION GenSpec
CONSTANTS
  Orgs <- Orgs2
  Indexes <- IndexNamesOne
  Aliases <- NoAliases
  Exprs <- ExprsOne
  DelExprs <- DelExprsOne
  TermsOf <- Terms
  Matches <- Match
  IsWild <- Wild
  GenMode = "segs"
  MaxOps = 5
  FixDelete = FALSE
  FixRegistry = FALSE
CONSTRAINT Emit
CHECK_DEADLOCK FALSE
