SPECIFICATION Spec
CONSTANTS
  MaxDp = 4
  MaxIdx = 2
  MaxBlk = 1
  MaxCrash = 2
  Faults = TRUE
  LexListing = FALSE
  CrcChecked = TRUE
  FlushBeforeDelete = TRUE
  KeepFlushedBlock = TRUE
  MetaAtomic = TRUE
  StartupIngest = FALSE
  MetaSkipsEmptyBlock = FALSE
  MaxMeta = 0
  NpDp = 0
INVARIANTS TypeOK PrefixPerFile NoInvent Rejected InOrder MetaNoInvent CompleteReplay Durable
CHECK_DEADLOCK FALSE
