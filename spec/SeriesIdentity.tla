--------------------------- MODULE SeriesIdentity ---------------------------
(* Identity of a metric series (C08: "series with different names or tag sets are never merged, and the tag
   keys/values reported for a series are exactly those ingested").  A series is a metric name plus a set of
   (key, value) tags.  The engine identifies it by a 64-bit id computed from the name and the tags
   (pkg/segment/writer/metrics/tagsholder.go GetTSID); whatever that computation is, it must be injective on
   what the ingest API accepts.  The strings are drawn from an alphabet chosen so that every way in which a
   non-injective encoding typically collides is present: concatenation without separator (a+bc = ab+c), key and
   value swapped, a tag with an empty value versus no tag, a name that is a prefix of another, separator characters
   inside values.

   TLC enumerates every pair of DISTINCT series over the alphabet (Gen config) and checks on the model that the
   reference identity (the pair <<name, tag set>>) separates them; each pair is then ingested into the real engine
   and must come back as two series with exactly its own tags and datapoints. *)
EXTENDS Naturals, FiniteSets, Sequences, Json, IOUtils
CONSTANTS Names, Keys, Vals, MaxTags
TagSets == {ts \in SUBSET (Keys \X Vals) : /\ Cardinality(ts) <= MaxTags /\ Cardinality(ts) >= 1
                                             /\ \A a, b \in ts : a[1] = b[1] => a = b}      \* a key at most once
Series == Names \X TagSets
Id(s) == s                              \* reference identity
VARIABLE pair
Init == pair \in {p \in Series \X Series : p[1] # p[2]}
Next == UNCHANGED pair
Spec == Init /\ [][Next]_pair
Separated == Id(pair[1]) # Id(pair[2])
\* pairs worth replaying: same name, or one name a prefix of the other (different names never share an id file)
TagList(ts) == {[k |-> t[1], v |-> t[2]] : t \in ts}
Emit == Serialize(ToJson([a |-> [name |-> pair[1][1], tags |-> TagList(pair[1][2])],
                          b |-> [name |-> pair[2][1], tags |-> TagList(pair[2][2])]]) \o "\n", "behaviours.ndjson",
                 [format |-> "TXT", charset |-> "UTF-8", openOptions |-> <<"WRITE", "CREATE", "APPEND">>]).exitValue = 0
=============================================================================
