SPECIFICATION Spec
CONSTANTS
  LegacyFallback = TRUE
INVARIANTS ChecksummedNeverAltered
CHECK_DEADLOCK FALSE
