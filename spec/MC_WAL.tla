------------------------------- MODULE MC_WAL -------------------------------
EXTENDS WAL
\* all bounds are plain constants of WAL (see the MC_WAL_*.cfg files)
\* MC_WAL_lex.cfg: one datapoint per block, one block per file (the log file is rotated after every append), so that
\* index 10 is reached within a small state space
OneBlockPerFile == Len(buf) <= 1 /\ \A n \in DOMAIN wal : Len(wal[n].blocks) <= 1
=============================================================================
