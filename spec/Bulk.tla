------------------------------- MODULE Bulk -------------------------------
(* C15 - bulk ingest acknowledges exactly what it stored.

   Two things are written down here and compared by TLC for every request body
   of at most MaxLines lines over the line classes below:

   (a) Required(body): what the property statement demands of the response
       (items, errors flag) and of the store, as a SET of admissible outcomes
       (the statement leaves open how many lines a malformed action swallows,
       whether an empty line yields an item, whether a lenient parser accepts a
       damaged document - every such choice is admissible as long as
       "created <=> searchable" holds for the item);

   (b) Impl: a transcription of pkg/es/writer/esBulkHandler.go HandleBulkBody,
       one action per block of the loop body (read action line / switch case /
       item emission / per-index batch store), with the variables of the code
       (success, maxRecordSizeExceeded, overallError, atleastOneSuccess, inCount,
       items, allPLEs).

   The bodies on which Impl's outcome is not in Required are *candidates*; the
   invariant Characterised states that they are exactly the bodies in one of
   four named deviation classes.  The constants Fix* switch on the behaviour of
   the candidate patches (docs/patches/C15-*.patch): with all four TRUE,
   Conforms holds for every body.  Whether the REAL code deviates is decided
   only by the replay in checks/c15.py.

   Line classes (what the harness writes for them is in checks/c15.py):
     IDX  {"index":{"_index":"a",..}}      IDXB  same for a second index "b"
     IDXL index action for an index the store cannot create (name longer than
          a file name may be): the per-index batch fails after items were assigned
     CRE  {"create":{..}}   UPD {"update":{..}}   DEL {"delete":{..}}
     UNK  {"frobnicate":{..}}  (valid JSON, unknown action)
     NJ   not JSON          EMP  empty line
     DOC  valid document    BAD  damaged document (truncated JSON)
     NOC  valid document without any leaf column after flattening: {}, only the timestamp key, only empty
          containers / nulls.  It is a document like any other: created <=> searchable exactly once (it
          carries no marker, so the harness counts the marker-less records of the index)
     BIG  valid document of >= MAX_RECORD_SIZE bytes
   nl = does the body end with a newline (bodies whose last line is EMP are
   only generated with nl = TRUE: without it they are textually a shorter body). *)
EXTENDS Integers, Sequences, FiniteSets, TLC

CONSTANTS MaxLines,       \* bodies of 0..MaxLines lines
          Classes,        \* the line classes offered
          FixSticky,      \* BOOLEAN: maxRecordSizeExceeded is per item
          FixErrFlag,     \* BOOLEAN: a 413 item sets `errors`
          FixTrailing,    \* BOOLEAN: a trailing action (no further line) still yields an item
          FixStore        \* BOOLEAN: a failed per-index batch turns its items into failures

VARIABLES body, nl,                \* the request (chosen in Init)
          pc,                      \* "build" | "head" | "case" | "item" | "store" | "done"
          p,                       \* cursor: index of the next unread line (remainingPostBody)
          act,                     \* [k |-> esAction, a |-> line no of the action, c |-> its class]
          inCount, items,          \* items: sequence of [st |-> status, a |-> action line]
          success, maxExceeded, overallError, atleastOne,
          ples,                    \* allPLEs: sequence of [idx, d |-> doc line, it |-> item position]
          stored,                  \* doc lines that reached the segment store
          dropped                  \* history: line that was read in action position when the loop broke (0 = none)
vars == <<body, nl, pc, p, act, inCount, items, success, maxExceeded, overallError, atleastOne, ples, stored, dropped>>

N == Len(body)
ActionClasses == {"IDX", "IDXB", "IDXL", "CRE"}          \* index / create
JsonObjects == {"IDX", "IDXB", "IDXL", "CRE", "UPD", "DEL", "UNK", "DOC", "NOC"}   \* parse as a JSON object (and are < MAX_RECORD_SIZE)
IndexOf(c) == CASE c = "IDX" -> "a" [] c = "CRE" -> "a" [] c = "IDXB" -> "b" [] c = "IDXL" -> "L" [] OTHER -> "eventType"
StoreFails(idx) == idx = "L"
NoAct == [k |-> "none", a |-> 0, c |-> "EMP"]

(* The request is built line by line (so that -simulate samples long bodies), then sealed with or
   without a final newline; from then on the handler runs deterministically. *)
Init == /\ body = <<>> /\ nl = TRUE
        /\ pc = "build" /\ p = 1 /\ act = NoAct /\ inCount = 0 /\ items = <<>>
        /\ success = FALSE /\ maxExceeded = FALSE /\ overallError = FALSE /\ atleastOne = FALSE
        /\ ples = <<>> /\ stored = {} /\ dropped = 0

AddLine(c) == /\ pc = "build" /\ Len(body) < MaxLines
              /\ body' = Append(body, c)
              /\ UNCHANGED <<nl, pc, p, act, inCount, items, success, maxExceeded, overallError, atleastOne, ples, stored, dropped>>

Seal(hasNl) == /\ pc = "build"
               /\ (Len(body) = 0 \/ body[Len(body)] = "EMP") => hasNl     \* normal form, see header
               /\ nl' = hasNl /\ pc' = "head"
               /\ UNCHANGED <<body, p, act, inCount, items, success, maxExceeded, overallError, atleastOne, ples, stored, dropped>>

(* utils.ReadLine on the remaining text: returns line p (or the empty line when nothing is left)
   and advances; "len(remainingPostBody) == 0" afterwards <=> p' > N.  Whether the last line
   carries a newline makes no difference to either result (buf[end+1:] is empty, no '\n' gives nil). *)
ExtractAction(c) == CASE c \in {"IDX", "IDXB", "IDXL"} -> "INDEX" [] c = "CRE" -> "CREATE" [] c = "UPD" -> "UPDATE"
                      [] OTHER -> "DELETE"     \* ExtractIndexAndValidateAction: anything else, including non-JSON

(* for { line, rem = ReadLine(rem); if len(rem) == 0 { break }; inCount++; esAction.. = Extract(line) *)
LoopHead ==
  /\ pc = "head"
  /\ IF (IF FixTrailing THEN (p > N \/ (p = N /\ body[N] = "EMP"))   \* patched: stop when nothing is left (or only a final blank line)
                         ELSE p + 1 > N)                              \* unpatched: break when nothing FOLLOWS the line just read
     THEN /\ pc' = "store"
          /\ dropped' = IF p <= N THEN p ELSE 0
          /\ UNCHANGED <<p, act, inCount, maxExceeded>>
     ELSE /\ pc' = "case"
          /\ act' = [k |-> ExtractAction(body[p]), a |-> p, c |-> body[p]]
          /\ p' = p + 1
          /\ inCount' = inCount + 1
          /\ maxExceeded' = IF FixSticky THEN FALSE ELSE maxExceeded
          /\ UNCHANGED dropped
  /\ UNCHANGED <<body, nl, items, success, overallError, atleastOne, ples, stored>>

(* case INDEX, CREATE *)
CaseIndexCreate ==
  /\ pc = "case" /\ act.k \in {"INDEX", "CREATE"}
  /\ pc' = "item" /\ p' = p + 1     \* second ReadLine
  /\ IF p > N \/ (body[p] = "EMP" /\ p = N)
     THEN \* "expected another line after INDEX/CREATE" (p > N only reachable with FixTrailing)
          /\ success' = FALSE /\ UNCHANGED <<maxExceeded, ples>>
     ELSE IF body[p] # "BIG"
     THEN \* numBytes < MAX_RECORD_SIZE: GetNewPLE
          IF body[p] \in JsonObjects
          THEN /\ success' = TRUE /\ UNCHANGED maxExceeded
               /\ ples' = Append(ples, [idx |-> IndexOf(act.c), d |-> p, it |-> inCount])
          ELSE /\ success' = FALSE /\ UNCHANGED <<maxExceeded, ples>>
     ELSE /\ success' = FALSE /\ maxExceeded' = TRUE /\ UNCHANGED ples
  /\ UNCHANGED <<body, nl, act, inCount, items, overallError, atleastOne, stored, dropped>>

(* case UPDATE: success = false; the next line is consumed *)
CaseUpdate ==
  /\ pc = "case" /\ act.k = "UPDATE"
  /\ pc' = "item" /\ p' = p + 1 /\ success' = FALSE
  /\ UNCHANGED <<body, nl, act, inCount, items, maxExceeded, overallError, atleastOne, ples, stored, dropped>>

(* default: *)
CaseDefault ==
  /\ pc = "case" /\ act.k = "DELETE"
  /\ pc' = "item" /\ success' = FALSE
  /\ UNCHANGED <<body, nl, p, act, inCount, items, maxExceeded, overallError, atleastOne, ples, stored, dropped>>

(* if !success { if maxRecordSizeExceeded {413} else {overallError = true; 400} } else {atleastOneSuccess; 201} *)
Item ==
  /\ pc = "item" /\ pc' = "head"
  /\ IF ~success
     THEN IF maxExceeded
          THEN /\ items' = Append(items, [st |-> 413, a |-> act.a])
               /\ overallError' = (overallError \/ FixErrFlag)
               /\ UNCHANGED atleastOne
          ELSE /\ items' = Append(items, [st |-> 400, a |-> act.a])
               /\ overallError' = TRUE /\ UNCHANGED atleastOne
     ELSE /\ items' = Append(items, [st |-> 201, a |-> act.a])
          /\ atleastOne' = TRUE /\ UNCHANGED overallError
  /\ UNCHANGED <<body, nl, p, act, inCount, success, maxExceeded, ples, stored, dropped>>

(* pleBatches per index name -> ProcessIndexRequestPle; an error is only logged ("TODO: update
   atleastOneSuccess").  One atomic step: the batches are independent. *)
FailedItems == {ples[i].it : i \in {j \in 1..Len(ples) : StoreFails(ples[j].idx)}}
Store ==
  /\ pc = "store" /\ pc' = "done"
  /\ stored' = {ples[i].d : i \in {j \in 1..Len(ples) : ~StoreFails(ples[j].idx)}}
  /\ IF FixStore /\ FailedItems # {}
     THEN /\ items' = [k \in 1..Len(items) |-> IF k \in FailedItems THEN [st |-> 500, a |-> items[k].a] ELSE items[k]]
          /\ overallError' = TRUE
          /\ atleastOne' = (\E k \in 1..Len(items) : items[k].st = 201 /\ k \notin FailedItems)
     ELSE UNCHANGED <<items, overallError, atleastOne>>
  /\ UNCHANGED <<body, nl, p, act, inCount, success, maxExceeded, ples, dropped>>

Next == (\E c \in Classes : AddLine(c)) \/ (\E h \in BOOLEAN : Seal(h)) \/ LoopHead \/ CaseIndexCreate \/ CaseUpdate \/ CaseDefault \/ Item \/ Store
Spec == Init /\ [][Next]_vars

-----------------------------------------------------------------------------
(* (a) What the statement requires.  An admissible outcome is a sequence of
   [a |-> action line, d |-> document line or 0, adm |-> admissible reports],
   read as: the k-th item of the response belongs to the action on line a;
   "ok" (reported created) is admissible only if "ok" \in adm and then line d
   must be searchable exactly once; "fail" only if "fail" \in adm and then d
   must not be searchable. *)
DocAdm(a, d) ==
  IF d = "EMP" THEN {"fail"}                                   \* no document at all
  ELSE IF d \in JsonObjects
       THEN (IF StoreFails(IndexOf(a)) THEN {"fail"} ELSE {"ok"})   \* a valid document is created unless the store cannot take it
       ELSE {"ok", "fail"}                                      \* BAD, NJ, BIG: failed, or (lenient server) created-and-searchable

RECURSIVE Parses(_, _)
Cat(it, S) == {<<it>> \o s : s \in S}
Parses(b, q) ==
  IF q > Len(b) THEN {<<>>}
  ELSE LET c == b[q]
           failOne == [a |-> q, d |-> 0, adm |-> {"fail"}]
       IN IF c \in ActionClasses
          THEN IF q = Len(b) THEN {<<failOne>>}                 \* action without document: still one (failed) item
               ELSE Cat([a |-> q, d |-> q + 1, adm |-> DocAdm(c, b[q + 1])], Parses(b, q + 2))
          ELSE IF c = "UPD" THEN Cat(failOne, Parses(b, q + 2))  \* unsupported, two lines as in the bulk format
          ELSE IF c = "DEL" THEN Cat(failOne, Parses(b, q + 1))  \* unsupported, one line
          ELSE IF c = "EMP" THEN Parses(b, q + 1) \cup Cat(failOne, Parses(b, q + 1))
          ELSE \* unknown / malformed action line: its own failed item; may or may not take the next line with it
               Cat(failOne, Parses(b, q + 1)) \cup (IF q < Len(b) THEN Cat(failOne, Parses(b, q + 2)) ELSE {})

(* without a final newline the last action may alternatively be rejected *)
Relax(s) == IF Len(s) = 0 THEN s ELSE [s EXCEPT ![Len(s)].adm = @ \cup {"fail"}]
Required(b, hasNl) == IF hasNl THEN Parses(b, 1) ELSE Parses(b, 1) \cup {Relax(s) : s \in Parses(b, 1)}

Report(st) == IF st < 300 THEN "ok" ELSE "fail"
Matches(its, errs, sto, s) ==
  /\ Len(its) = Len(s)
  /\ \A k \in 1..Len(s) : /\ its[k].a = s[k].a
                          /\ Report(its[k].st) \in s[k].adm
                          /\ (Report(its[k].st) = "ok") => s[k].d \in sto
                          /\ (Report(its[k].st) = "fail" /\ s[k].d # 0) => s[k].d \notin sto
  /\ sto \subseteq {s[k].d : k \in {j \in 1..Len(s) : Report(its[j].st) = "ok"}}
  /\ errs = (\E k \in 1..Len(its) : Report(its[k].st) = "fail")
ConformsTo(b, hasNl, its, errs, sto) == \E s \in Required(b, hasNl) : Matches(its, errs, sto, s)

(* "a malformed, oversized or unknown action affects only its own item": the status an item reports
   depends only on the lines of its own action.  (Model side: 413 is the report of an oversize
   document and of nothing else.) *)
Local(b, its) == \A k \in 1..Len(its) : (its[k].st = 413) => (its[k].a < Len(b) /\ b[its[k].a + 1] = "BIG" /\ b[its[k].a] \in ActionClasses)

Done == pc = "done"
Conforms == Done => (ConformsTo(body, nl, items, overallError, stored) /\ Local(body, items))

(* ---- the four named deviation classes of the transcription ---- *)
Absorbers == {"UNK", "NJ", "DOC", "BAD", "BIG"}     \* malformed action lines that may be read as taking the next line with them
DevTrailing == \* the last line was read in action position and got no item (and no admissible parse explains that)
  /\ dropped # 0 /\ body[dropped] # "EMP"
  /\ ~(Len(items) > 0 /\ items[Len(items)].a = dropped - 1 /\ body[dropped - 1] \in Absorbers)
Dev413NoFlag == (\E k \in 1..Len(items) : items[k].st = 413) /\ ~overallError
DevSticky == ~Local(body, items)
DevStore == \E i \in 1..Len(ples) : StoreFails(ples[i].idx) /\ items[ples[i].it].st = 201
Deviates == DevTrailing \/ Dev413NoFlag \/ DevSticky \/ DevStore
Characterised == Done => (ConformsTo(body, nl, items, overallError, stored) /\ Local(body, items) <=> ~Deviates)

TypeOK == /\ pc \in {"build", "head", "case", "item", "store", "done"} /\ p \in 1..(MaxLines + 3) /\ inCount \in {Len(items), Len(items) + 1}
          /\ stored \subseteq 1..MaxLines
=============================================================================
