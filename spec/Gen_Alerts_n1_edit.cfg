SPECIFICATION GenSpec
CONSTANTS
  N = 1
  Cool = 0
  SilLen = 2
  MaxEvals = 5
  MaxDt = 0
  MaxEdits = 1
  MaxSil = 0
  MaxFails = 0
  RowsDelta = 0
CONSTRAINT Emit
CHECK_DEADLOCK FALSE
