SPECIFICATION ScenSpec
CONSTANTS
  USeq <- UH
  Scenarios <- ScenL
  Grids = {"pow", "neg"}
  Orders = {"time"}
  NT = 20
  MaxOps = 0
  Tails <- TailsH
  Queries <- QueriesL
  RegisterPerSegment = TRUE
CONSTRAINT EmitScenario
CHECK_DEADLOCK FALSE
