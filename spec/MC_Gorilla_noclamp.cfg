SPECIFICATION Spec
CONSTANTS
  MaxLen = 3
  Dods <- DodsAll
  Leads <- LeadsAll
  Trails <- TrailsAll
  LeadBits = 5
  ClampLead = FALSE
  FirstDelta = 0
INVARIANTS BitExact InSync Geometry TypeOK
CHECK_DEADLOCK FALSE
VIEW View
