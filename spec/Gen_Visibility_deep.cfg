SPECIFICATION GenSpec
CONSTANTS
  MaxEvents = 4
  MaxFlush = 2
  MaxRot = 1
  Dedup = TRUE
  Recheck = TRUE
  UseTree = TRUE
  TreeAtomic = TRUE
  ReaderFallback = TRUE
CONSTRAINT Emit
CONSTRAINT Stop
CHECK_DEADLOCK FALSE
