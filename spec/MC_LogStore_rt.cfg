SPECIFICATION Spec
CONSTANTS
  Streams <- TwoStreams
  Classes <- ClassesRT
  TsClasses <- TsOne
  Cols <- ColsAll
  ClassKinds <- KindsTab
  ClassX <- XTabRT
  ClassXS <- XSNone
  ClassT <- TTabRT
  ClassM <- MTabRT
  LowerOf <- LowerTab
  QNums <- QNumsOne
  QWords <- QWordsTwo
  MaxEvents = 3
  MaxBatch = 2
  MaxFlush = 2
  MaxRotate = 1
  MaxRestart = 1
  MaxPromote = 0
  PromoteOps <- PromoNone
  BlockCap = 2
  CardLimit = 2
  NeSkipsConstBlock = FALSE
  LowerOnInsert = TRUE
INVARIANTS RoundTrip LayoutIrrelevant StatsIrrelevant PruneSound TypeOK
PROPERTIES OnlyIngestGrows FlushedStays
CHECK_DEADLOCK FALSE
VIEW View
