----------------------------- MODULE Gen_Alerts -----------------------------
(* Behaviour generator for Alerts: carries the action sequence as a history
   variable together with what the code transcription predicts (state, sent) and
   what the law says (law, adm); every complete behaviour (MaxEvals evaluations)
   is written as one JSON line.  The in-package harness replays the actions on the
   real alertsHandler and records what really happened; Judge_Alerts.tla judges
   the recorded traces with the operators of AlertsLaw. *)
EXTENDS Alerts, AlertsConsts, Json, IOUtils
VARIABLE trail
GenInit == Init /\ trail = <<>>
Row(a, c, d) == [a |-> a, c |-> c, d |-> d, state |-> state', sent |-> sent', law |-> law', adm |-> adm', now |-> now']
GenNext == \/ \E c \in BOOLEAN, d \in {"ok", "fail"} : Evaluate(c, d) /\ trail' = Append(trail, Row("eval", c, d))
           \/ Tick /\ trail' = Append(trail, Row("tick", FALSE, "ok"))
           \/ UserEdit /\ trail' = Append(trail, Row("edit", FALSE, "ok"))
           \/ Silence /\ trail' = Append(trail, Row("silence", FALSE, "ok"))
           \/ Unsilence /\ trail' = Append(trail, Row("unsilence", FALSE, "ok"))
GenSpec == GenInit /\ [][GenNext]_<<vars, trail>>
Emit == IF Len(g.cs) = MaxEvals
        THEN Serialize(ToJson([n |-> N, cool |-> Cool, sil |-> SilLen, steps |-> trail]) \o "\n", "behaviours.ndjson",
                 [format |-> "TXT", charset |-> "UTF-8", openOptions |-> <<"WRITE", "CREATE", "APPEND">>]).exitValue = 0
        ELSE TRUE
=============================================================================
