---------------------------- MODULE Gen_Retention ----------------------------
(* Behaviour generator for Retention: a history variable carries the steps of the
   (possibly interrupted and repeated) pass; every behaviour that reaches a
   completed pass is written as one JSON line: the segment set, the pass kind and
   limit, the steps up to the interruption, the final durable/volatile state the
   spec predicts for the code as written, and the property verdicts of the spec.
   The harness builds the segment set on the real engine, runs the steps before
   the interruption through the real step functions, ends the process, restarts,
   runs the real pass and compares. *)
EXTENDS Retention, RetentionConsts, Json, IOUtils
VARIABLES hist, pq0

GenInit == Init /\ hist = <<>> /\ pq0 = pq
Log(r) == hist' = Append(hist, r) /\ pq0' = pq0
GenNext ==
  \/ StartPass /\ Log([a |-> "start", org |-> porg', vL |-> vL', vM |-> vM'])
  \/ \E s \in Ids : \/ RemoveDir(s) /\ Log([a |-> "files", s |-> s])
                    \/ MemDel(s) /\ Log([a |-> "mem", s |-> s])
                    \/ MMemDel(s) /\ Log([a |-> "m_mem", s |-> s])
                    \/ MRemoveDir(s) /\ Log([a |-> "m_files", s |-> s])
  \/ PqDel /\ Log([a |-> "pqmeta"])
  \/ SegmetaRewrite /\ Log([a |-> "segmeta"])
  \/ MMetaRewrite /\ Log([a |-> "m_meta"])
  \/ Crash /\ Log([a |-> "crash"])
  \/ Repeat /\ Log([a |-> "repeat"])
GenSpec == GenInit /\ [][GenNext]_<<vars, hist, pq0>>

SetOk(P(_)) == \A s \in Ids : P(s)
Emit ==
  IF Completed
  THEN Serialize(ToJson([segs |-> segs, kind |-> kind, limit |-> limit, openw |-> openw, pq0 |-> pq0,
                         steps |-> hist, crashes |-> crashes,
                         final |-> [ownerF |-> ownerF, started |-> started, files |-> files, mem |-> mem, sorted |-> sorted, smeta |-> smeta, mmeta |-> mmeta, pq |-> pq],
                         ref |-> ref,
                         ok |-> [consistent |-> Consistent, time |-> TimeExact, oldest |-> OldestFirst,
                                 idem |-> Idempotent]]) \o "\n",
                 "behaviours.ndjson",
                 [format |-> "TXT", charset |-> "UTF-8", openOptions |-> <<"WRITE", "CREATE", "APPEND">>]).exitValue = 0
  ELSE TRUE
=============================================================================
