SPECIFICATION Spec
CONSTANTS
  MaxEvents = 4
  MaxFlush = 2
  MaxRot = 2
  Dedup = TRUE
  Recheck = FALSE
INVARIANTS NoDup NoLoss NoInvent NeverInNeither TypeOK
CHECK_DEADLOCK FALSE
