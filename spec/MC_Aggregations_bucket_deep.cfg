SPECIFICATION Spec
CONSTANTS
  Defect = "none"
  N = 4
  Datasets <- DatasetsBucket4
  Spans <- SpansAll
  Origins <- OriginsAll
INVARIANTS InvBuckets InvKeysOnce InvRowsPartition TypeOK
CHECK_DEADLOCK FALSE
