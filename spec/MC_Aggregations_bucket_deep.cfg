SPECIFICATION Spec
CONSTANTS
  Defect = "none"
  N = 4
  Datasets <- DatasetsBucket4
  Spans <- SpansAll
  Origins <- OriginsAll
INVARIANTS InvFloorDiv InvBuckets InvKeysOnce InvRowsPartition TypeOK
CHECK_DEADLOCK FALSE
