SPECIFICATION Spec
CONSTANTS
  Lang = "promql"
  NTok = 18
  MaxLen = 4
INVARIANT LenBound
CONSTRAINT Emit
CHECK_DEADLOCK FALSE
