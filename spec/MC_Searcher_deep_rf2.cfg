SPECIFICATION Spec
CONSTANTS
  NSEG = 3
  NBLK = 2
  R = 2
  T = 3
  MAXB = 2
  RF = TRUE
INVARIANTS Sorted NoDupOut NoInvent Complete PrefixFinal HeadOK PagesPartition NoLivelock TypeOK
VIEW View
