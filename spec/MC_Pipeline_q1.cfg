SPECIFICATION Spec
CONSTANTS
  Chains <- Singles
  RowVals <- RowsMid
  MaxRows = 3
  MaxEmpty = 1
  EofModes <- BoolBoth
  SSCarry = TRUE
INVARIANTS ChunkingInvariant PrefixOK TypeOK
CHECK_DEADLOCK FALSE
