SPECIFICATION Spec
CONSTANTS
  Chains <- TwoPassChains
  RowVals <- RowsABC
  MaxRows = 4
  MaxEmpty = 0
  EofModes <- BoolBoth
  SSCarry = TRUE
INVARIANTS ChunkingInvariant PrefixOK SplitInvariant TypeOK
CHECK_DEADLOCK FALSE
