SPECIFICATION GenSpec
CONSTANTS
  Chains <- TwoPassChains
  RowVals <- RowsABC
  MaxRows = 4
  MaxEmpty = 1
  EofModes <- BoolBoth
  SSCarry = TRUE
CONSTRAINT Emit
CHECK_DEADLOCK FALSE
