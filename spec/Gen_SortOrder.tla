--------------------------- MODULE Gen_SortOrder ---------------------------
(* Behaviour generator for SortOrder: for every (sort specification, table) the set of admissible
   outputs (permutations with no adjacent pair out of order) as one JSON line.  The harness
   concretises the abstract values (SortOrderConsts), runs the REAL sort processor (in-package, all
   chunkings) and `* | sort ...` through the engine, and requires the returned order to be one of them
   (with a limit: a prefix of one of them). *)
EXTENDS SortOrderConsts, Json, IOUtils
Emit == IF pc = "rows" /\ Len(tbl) >= 1
        THEN Serialize(ToJson([spec |-> spec, tbl |-> tbl, expect |-> SortedPerms(tbl, spec)]) \o "\n", "behaviours.ndjson",
                 [format |-> "TXT", charset |-> "UTF-8", openOptions |-> <<"WRITE", "CREATE", "APPEND">>]).exitValue = 0
        ELSE TRUE
=============================================================================
