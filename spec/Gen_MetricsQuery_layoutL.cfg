SPECIFICATION Spec
CONSTANTS
  USeq <- UH
  Scenarios <- ScenAbstractL
  Grids = {"pow"}
  Orders = {"time", "series"}
  NT = 12
  MaxOps = 2
  Tails <- TailsH
  Queries <- QueriesLMC
  RegisterPerSegment = TRUE
CONSTRAINT EmitLayoutPick
CHECK_DEADLOCK FALSE
