-------------------------- MODULE AlertsWindowInd --------------------------
(* Window rule of C20 for UNBOUNDED history length (Apalache, inductive invariant).
   handleAlertCondition reads only the newest N-1 history rows, the law only the
   newest N outcomes, so a history of any length is represented exactly by
     rows[i], i in 1..W   the i-th newest history row state ("none" = no such row)
     outs[i], i in 1..W   the i-th newest evaluation outcome ("none" | "T" | "F")
     cnt                  number of evaluations so far (unbounded integer)
   (W = NMax - 1 slots are kept; N in 1..NMax is arbitrary.)  No config-edit rows
   here: this discharges the rule for pure evaluation histories, the case in which
   TLC found code and law to agree up to length 7.

   IndInv /\ Next => IndInv' and Init => IndInv are checked with
     apalache-mc check --init=IndInit --inv=IndInv --length=1 AlertsWindowInd.tla
     apalache-mc check --init=Init --inv=IndInv --length=0 AlertsWindowInd.tla
   and IndInv => StateLaw is part of IndInv itself (state = law state). *)
EXTENDS Integers

CONSTANT
  \* @type: Int;
  N
NMax == 4
W == NMax - 1
Slots == 1..W

VARIABLES
  \* @type: Int -> Str;
  rows,
  \* @type: Int -> Str;
  outs,
  \* @type: Int;
  cnt,
  \* @type: Str;
  state,
  \* @type: Str;
  law

ConstInit == N \in 1..NMax

PF(s) == s \in {"Pending", "Firing"}
\* code: shouldUpdateAlertStateToFiring, evaluated BEFORE the new row is written
CodeFire == N = 1 \/ (\A i \in Slots : i <= N - 1 => PF(rows[i]))
\* law: the newest N outcomes (the current one + N-1 earlier ones) all held
LawFire == \A i \in Slots : i <= N - 1 => outs[i] = "T"

Init == /\ rows = [i \in Slots |-> "none"] /\ outs = [i \in Slots |-> "none"]
        /\ cnt = 0 /\ state = "Inactive" /\ law = "Inactive"

\* @type: (Int -> Str, Str) => (Int -> Str);
Shift(f, x) == [i \in Slots |-> IF i = 1 THEN x ELSE f[i - 1]]

Evaluate(c) ==
  LET ns == IF c THEN (IF CodeFire THEN "Firing" ELSE "Pending") ELSE "Normal"
      nl == IF c THEN (IF LawFire THEN "Firing" ELSE "Pending") ELSE "Normal"
  IN /\ rows' = Shift(rows, ns) /\ outs' = Shift(outs, IF c THEN "T" ELSE "F")
     /\ cnt' = cnt + 1 /\ state' = ns /\ law' = nl

Next == \E c \in BOOLEAN : Evaluate(c)

TypeOK == /\ rows \in [Slots -> {"none", "Normal", "Pending", "Firing"}]
          /\ outs \in [Slots -> {"none", "T", "F"}]
          /\ cnt \in Nat /\ state \in {"Inactive", "Normal", "Pending", "Firing"}
          /\ law \in {"Inactive", "Normal", "Pending", "Firing"}

\* every kept row is Pending/Firing exactly when its evaluation held; slots fill up together
Linked == \A i \in Slots : /\ (rows[i] = "none") = (outs[i] = "none")
                            /\ (rows[i] = "none") = (cnt < i)
                            /\ PF(rows[i]) = (outs[i] = "T")
IndInv == TypeOK /\ Linked /\ state = law
IndInit == IndInv
=============================================================================
