SPECIFICATION Spec
CONSTANTS
  Shards <- Three
  MaxDp = 2
  SharedEncoder = FALSE
INVARIANTS TypeOK OwnPrefix OwnComplete NoForeign
CHECK_DEADLOCK FALSE
