SPECIFICATION Spec
CONSTANTS
  q1 = q1
  q2 = q2
  q3 = q3
  Q <- Q2
  MAXRUN = 1
  CAP = 10
  ASYNC = FALSE
  MAXUPD = 0
  CANCELS = 1
  TIMERS = TRUE
  SeesAdmitting = TRUE
SYMMETRY Sym2
INVARIANTS TypeOK Admission NoDoubleBooking OneTerminal CleanAfterReturn QuiescentClean NoStuckSender NoStuckWithLock CancelTakesEffect
