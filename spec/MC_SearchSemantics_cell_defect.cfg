SPECIFICATION Spec
CONSTANTS
  Defect = "int-vs-decimal"
  Mode = "cell"
INVARIANTS InvDetermined InvSpelling InvTrichotomy InvNeq InvCase InvWhere InvAbsent InvNonEmpty
CHECK_DEADLOCK FALSE
