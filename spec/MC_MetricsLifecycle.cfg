SPECIFICATION Spec
CONSTANTS
  Series <- SeriesC
  Groups <- GroupsC
  MaxT = 3
  MaxOps = 7
  MaxPuts = 4
  MaxRestarts = 1
  LoseOpenOnRestart = FALSE
  UseMemWhenOpen = TRUE
  NamesFromAll = TRUE
INVARIANTS NothingMoves AnswerIsStored AnswerComplete
VIEW View
CHECK_DEADLOCK FALSE
