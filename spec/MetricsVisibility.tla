-------------------------- MODULE MetricsVisibility --------------------------
(* C11 for the METRICS store: which datapoints a metrics query sees while datapoints are put, the in-memory block is
   flushed / rotated, the metrics segment is rotated and the query side refreshes its metadata.
   One shard (MetricsSegment) is modelled; shards do not interact.  Code: pkg/segment/writer/metrics/metricssegment.go
   (EncodeDatapoint, timeBasedMetricsFlush, timeBasedRotate, CheckAndRotate, rotateBlock, rotateSegment,
   GetUnrotatedMetricsSegmentRequests), unrotatedquery.go (SearchUnrotatedMetricsBlock), pkg/segment/search/metricssearch.go
   (RawSearchMetricsSegment), pkg/segment/metadata/tsmeta.go (GetMetricsSegmentRequests), pkg/segment/query/queryrefresh.go
   (refreshMetricsMetadataLoop), pkg/segment/query/metricsquery.go (getAllRequestsWithinTimeRange: rotated list first,
   then the unrotated one).

   A put (EncodeDatapoint of a datapoint of an existing series) has three steps in the code:
     PutStart     the series object is looked up in the current block under the segment READ lock, the lock is released
     PutAppend    the datapoint is appended to that series object (TimeSeries.lock only)
     PutAccount   WAL buffer, block/segment time range, blkEncodedSize / mSegEncodedSize are updated; the put returns
   PutAtomic = TRUE models lookup+append in one critical section, AccountAtomic = TRUE the accounting inside it as well
   (what docs/patches/C11-metrics-put-under-segment-lock.patch does).  The pinned code is PutAtomic = AccountAtomic = FALSE:
   a rotateBlock between PutStart and PutAppend flushes the block and drops the series object, the datapoint is appended to
   an object nobody reads (acknowledged, lost for ever: `lost`); a rotateBlock between PutAppend and PutAccount leaves the
   NEW block with a size > 0 and no series, so the next timer iteration flushes an EMPTY block, which the block reader
   cannot read (binary search with numTSIDs-1 = 2^32-1: "corrupt data", ReaderHandlesEmpty = FALSE) - every later query of
   that time range fails.

   Writer steps, each atomic because the code runs them under the segment WRITE lock:
     BlockFlush   timeBasedMetricsFlush / the block branch of CheckAndRotate: flushBlock (summary + .tso/.tsg files of
                  block number blk), in-memory series dropped, Blknum+1                      (needs blkEncodedSize > 0)
     SegRotate    timeBasedRotate -> CheckAndRotate(false) over both thresholds: BlockFlush, then rotateSegment: meta entry
                  appended to metricmeta.json, suffix+1, block number back to 0.  The query side does NOT know the segment
                  yet: its metadata is filled by
     MetaRefresh  refreshMetricsMetadataLoop, every 5 s: all rotated segments of metricmeta.json become listed.
                  Between SegRotate and MetaRefresh the segment is in NEITHER list ("limbo"): its datapoints are invisible.
                  This is the engine's documented behaviour (C08/C09 wait for it); RefreshExempt = TRUE takes the
                  datapoints of a segment that was in limbo at some moment of the query out of NoLoss.  With
                  RefreshExempt = FALSE NoLoss is violated (MC_MetricsVisibility_norefreshwindow.cfg, must violate).
     Restart      shutdown rotation (ForceFlushMetricsBlock, once per process life) + a new process that loads every meta entry.
   Query steps (getAllRequestsWithinTimeRange, then per request RawSearchMetricsSegment):
     QSnapR       the rotated segments the query side has loaded
     QSnapU       under the segment read lock: directory (suffix) of the open segment, the flushed block numbers read from its
                  .mbsu file, and the number of the in-memory block if it holds data
     QReadR       blocks of the rotated segments, from disk
     QSearchMem   SearchUnrotatedMetricsBlock, under the read lock: if the CURRENT in-memory block number is not the one of the
                  snapshot, the snapshot's block was flushed meanwhile and is added to the blocks to read from disk; then the
                  current in-memory block is searched.  The test compares block NUMBERS only (BlkCheckBySuffix = FALSE): after a
                  SegRotate the new segment counts from 0 again, so the block of the old segment can be mistaken for the current
                  one (ABA) and is then not read - only possible for data of a segment rotated during the query, i.e. data that
                  is exempt anyway.
     QReadU       the flushed blocks of the snapshot's directory, from disk
   Lower bound of NoLoss: a datapoint whose put RETURNED before the query began (the in-memory block is searched), minus the
   exempt ones. *)
EXTENDS Naturals, Sequences, FiniteSets, TLC

CONSTANTS MaxDp,              \* datapoints that may be put
          MaxFlush,           \* explicit block flushes
          MaxSegRot,          \* segment rotations (incl. restarts)
          MaxPend,            \* puts in flight at the same time
          PutAtomic, AccountAtomic, ReaderHandlesEmpty, RefreshExempt, BlkCheckBySuffix

VARIABLES nextId, pend, acked, lost,
          mem, gen, encPos,        \* in-memory block: datapoints, object generation, blkEncodedSize > 0
          cur,                     \* open segment: [suffix, blk, blocks (block number -> set of ids)]
          rot,                     \* rotated segments: set of [suffix, blocks, loaded]
          emptyBlocks,             \* <<suffix, blk>> of flushed blocks without any series
          nflush, nrot,
          qpc, snapR, snapU, toRead, result, reqAtStart, exempt, qerr
vars == <<nextId, pend, acked, lost, mem, gen, encPos, cur, rot, emptyBlocks, nflush, nrot, qpc, snapR, snapU, toRead, result, reqAtStart, exempt, qerr>>
wvars == <<nextId, pend, acked, lost, mem, gen, encPos, cur, rot, emptyBlocks, nflush, nrot>>
qvars == <<qpc, snapR, snapU, toRead, result, reqAtStart, exempt, qerr>>

NoSnap == [suffix |-> 0, blks |-> {}, memblk |-> {}]
BlocksOf(b) == UNION {b[k] : k \in DOMAIN b}
Limbo == UNION {BlocksOf(r.blocks) : r \in {x \in rot : ~x.loaded}}
QueryRunning == qpc # "none" /\ qpc # "done"
\* datapoints that go into limbo while a query runs are exempt for it
NoteLimbo(ids) == exempt' = IF QueryRunning THEN exempt \cup ids ELSE exempt

Init == /\ nextId = 1 /\ pend = {} /\ acked = {} /\ lost = {} /\ mem = {} /\ gen = 0 /\ encPos = FALSE
        /\ cur = [suffix |-> 1, blk |-> 0, blocks |-> <<>>] /\ rot = {} /\ emptyBlocks = {} /\ nflush = 0 /\ nrot = 0
        /\ qpc = "none" /\ snapR = {} /\ snapU = NoSnap /\ toRead = {} /\ result = <<>> /\ reqAtStart = {} /\ exempt = {} /\ qerr = FALSE

(* ------------------------------------------------------------------ puts *)
PutStart ==
  /\ nextId <= MaxDp /\ Cardinality(pend) < MaxPend
  /\ nextId' = nextId + 1
  /\ IF PutAtomic
     THEN /\ mem' = mem \cup {nextId}
          /\ IF AccountAtomic THEN encPos' = TRUE /\ acked' = acked \cup {nextId} /\ pend' = pend
             ELSE encPos' = encPos /\ acked' = acked /\ pend' = pend \cup {[id |-> nextId, gen |-> gen, stage |-> "appended"]}
     ELSE /\ pend' = pend \cup {[id |-> nextId, gen |-> gen, stage |-> "looked"]}
          /\ UNCHANGED <<mem, encPos, acked>>
  /\ UNCHANGED <<lost, gen, cur, rot, emptyBlocks, nflush, nrot, qvars>>
PutAppend(p) ==
  /\ p \in pend /\ p.stage = "looked"
  /\ IF p.gen = gen THEN mem' = mem \cup {p.id} /\ lost' = lost
     ELSE mem' = mem /\ lost' = lost \cup {p.id}             \* appended to a series object that was flushed and dropped
  /\ pend' = (pend \ {p}) \cup {[p EXCEPT !.stage = "appended"]}
  /\ UNCHANGED <<nextId, acked, gen, encPos, cur, rot, emptyBlocks, nflush, nrot, qvars>>
PutAccount(p) ==
  /\ p \in pend /\ p.stage = "appended"
  /\ encPos' = TRUE                                           \* the size is added to whatever block is current NOW
  /\ acked' = acked \cup {p.id} /\ pend' = pend \ {p}
  /\ UNCHANGED <<nextId, lost, mem, gen, cur, rot, emptyBlocks, nflush, nrot, qvars>>

(* ------------------------------------------------------------------ writer *)
Flushed == [cur EXCEPT !.blocks = [k \in 0 .. cur.blk |-> IF k = cur.blk THEN mem ELSE cur.blocks[k]], !.blk = cur.blk + 1]
EmptyNow == IF mem = {} THEN {<<cur.suffix, cur.blk>>} ELSE {}
BlockFlush ==
  /\ encPos /\ nflush < MaxFlush
  /\ cur' = Flushed /\ emptyBlocks' = emptyBlocks \cup EmptyNow
  /\ mem' = {} /\ gen' = gen + 1 /\ encPos' = FALSE /\ nflush' = nflush + 1
  /\ UNCHANGED <<nextId, pend, acked, lost, rot, nrot, qvars>>
SegRotate ==
  /\ encPos /\ nrot < MaxSegRot
  /\ rot' = rot \cup {[suffix |-> cur.suffix, blocks |-> Flushed.blocks, loaded |-> FALSE]}
  /\ emptyBlocks' = emptyBlocks \cup EmptyNow
  /\ cur' = [suffix |-> cur.suffix + 1, blk |-> 0, blocks |-> <<>>]
  /\ mem' = {} /\ gen' = gen + 1 /\ encPos' = FALSE /\ nrot' = nrot + 1
  /\ NoteLimbo(BlocksOf(Flushed.blocks))
  /\ UNCHANGED <<nextId, pend, acked, lost, nflush, qpc, snapR, snapU, toRead, result, reqAtStart, qerr>>
MetaRefresh ==
  /\ \E r \in rot : ~r.loaded
  /\ rot' = {[r EXCEPT !.loaded = TRUE] : r \in rot}
  /\ UNCHANGED <<nextId, pend, acked, lost, mem, gen, encPos, cur, emptyBlocks, nflush, nrot, qvars>>
Restart ==
  /\ pend = {} /\ ~QueryRunning /\ nrot < MaxSegRot /\ (encPos \/ cur.blk > 0)
  /\ LET fl == IF encPos THEN Flushed ELSE cur IN
     /\ rot' = {[r EXCEPT !.loaded = TRUE] : r \in rot} \cup {[suffix |-> cur.suffix, blocks |-> fl.blocks, loaded |-> TRUE]}
     /\ emptyBlocks' = emptyBlocks \cup (IF encPos THEN EmptyNow ELSE {})
  /\ cur' = [suffix |-> cur.suffix + 1, blk |-> 0, blocks |-> <<>>]
  /\ mem' = {} /\ gen' = gen + 1 /\ encPos' = FALSE /\ nrot' = nrot + 1
  /\ UNCHANGED <<nextId, pend, acked, lost, nflush, qvars>>

(* ------------------------------------------------------------------ query *)
QSnapR ==
  /\ qpc = "none"
  /\ snapR' = {r.suffix : r \in {x \in rot : x.loaded}}
  /\ reqAtStart' = acked                                      \* every put that has returned
  /\ exempt' = Limbo
  /\ qpc' = "r" /\ result' = <<>> /\ qerr' = FALSE /\ toRead' = {} /\ snapU' = NoSnap
  /\ UNCHANGED wvars
QSnapU ==
  /\ qpc = "r"
  /\ snapU' = [suffix |-> cur.suffix, blks |-> DOMAIN cur.blocks, memblk |-> IF mem # {} THEN {cur.blk} ELSE {}]
  /\ qpc' = "u"
  /\ UNCHANGED <<wvars, snapR, toRead, result, reqAtStart, exempt, qerr>>
SetToSeq(S) == CHOOSE f \in [1 .. Cardinality(S) -> S] : \A i, j \in 1 .. Cardinality(S) : i # j => f[i] # f[j]
RECURSIVE Concat(_)
Concat(ss) == IF ss = <<>> THEN <<>> ELSE Head(ss) \o Concat(Tail(ss))
\* reading block b of the segment with that suffix from disk: its datapoints, or an error
SegBlocks(sfx) == IF cur.suffix = sfx THEN cur.blocks ELSE (CHOOSE r \in rot : r.suffix = sfx).blocks
ReadErr(sfx, bs) == \E b \in bs : \/ b \notin DOMAIN SegBlocks(sfx)                          \* no such file
                                  \/ (<<sfx, b>> \in emptyBlocks /\ ~ReaderHandlesEmpty)     \* block without series
ReadIds(sfx, bs) == UNION {SegBlocks(sfx)[b] : b \in bs \cap DOMAIN SegBlocks(sfx)}
QReadR ==
  /\ qpc = "u"
  /\ result' = result \o Concat([k \in 1 .. Cardinality(snapR) |->
                   SetToSeq(ReadIds(SetToSeq(snapR)[k], DOMAIN SegBlocks(SetToSeq(snapR)[k])))])
  /\ qerr' = (qerr \/ \E s \in snapR : ReadErr(s, DOMAIN SegBlocks(s)))
  /\ qpc' = "rr"
  /\ UNCHANGED <<wvars, snapR, snapU, toRead, reqAtStart, exempt>>
QSearchMem ==
  /\ qpc = "rr"
  /\ LET same == cur.blk \in snapU.memblk /\ (BlkCheckBySuffix => cur.suffix = snapU.suffix)
     IN toRead' = IF same THEN snapU.blks ELSE snapU.blks \cup snapU.memblk
  /\ result' = result \o SetToSeq(mem)
  /\ qpc' = "m"
  /\ UNCHANGED <<wvars, snapR, snapU, reqAtStart, exempt, qerr>>
QReadU ==
  /\ qpc = "m"
  /\ result' = result \o SetToSeq(ReadIds(snapU.suffix, toRead))
  /\ qerr' = (qerr \/ ReadErr(snapU.suffix, toRead))
  /\ qpc' = "done"
  /\ UNCHANGED <<wvars, snapR, snapU, toRead, reqAtStart, exempt>>
QEnd == /\ qpc = "done" /\ qpc' = "none" /\ UNCHANGED <<wvars, snapR, snapU, toRead, result, reqAtStart, exempt, qerr>>

Next == \/ PutStart \/ (\E p \in pend : PutAppend(p) \/ PutAccount(p))
        \/ BlockFlush \/ SegRotate \/ MetaRefresh \/ Restart
        \/ QSnapR \/ QSnapU \/ QReadR \/ QSearchMem \/ QReadU \/ QEnd
Spec == Init /\ [][Next]_vars
-----------------------------------------------------------------------------
Range(s) == {s[i] : i \in 1 .. Len(s)}
\* a (series, timestamp) at most once
NoDup == \A i, j \in 1 .. Len(result) : i # j => result[i] # result[j]
\* only datapoints that were put (ids stand for bit-exact (ts, value) pairs)
NoInvent == Range(result) \subseteq 1 .. (nextId - 1)
\* every datapoint whose put returned before the query began - minus the refresh window - is in an answer without error
NoLoss == (qpc = "done" /\ ~qerr) => (reqAtStart \ (IF RefreshExempt THEN exempt ELSE {})) \subseteq Range(result)
\* the writer never hands out a directory / block number the query cannot find, and every flushed block is readable
NoQueryError == ~qerr
\* once activity stops the stored contents equal what a sequential execution of the same puts gives
Stored == mem \cup BlocksOf(cur.blocks) \cup UNION {BlocksOf(r.blocks) : r \in rot}
QuiescentEq == (pend = {}) => /\ Stored = acked
                              /\ lost = {}
                              /\ (ReaderHandlesEmpty \/ emptyBlocks = {})
\* no datapoint is stored twice (in two blocks / segments)
StoredOnce == /\ \A r \in rot : mem \cap BlocksOf(r.blocks) = {} /\ BlocksOf(cur.blocks) \cap BlocksOf(r.blocks) = {}
              /\ mem \cap BlocksOf(cur.blocks) = {}
              /\ \A r1, r2 \in rot : r1 # r2 => BlocksOf(r1.blocks) \cap BlocksOf(r2.blocks) = {}
TypeOK == /\ qpc \in {"none", "r", "u", "rr", "m", "done"} /\ nextId \in 1 .. (MaxDp + 1)
          /\ \A r1, r2 \in rot : r1.suffix = r2.suffix => r1 = r2
          /\ \A r \in rot : r.suffix < cur.suffix
=============================================================================
