--------------------------- MODULE Gen_Visibility ---------------------------
(* Schedule generator for Visibility: the action sequence (names = the steps of harness op vis_sched)
   of every behaviour in which the query finished and the writer is idle. *)
EXTENDS Visibility, Json, IOUtils
VARIABLE hist
H(l) == hist' = Append(hist, l)
GenInit == Init /\ hist = <<>>
GenNext == \/ \E n \in 1..2 : (Ingest(n) /\ H(IF n = 1 THEN "ingest:1" ELSE "ingest:2"))
           \/ (FlushVis /\ H("flush.vis")) \/ (FlushEnd /\ H("flush.end"))
           \/ (RotTree /\ H("rot.tree")) \/ (RotSegmeta /\ H("rot.segmeta")) \/ (RotMeta /\ H("rot.meta")) \/ (RotRemove /\ H("rot.remove")) \/ (RotEnd /\ H("rot.end"))
           \/ (QSnapU /\ H("q.snapU")) \/ (QSnapR /\ H("q.snapR")) \/ (QTree /\ H("q.tree")) \/ (QCheck /\ H("q.check")) \/ (QPlan /\ H("q.plan"))
           \/ (QOpenCheck /\ H("q.open")) \/ (QOpenGetFetchCheck /\ H("q.fetch")) \/ (QFetchGet /\ H("q.search"))
GenSpec == GenInit /\ [][GenNext]_<<vars, hist>>
\* only behaviours in which the query overlaps writer activity are worth forcing; the writer must end idle
Interesting == /\ qpc = "done" /\ wpc = "idle"
               /\ \E i \in 1..Len(hist) : hist[i] = "q.snapU" /\ i > 1
Emit == IF Interesting
        THEN Serialize(ToJson([steps |-> hist, vis |-> visAtStart, res |-> result]) \o "\n", "behaviours.ndjson",
                 [format |-> "TXT", charset |-> "UTF-8", openOptions |-> <<"WRITE", "CREATE", "APPEND">>]).exitValue = 0
        ELSE TRUE
\* stop extending a behaviour once it has been exported
Stop == ~(qpc = "done" /\ wpc = "idle")
=============================================================================
