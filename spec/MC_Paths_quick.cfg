SPECIFICATION Spec
CONSTANTS
  MaxLen = 3
  GuardMode = "all"
  NormAfterGuard <- NoApis
  Classes <- AllClasses
INVARIANTS Confined TypeOK
CHECK_DEADLOCK FALSE
