SPECIFICATION Spec
CONSTANTS
  MaxLen = 3
  Guard = TRUE
INVARIANTS Confined TypeOK
CHECK_DEADLOCK FALSE
