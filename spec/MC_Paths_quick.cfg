SPECIFICATION Spec
CONSTANTS
  MaxLen = 3
  GuardMode = "all"
  CacheBeforeGuard <- NoApis
  NormAfterGuard <- NoApis
  Classes <- AllClasses
INVARIANTS Confined TypeOK
CHECK_DEADLOCK FALSE
