SPECIFICATION SpecSim
CONSTANTS
  Lang = "spl"
  NTok = 40
  MaxLen = 5
INVARIANT LenBound
CHECK_DEADLOCK FALSE
