SPECIFICATION GenSpec
CONSTANTS
  MaxEvents = 3
  MaxFlush = 1
  MaxRot = 1
  Dedup = TRUE
  Recheck = TRUE
  UseTree = TRUE
  TreeAtomic = TRUE
  ReaderFallback = TRUE
CONSTRAINT Emit
CONSTRAINT Stop
CHECK_DEADLOCK FALSE
