-------------------------- MODULE PipelineConsts --------------------------
(* Command instances, chain sets and row domains for Pipeline (records cannot be
   written in a .cfg).  Every command record carries, besides its parameters,
     uses     fields it reads,
     kills    fields that no longer exist (or change type) after it,
     gives    fields it creates,
   so that only chains in which every command finds its fields are enumerated
   (a command applied to a missing field is outside the documented semantics). *)
EXTENDS Pipeline

Base == {"a", "b", "m", "f"}
Avail0 == Base \cup {"single"}   \* "single": m has not been split into a multi-value yet
C(r, u, k, g) == r @@ [uses |-> u, kills |-> k, gives |-> g]

HeadC(n_) == C([op |-> "head", n |-> n_], {}, {}, {})
HeadX(f_, cmp_, k_, n_, nul_, keeplast_) == C([op |-> "headx", f |-> f_, cmp |-> cmp_, k |-> k_, n |-> n_, nul |-> nul_, keeplast |-> keeplast_], {f_}, {}, {})
TailC(n_) == C([op |-> "tail", n |-> n_], {}, {}, {})
Dedup(fs_, lim_, consec_, keepempty_) == C([op |-> "dedup", fs |-> fs_, lim |-> lim_, consec |-> consec_, keepempty |-> keepempty_, keepevents |-> FALSE], ToSet(fs_), {}, {})
DedupKE(fs_, lim_, consec_, keepempty_) == C([op |-> "dedup", fs |-> fs_, lim |-> lim_, consec |-> consec_, keepempty |-> keepempty_, keepevents |-> TRUE], ToSet(fs_), {}, {})
Sort(f_, asc_, lim_) == C([op |-> "sort", f |-> f_, asc |-> asc_, lim |-> lim_], {f_}, {}, {})
Where(f_, k_) == C([op |-> "where", f |-> f_, k |-> k_], {f_}, {}, {})
FieldsKeep(fs_) == C([op |-> "fields", keep |-> TRUE, fs |-> fs_], fs_, (Base \cup {"d", "n", "cnt", "sm"}) \ fs_, {})
FieldsDrop(fs_) == C([op |-> "fields", keep |-> FALSE, fs |-> fs_], fs_, fs_, {})
Rename(f_, g_) == C([op |-> "rename", f |-> f_, g |-> g_], {f_}, {f_}, {g_})
Fillnull(v_, fs_) == C([op |-> "fillnull", v |-> v_, fs |-> fs_], fs_, {}, {})
EvalAdd(g_, x_, y_) == C([op |-> "eval", g |-> g_, e |-> [t |-> "add", x |-> x_, y |-> y_]], {x_, y_}, {}, {g_})
EvalAddK(g_, x_, k_) == C([op |-> "eval", g |-> g_, e |-> [t |-> "addk", x |-> x_, k |-> k_]], {x_}, {}, {g_})
EvalIf(g_, f_, k_, x_, y_) == C([op |-> "eval", g |-> g_, e |-> [t |-> "if", f |-> f_, k |-> k_, x |-> x_, y |-> y_]], {f_, x_, y_}, {}, {g_})
Bin(f_, span_) == C([op |-> "bin", f |-> f_, span |-> span_], {f_}, {f_}, {})
Bin2(f_) == C([op |-> "bin2", f |-> f_], {f_}, {f_}, {})
SS(fn_, f_, by_, win_, roc_, g_) == C([op |-> "streamstats", fn |-> fn_, f |-> f_, by |-> by_, win |-> win_, roc |-> roc_, g |-> g_],
                                      ({f_, by_} \ {""}), {}, {g_})
Top(f_, lim_) == C([op |-> "top", f |-> f_, lim |-> lim_], {f_}, (Base \cup {"d", "n", "sm"}) \ {f_}, {"cnt"})
Rare(f_, lim_) == C([op |-> "rare", f |-> f_, lim |-> lim_], {f_}, (Base \cup {"d", "n", "sm"}) \ {f_}, {"cnt"})
Stats(fn_, f_, by_) == C([op |-> "stats", fn |-> fn_, f |-> f_, by |-> by_], ({f_, by_} \ {""}), (Base \cup {"d", "n"}) \ {by_},
                         IF fn_ = "count" THEN {"cnt"} ELSE {"sm"})
Makemv(f_) == C([op |-> "makemv", f |-> f_], {f_, "single"}, {"single"}, {"mv"})   \* only on a field that is still single-valued
Mvexpand(f_) == C([op |-> "mvexpand", f |-> f_], {f_, "mv"}, {"mv"}, {})

RECURSIVE ValidFrom(_, _, _)
ValidFrom(ch, i, avail) == IF i > Len(ch) THEN TRUE
                           ELSE /\ ch[i].uses \subseteq avail
                                /\ ValidFrom(ch, i + 1, (avail \ ch[i].kills) \cup ch[i].gives)
(* an aggregation applied to the result of another aggregation (stats ... | top ...) is left out: siglens sums the
   inner counts there (evaluationstructs.go SortBucketResult), which no documented semantics describes *)
NoNestedAgg(ch) == Cardinality({i \in DOMAIN ch : ch[i].op \in {"top", "rare", "stats"}}) <= 1
Valid(ch) == ValidFrom(ch, 1, Avail0) /\ NoNestedAgg(ch)

(* ---- command instances ---- *)
(* head with an expression: limit-governed (a<3 always holds for a in 1..2), expression-governed (a<2), null handling (b>0) *)
HeadXs == {HeadX("a", "lt", 3, 2, FALSE, FALSE), HeadX("a", "lt", 4, 2, FALSE, TRUE), HeadX("a", "lt", 2, 3, FALSE, FALSE), HeadX("a", "lt", 2, 2, FALSE, TRUE),
           HeadX("b", "gt", 0, 3, FALSE, FALSE), HeadX("b", "gt", 0, 2, TRUE, FALSE), HeadX("b", "gt", 0, 3, FALSE, TRUE), HeadX("b", "gt", 1, 3, TRUE, TRUE)}
Streaming == {HeadC(1), HeadC(2), HeadX("a", "lt", 4, 2, FALSE, FALSE), HeadX("b", "gt", 0, 2, TRUE, TRUE), Dedup(<<"a">>, 1, FALSE, FALSE), Dedup(<<"b">>, 1, FALSE, TRUE), Dedup(<<"a">>, 2, FALSE, FALSE),
              Dedup(<<"a">>, 1, TRUE, FALSE), Dedup(<<"a", "b">>, 1, FALSE, FALSE),
              Where("a", 1), Where("b", 1), FieldsKeep({"a"}), FieldsDrop({"b"}), Rename("a", "z"), Fillnull(0, {"b"}),
              EvalAdd("d", "a", "b"), EvalAddK("d", "a", 1), EvalIf("d", "b", 1, "a", "b"), Bin("a", 2), Makemv("m"),
              SS("count", "", "", 0, FALSE, "n"), SS("sum", "a", "", 0, FALSE, "n"), SS("count", "", "a", 0, FALSE, "n"),
              SS("sum", "a", "a", 0, FALSE, "n")}
Blocking == {TailC(1), TailC(2), Sort("a", TRUE, 0), Sort("b", FALSE, 0), Sort("a", FALSE, 2), Top("a", 0), Rare("a", 0),
             Stats("count", "", "a"), Stats("sum", "b", "a"), Stats("count", "", ""), Stats("sum", "a", ""),
             Fillnull(0, {}), Bin2("a")}
(* the two streamstats forms whose cross-batch state the code resets (see SSCarry) *)
SSWindow == {SS("sum", "a", "", 2, FALSE, "n"), SS("count", "", "", 2, FALSE, "n"), SS("count", "", "a", 2, FALSE, "n")}
SSRoc == {SS("count", "", "a", 0, TRUE, "n")}
Later == {Where("n", 1), Where("d", 2), Sort("d", TRUE, 0), Sort("n", FALSE, 0), Where("cnt", 1), Sort("cnt", FALSE, 0), HeadC(1), Mvexpand("m")}

Cmds == Streaming \cup Blocking
CmdsAll == Cmds \cup SSWindow \cup SSRoc
(* commands on the mixed integer / fractional field f, alone and behind the commands that decide how many batches an
   aggregation sees (`stats sum(f)` without by-clause folds one partial aggregate per batch into the running one) *)
FracCmds == {Stats("sum", "f", ""), Stats("sum", "f", "a"), SS("sum", "f", "", 0, FALSE, "n"), SS("sum", "f", "a", 0, FALSE, "n"),
             SS("sum", "f", "", 2, FALSE, "n"), Sort("f", TRUE, 0), Sort("f", FALSE, 2), Where("f", 1), EvalAdd("d", "f", "f"), Top("f", 0), Dedup(<<"f">>, 1, FALSE, FALSE)}
FracChains == {ch \in {<<c, t>> : c \in {HeadC(2), Where("a", 0), Where("f", 1), Dedup(<<"a">>, 1, FALSE, FALSE), EvalAdd("d", "f", "f"),
                                          Fillnull(0, {"b"}), Sort("f", TRUE, 0), SS("sum", "f", "", 0, FALSE, "n")},
                                  t \in {Stats("sum", "f", ""), Stats("sum", "f", "a"), SS("sum", "f", "", 0, FALSE, "n"), Sort("f", FALSE, 0)}} : Valid(ch)}
              \cup {<<Stats("sum", "f", ""), Fillnull(0, {})>>, <<EvalAdd("d", "f", "f"), Stats("sum", "d", "")>>}
(* further dedup forms: keepevents, consecutive with limit / keepevents / keepempty *)
DedupMore == {DedupKE(<<"a">>, 1, FALSE, FALSE), DedupKE(<<"b">>, 1, FALSE, FALSE), Dedup(<<"a">>, 2, TRUE, FALSE),
              DedupKE(<<"a">>, 1, TRUE, FALSE), Dedup(<<"b">>, 1, TRUE, TRUE)}
Singles == {<<c>> : c \in Cmds \cup HeadXs \cup DedupMore \cup FracCmds}
(* Rewind obligation: every streaming command that keeps state across batches (head, head <expr>, dedup in all forms,
   streamstats) in front of a two-pass command.  The rows the user sees are those of the SECOND pass, so Rewind() must
   bring the command back to its initial state - whatever the first pass left behind (a run that ended with the key the
   stream starts with, a reached limit, running sums ...). *)
StatefulStreaming == {c \in Streaming \cup HeadXs \cup DedupMore \cup SSWindow \cup SSRoc : c.op \in {"head", "headx", "dedup", "streamstats"}}
RewindChains == {ch \in {<<c, t>> : c \in StatefulStreaming, t \in {Fillnull(0, {}), Bin2("a")}} : Valid(ch)}
RewindAndFracChains == RewindChains \cup FracChains
(* the two-pass commands once more, alone and behind a streaming command, for the configuration with three distinct
   values of `a` and four rows: a later batch can then extend what the first pass has learnt at both ends *)
TwoPassChains == {<<Bin2("a")>>, <<Fillnull(0, {})>>, <<Where("b", 0), Bin2("a")>>, <<HeadC(3), Bin2("a")>>, <<Bin2("a"), TailC(2)>>,
                  <<HeadX("a", "lt", 4, 3, FALSE, FALSE)>>, <<HeadX("b", "gt", 0, 3, TRUE, TRUE)>>}
SinglesSS == {<<c>> : c \in SSWindow \cup SSRoc}
Pairs == {ch \in {<<c1, c2>> : c1 \in CmdsAll, c2 \in CmdsAll \cup Later} : Valid(ch)}
PairsNoSS == {ch \in {<<c1, c2>> : c1 \in Cmds, c2 \in Cmds \cup Later} : Valid(ch)}
(* a hand-picked core for chains of three: one of each protocol class (streaming with state, bottleneck, two-pass, transforming) *)
Core == {HeadC(2), HeadX("a", "lt", 4, 2, FALSE, FALSE), Dedup(<<"a">>, 1, FALSE, FALSE), Where("b", 1), EvalAdd("d", "a", "b"), SS("count", "", "a", 0, FALSE, "n"),
         TailC(2), Sort("a", TRUE, 0), Fillnull(0, {}), Bin2("a"), Stats("count", "", "a"), Top("a", 0)}
Triples == {ch \in {<<c1, c2, c3>> : c1 \in Core, c2 \in Core, c3 \in Core \cup {Where("n", 1), Sort("cnt", FALSE, 0)}} : Valid(ch)}

(* ---- rows: a in 1..3, b in {1, 2, NULL}; m is "1" / "1,2" / "3" ---- *)
(* f: a numeric field with mixed integer and fractional values, in units of 0.5 (2 = 1, 4 = 2, 1 = 0.5): rows without b
   carry the fraction 0.5, the others the integer a.  The harness ingests an even value as an INTEGER and an odd one as a
   FLOAT, so a batch / block may be all-integer and a later one fractional (and the other way round). *)
Row(x, y) == [a |-> x, b |-> y, m |-> IF x = 2 THEN 12 ELSE x, f |-> IF y = NULL THEN 1 ELSE 2 * x]
RowsFull == {Row(x, y) : x \in 1..3, y \in {1, 2, NULL}}
RowsMid == {Row(1, 1), Row(1, 2), Row(2, 2), Row(2, NULL), Row(3, 1)}
RowsSmall == {Row(1, 1), Row(2, 2), Row(1, NULL)}
RowsTiny == {Row(1, 1), Row(2, NULL)}
RowsABC == {Row(1, 1), Row(2, NULL), Row(3, 2)}     \* three distinct values of a
BoolBoth == {TRUE, FALSE}
BoolF == {FALSE}
=============================================================================
