SPECIFICATION GenSpec
CONSTANTS
  Series <- SeriesC
  Groups <- GroupsC
  MaxT = 6
  MaxOps = 16
  MaxPuts = 9
  MaxRestarts = 2
  LoseOpenOnRestart = FALSE
  UseMemWhenOpen = TRUE
  NamesFromAll = TRUE
INVARIANTS NothingMoves
CONSTRAINT Emit
CHECK_DEADLOCK FALSE
