SPECIFICATION Spec
CONSTANTS
  MaxDp = 4
  MaxIdx = 2
  MaxBlk = 1
  MaxCrash = 2
  Faults = TRUE
  LexListing = TRUE
  CrcChecked = TRUE
  FlushBeforeDelete = FALSE
  KeepFlushedBlock = FALSE
  MetaAtomic = FALSE
  StartupIngest = FALSE
  MetaSkipsEmptyBlock = FALSE
  MaxMeta = 0
  NpDp = 0
INVARIANTS TypeOK PrefixPerFile NoInvent Rejected InOrder MetaNoInvent CompleteReplay
CHECK_DEADLOCK FALSE
