SPECIFICATION GenSpec
CONSTANTS
  Chains <- RewindAndFracChains
  RowVals <- RowsABC
  MaxRows = 3
  MaxEmpty = 1
  EofModes <- BoolBoth
  SSCarry = TRUE
CONSTRAINT Emit
CHECK_DEADLOCK FALSE
