SPECIFICATION GenSpec
CONSTANTS
  Chains <- RewindChains
  RowVals <- RowsABC
  MaxRows = 3
  MaxEmpty = 1
  EofModes <- BoolBoth
  SSCarry = TRUE
CONSTRAINT Emit
CHECK_DEADLOCK FALSE
