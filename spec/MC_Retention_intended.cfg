SPECIFICATION Spec
CONSTANTS
  MaxSegs = 3
  Kinds <- KindsBoth
  Times <- TimesRank3
  Weights <- W12
  DistinctHi = TRUE
  Straddle = FALSE
  PassKinds <- PassAll
  Limits <- Limits05
  OpenWs <- Open01
  WithPq = TRUE
  MaxCrash = 1
  MaxRepeat = 1
  DetOrder = FALSE
  Mults <- M1
  Orgs <- Org0
  RewriteScratch = FALSE
  SortedDel = "scan"
  MetKeyWraps = FALSE
  SkipTooBig = FALSE
  PqIdsLoaded = TRUE
  InodeCleansDangling = TRUE
INVARIANTS TypeOK Consistent TimeExact OldestFirst Idempotent NoNeedlessDeletion
CHECK_DEADLOCK FALSE
