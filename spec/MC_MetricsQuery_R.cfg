SPECIFICATION Spec
CONSTANTS
  USeq <- UR
  Scenarios <- ScenRSmall
  Grids = {"pow"}
  Orders = {"time"}
  NT = 2
  MaxOps = 1
  Tails <- TailsR
  Queries <- QueriesRMC
  RegisterPerSegment = TRUE
INVARIANTS TypeOK NoLossNoDup TagsCover LayoutInvarianceSel LayoutInvariance AvgIsSumOverCount MinLeAvgLeMax ByAllIsIdentity WithoutIsByComplement SelectExact BinaryMatchesLabelSets
CHECK_DEADLOCK FALSE
VIEW View
