SPECIFICATION Spec
CONSTANTS
  Defect = "none"
  N = 4
  Datasets <- DatasetsNumStr4s
  Spans <- SpansNone
  Origins <- OriginsAll
CONSTRAINT Emit
CHECK_DEADLOCK FALSE
