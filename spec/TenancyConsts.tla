---------------------------- MODULE TenancyConsts ---------------------------
(* Names for the Tenancy configurations: index names that extend each other (a, ab, abc) plus b, one alias name
   (al) that the wildcard a* also matches, and the index expressions that are queried / deleted: direct names, the
   alias, a trailing wildcard a-star, an inner wildcard a*b - it must take ab but not abc -, a leading wildcard
   star-b - ab and b, not abc -, everything, and a list with a wildcard term. *)
Orgs1 == {0}
Orgs2 == {0, 1}
Orgs3 == {0, 1, 2}
\* organisation ids and index names whose naive concatenations collide: "a" + "12" = "a1" + "2"; also one id a prefix of another
OrgsColl == {2, 12}
Orgs3Coll == {0, 2, 12}
IndexNamesColl == {"a", "a1"}
IndexNamesSim == {"a", "a1", "ab", "abc", "b"}
ExprsColl == {"a", "a1", "a*", "*"}
ExprsSim == {"a", "a1", "ab", "abc", "b", "al", "a*", "*", "a*b", "*b", "b,a*b"}
DelExprsColl == {"a", "a1"}
DelExprsSim == {"a", "a1", "ab", "abc", "b", "a*b", "*b"}
IndexNames == {"a", "ab", "abc", "b"}
IndexNamesPrefix == {"a", "ab", "abc"}
IndexNamesTwo == {"ab", "abc"}
IndexNamesOne == {"ab"}
ExprsOne == {"ab", "abc", "*", "a*b"}
DelExprsOne == {"ab", "a*b"}
AliasNames == {"al"}
NoAliases == {}
ExprsAll == {"a", "ab", "abc", "b", "al", "a*", "*", "a*b", "*b", "b,a*b"}
DelExprsAll == {"a", "ab", "abc", "b", "a*b", "*b"}
DelExprsPrefix == {"a", "ab", "abc", "a*b"}
DelExprsTwo == {"ab", "abc", "a*b"}
Terms(e) == IF e = "b,a*b" THEN {"b", "a*b"} ELSE {e}
Wild(t) == t \in {"a*", "a*b", "*b"}
Match(t, n) == \/ t = "a*" /\ n \in {"a", "a1", "ab", "abc", "al"}
               \/ t = "a*b" /\ n = "ab"
               \/ t = "*b" /\ n \in {"ab", "b"}
=============================================================================
