---------------------------- MODULE TenancyConsts ---------------------------
(* Names for the Tenancy configurations: index names that extend each other (a, ab, abc) plus b, one alias name
   (al) that the wildcard a* also matches, and the index expressions that are queried / deleted: direct names, the
   alias, a trailing wildcard a-star, an inner wildcard a*b - it must take ab but not abc -, a leading wildcard
   star-b - ab and b, not abc -, everything, and a list with a wildcard term. *)
Orgs1 == {0}
Orgs2 == {0, 1}
Orgs3 == {0, 1, 2}
IndexNames == {"a", "ab", "abc", "b"}
IndexNamesPrefix == {"a", "ab", "abc"}
IndexNamesTwo == {"ab", "abc"}
IndexNamesOne == {"ab"}
ExprsOne == {"ab", "abc", "*", "a*b"}
DelExprsOne == {"ab", "a*b"}
AliasNames == {"al"}
NoAliases == {}
ExprsAll == {"a", "ab", "abc", "b", "al", "a*", "*", "a*b", "*b", "b,a*b"}
DelExprsAll == {"a", "ab", "abc", "b", "a*b", "*b"}
DelExprsPrefix == {"a", "ab", "abc", "a*b"}
DelExprsTwo == {"ab", "abc", "a*b"}
Terms(e) == IF e = "b,a*b" THEN {"b", "a*b"} ELSE {e}
Wild(t) == t \in {"a*", "a*b", "*b"}
Match(t, n) == \/ t = "a*" /\ n \in {"a", "ab", "abc", "al"}
               \/ t = "a*b" /\ n = "ab"
               \/ t = "*b" /\ n \in {"ab", "b"}
=============================================================================
