---------------------------- MODULE TenancyConsts ---------------------------
(* Names for the Tenancy configurations: index names that are prefixes of each other (a, ab, b), one
   alias name (al) that the wildcard a* also matches, and the index expressions that are queried. *)
Orgs2 == {0, 1}
Orgs3 == {0, 1, 2}
IndexNames == {"a", "ab", "b"}
IndexNamesPrefix == {"a", "ab"}
AliasNames == {"al"}
ExprsAll == {"a", "ab", "b", "al", "a*", "*", "a,b"}
Terms(e) == IF e = "a,b" THEN {"a", "b"} ELSE {e}
Wild(t) == t = "a*"
Match(t, n) == t = "a*" /\ n \in {"a", "ab", "al"}
=============================================================================
