SPECIFICATION GenSpec
CONSTANTS
  MaxLen = 3
  Dods <- DodsZero
  Leads <- LeadsAll
  Trails <- TrailsAll
  LeadBits = 5
  ClampLead = TRUE
  FirstDelta = 0
CONSTRAINT Emit
CHECK_DEADLOCK FALSE
