SPECIFICATION Spec
CONSTANTS
  MaxDp = 3
  MaxIdx = 1
  MaxBlk = 1
  MaxCrash = 1
  Faults = FALSE
  LexListing = TRUE
  CrcChecked = TRUE
  FlushBeforeDelete = FALSE
  KeepFlushedBlock = FALSE
  MetaAtomic = FALSE
  StartupIngest = FALSE
  MetaSkipsEmptyBlock = FALSE
  MaxMeta = 0
  NpDp = 0
INVARIANTS Durable
CHECK_DEADLOCK FALSE
