SPECIFICATION Spec
CONSTANTS
  Orgs <- Orgs2
  Indexes <- IndexNames
  Aliases <- AliasNames
  Exprs <- ExprsAll
  DelExprs <- DelExprsAll
  TermsOf <- Terms
  Matches <- Match
  IsWild <- Wild
  MaxOps = 4
  FixDelete = TRUE
  FixRegistry = FALSE
INVARIANTS ExactByName
CHECK_DEADLOCK FALSE
VIEW View
