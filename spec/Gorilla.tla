------------------------------ MODULE Gorilla ------------------------------
(* Transcription of pkg/segment/writer/metrics/compress (compressor.go /
   decompressor.go): the Gorilla delta-of-delta + XOR encoder and its decoder,
   at the grain of the encoder's case analysis.

   A datapoint is (dod, x): the delta-of-delta of its timestamp and the class of
   the XOR of its value bits with the previous value:
       x = [z |-> TRUE]                        (same bits as previous value)
       x = [z |-> FALSE, lead |-> l, trail |-> t]   (bit 63-l and bit t are the
                                                outermost set bits of the XOR)
   Encoder and decoder run in lock step: each Put appends the encoder's tokens
   to the stream and the decoder consumes them.  The abstraction is exact for the
   property "decoded datapoint = encoded datapoint": the decoder reconstructs the
   timestamp from (delta + dod') and the value from the window placed at its own
   (lead, trail), so the value is bit-identical iff it placed the window where
   the encoder took it from.

   LeadBits is the width of the leading-zero field (5 in the code).  ClampLead
   says whether the encoder clamps the leading-zero count to what the field can
   hold (the Gorilla paper does; the pinned siglens commit did not - see
   known_findings.json / the "fix:" commit).  *)
EXTENDS Integers, Sequences, FiniteSets, TLC

CONSTANTS MaxLen,      \* datapoints per series after the first
          Dods,        \* set of delta-of-delta values offered to Put
          Leads, Trails, \* representative leading / trailing zero counts
          LeadBits,    \* width of the leading-zeros field
          ClampLead,   \* BOOLEAN
          FirstDelta   \* the delta the first (uncompressed) datapoint establishes

VARIABLES n,        \* datapoints put after the first
          eDelta, eLead, eTrail,     \* Compressor.tDelta / leadingZeros / trailingZeros
          dDelta, dLead, dTrail,     \* Decompressor.delta / leadingZeros / trailingZeros
          bits,     \* bits written to the stream so far (header + first point included)
          lastTok,  \* tokens of the last Put (what a trace of the real encoder must show)
          tsOK, valOK  \* did the decoder reproduce every timestamp / value so far
vars == <<n, eDelta, eLead, eTrail, dDelta, dLead, dTrail, bits, lastTok, tsOK, valOK>>

NoWindow == 255   \* math.MaxUint8 : no window established yet
Pow2(k) == 2 ^ k
MinI(a, b) == IF a <= b THEN a ELSE b
XorClasses == {[z |-> TRUE, lead |-> 0, trail |-> 0]} \cup
              {[z |-> FALSE, lead |-> l, trail |-> t] : <<l, t>> \in {p \in Leads \X Trails : p[1] + p[2] <= 63}}

(* ---- timestamps: compressTimestamp / decompressTimestamp ---- *)
TsClass(dod) == IF dod = 0 THEN 0
                ELSE IF -63 <= dod /\ dod <= 64 THEN 7
                ELSE IF -255 <= dod /\ dod <= 256 THEN 9
                ELSE IF -2047 <= dod /\ dod <= 2048 THEN 12
                ELSE 32
TsHeaderBits(c) == CASE c = 0 -> 1 [] c = 7 -> 2 [] c = 9 -> 3 [] c = 12 -> 4 [] c = 32 -> 4
(* writeInt64Bits: two's complement in c bits.  The 32-bit class is kept as the
   signed integer itself (TLC integers are 32 bit; the decoder adds it modulo
   2^32, which is exact for |dod| < 2^31 - assumption A1). *)
TsField(dod, c) == IF c = 32 \/ dod >= 0 THEN dod ELSE Pow2(c) + dod
TsDecode(field, c) == IF c = 0 THEN 0
                      ELSE IF c # 32 /\ Pow2(c - 1) < field THEN field - Pow2(c) ELSE field
IsEOFMarker(field, c) == c = 32 /\ field = -1   \* 0xFFFFFFFF

(* ---- values: compressValue / decompressValue ---- *)
FieldMax == Pow2(LeadBits) - 1
EncLead(l) == IF ClampLead THEN MinI(l, FieldMax) ELSE l
Reuse(x) == ~x.z /\ eLead # NoWindow /\ eLead <= x.lead /\ eTrail <= x.trail

Init == /\ n = 0 /\ eDelta = FirstDelta /\ dDelta = FirstDelta
        /\ eLead = NoWindow /\ eTrail = 0 /\ dLead = 0 /\ dTrail = 0
        /\ bits = 32 + 14 + 64 /\ lastTok = <<>> /\ tsOK = TRUE /\ valOK = TRUE

Put(dod, x) ==
  /\ n < MaxLen
  /\ LET c == TsClass(dod)
         f == TsField(dod, c)
         dd == TsDecode(f, c)
         tsTok == [k |-> "ts", c |-> c, field |-> f]
     IN
     /\ eDelta' = eDelta + dod
     /\ dDelta' = dDelta + dd
     /\ tsOK' = (tsOK /\ dd = dod /\ ~IsEOFMarker(f, c))
     /\ IF x.z
        THEN /\ UNCHANGED <<eLead, eTrail, dLead, dTrail>>
             /\ valOK' = valOK
             /\ bits' = bits + TsHeaderBits(c) + c + 1
             /\ lastTok' = <<tsTok, [k |-> "v0"]>>
        ELSE IF Reuse(x)
        THEN \* '10' + window of the ENCODER's previous geometry; decoder uses ITS previous geometry
             /\ UNCHANGED <<eLead, eTrail, dLead, dTrail>>
             /\ valOK' = (valOK /\ dLead = eLead /\ dTrail = eTrail)
             /\ bits' = bits + TsHeaderBits(c) + c + 2 + (64 - eLead - eTrail)
             /\ lastTok' = <<tsTok, [k |-> "v10", sig |-> 64 - eLead - eTrail]>>
        ELSE \* '11' + lead field + sig field + window
             LET el == EncLead(x.lead)
                 sig == 64 - el - x.trail
                 lf == el % Pow2(LeadBits)              \* what LeadBits bits can hold
                 sf == sig % 64                           \* 6-bit field; 64 is written as 0
                 dsig == IF sf = 0 THEN 64 ELSE sf
                 dl == lf
                 dt == 64 - dsig - dl
             IN /\ eLead' = el /\ eTrail' = x.trail
                /\ dLead' = dl /\ dTrail' = dt
                /\ valOK' = (valOK /\ dt = x.trail /\ dsig = sig)
                /\ bits' = bits + TsHeaderBits(c) + c + 2 + LeadBits + 6 + sig
                /\ lastTok' = <<tsTok, [k |-> "v11", leadField |-> lf, sigField |-> sf, sig |-> sig]>>
     /\ n' = n + 1

Next == \E dod \in Dods, x \in XorClasses : Put(dod, x)
Spec == Init /\ [][Next]_vars

-----------------------------------------------------------------------------
(* The property (C08, codec part): every datapoint decodes to what was encoded. *)
BitExact == tsOK /\ valOK
(* decoder geometry tracks encoder geometry once a window exists *)
InSync == (eLead # NoWindow) => (dLead = eLead /\ dTrail = eTrail)
(* the window the decoder computes is never negative / wider than a word *)
Geometry == dLead + dTrail <= 64 /\ dTrail >= 0
(* output-only variables (bits, lastTok) are hidden from the exhaustive search *)
View == <<n, eDelta, eLead, eTrail, dDelta, dLead, dTrail, tsOK, valOK>>
TypeOK == /\ n \in 0..MaxLen /\ eDelta \in Int /\ dDelta \in Int /\ bits \in Nat
=============================================================================
