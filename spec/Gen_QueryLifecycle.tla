------------------------- MODULE Gen_QueryLifecycle -------------------------
(* Schedule generator: every behaviour of QueryLifecycle (one query, sync path, no timer)
   projected on the steps the harness can force on the real goroutines:
     enq        StartQueryAsCoordinator returned (query is in the waiting queue)
     deq        puller passed canRunQuery and took the query off the queue   (gate q.pull.check -> q.pull.got)
     run        puller inserted it into the running table and sent READY, RUNNING (gate q.pull.got released)
     cancel     one complete CancelQuery call by the client (its internal steps are collapsed; behaviours in
                which another goroutine moves in the middle of a CancelQuery are projected onto the order of
                their lookup step)
     recv:<m>   handler processes message m (gate h.recv)
     xfin       executor goroutine finishes and sends COMPLETE (gate x.start released)
   A behaviour is exported when the handler has returned and everything is quiet. *)
EXTENDS QueryLifecycle, Json, IOUtils
VARIABLE hist
q0 == CHOOSE q \in Q : TRUE
Vis(lbl) == hist' = Append(hist, lbl)
Silent == UNCHANGED hist
GenInit == Init /\ hist = <<>>
GenNext ==
  \/ (PullCheck /\ Silent)
  \/ (PullDequeue /\ IF waiting # <<>> THEN Vis("deq") ELSE Silent)
  \/ (PullRun /\ Vis(IF pq \in cancelled THEN "runskip" ELSE "run"))
  \/ (PullSendReady /\ Silent) \/ (PullSendRunning /\ Silent) \/ (PullClear /\ Silent)
  \/ \E q \in Q :
       \/ (Enqueue(q) /\ Vis("enq"))
       \/ (Recv(q) /\ Vis("recv:" \o Head(chan[q])))
       \/ (HandlerDelete(q) /\ Silent)
       \/ (ExecFinish(q) /\ Vis("xfin"))
       \/ (ClientCancel(q) /\ Vis("cancel"))
       \/ \E w \in Who : \/ (CancelMark(q, w) /\ Silent) \/ (CancelUnqueue(q, w) /\ Silent) \/ (CancelSend(q, w) /\ Silent)
                         \/ (CancelWaitLook(q, w) /\ Silent) \/ (CancelWaitSend(q, w) /\ Silent)
                         \/ (CancelWaitMark(q, w) /\ Silent) \/ (CancelRelook(q, w) /\ Silent)
GenSpec == GenInit /\ [][GenNext]_<<vars, hist>>

(* the same for several queries: labels carry the query, and only the steps that matter for admission are kept
   (enq:q, deq, run, recv:q:<terminal>, xfin:q); used with MAXRUN = 1 and no cancels to force every order in which two
   submissions race with the puller's dequeue / run pair *)
QName(q) == ToString(q)
Gen2Next ==
  \/ (PullCheck /\ Silent)
  \/ (PullDequeue /\ IF waiting # <<>> THEN Vis("deq") ELSE Silent)
  \/ (PullRun /\ Vis("run"))
  \/ (PullSendReady /\ Silent) \/ (PullSendRunning /\ Silent) \/ (PullClear /\ Silent)
  \/ \E q \in Q :
       \/ (Enqueue(q) /\ Vis("enq:" \o QName(q)))
       \/ (Recv(q) /\ IF Head(chan[q]) \in TerminalMsgs THEN Vis("recv:" \o QName(q) \o ":" \o Head(chan[q])) ELSE Silent)
       \/ (HandlerDelete(q) /\ Silent)
       \/ (ExecFinish(q) /\ Vis("xfin:" \o QName(q)))
Gen2Spec == GenInit /\ [][Gen2Next]_<<vars, hist>>
Emit2 == IF AllQuiet /\ \A q \in Q : hpc[q] = "gone"
         THEN Serialize(ToJson([steps |-> hist]) \o "\n", "behaviours.ndjson",
                 [format |-> "TXT", charset |-> "UTF-8", openOptions |-> <<"WRITE", "CREATE", "APPEND">>]).exitValue = 0
         ELSE TRUE
Emit == IF AllQuiet /\ hpc[q0] = "gone"
        THEN Serialize(ToJson([steps |-> hist, outcome |-> outcome[q0], marked |-> q0 \in cancelled]) \o "\n", "behaviours.ndjson",
                 [format |-> "TXT", charset |-> "UTF-8", openOptions |-> <<"WRITE", "CREATE", "APPEND">>]).exitValue = 0
        ELSE TRUE
=============================================================================
