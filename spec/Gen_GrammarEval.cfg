SPECIFICATION Spec
CONSTANTS
  Fns = {"mvindex_split", "mvindex", "substr", "round", "mvrange", "mvjoin_split", "replace_idx", "tonumber_base", "pow", "ltrim_n"}
  Cols = {"x", "y", "z"}
  NArg = 7
CONSTRAINT Emit
CHECK_DEADLOCK FALSE
