SPECIFICATION Spec
CONSTANTS
  MaxSpans = 8
  MaxTraces = 1
  Services <- SvcABC
  MaxErrors = 0
  Malformations <- AllMal
  Mode = "plan"
  Orders = {"fwd", "rev", "rot"}
  PageSize = 50
  MinSpans = 1
  MinEntries = 0
  ResolveInTrace = TRUE
CONSTRAINT EmitPlan
CHECK_DEADLOCK FALSE
