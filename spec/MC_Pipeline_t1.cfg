SPECIFICATION Spec
CONSTANTS
  Chains <- Singles
  RowVals <- RowsMid
  MaxRows = 4
  MaxEmpty = 1
  EofModes <- BoolBoth
  SSCarry = TRUE
INVARIANTS ChunkingInvariant PrefixOK SplitInvariant TypeOK
CHECK_DEADLOCK FALSE
