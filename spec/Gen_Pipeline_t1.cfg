SPECIFICATION GenSpec
CONSTANTS
  Chains <- Singles
  RowVals <- RowsMid
  MaxRows = 3
  MaxEmpty = 1
  EofModes <- BoolBoth
  SSCarry = TRUE
CONSTRAINT Emit
CHECK_DEADLOCK FALSE
