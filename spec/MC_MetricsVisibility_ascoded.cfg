SPECIFICATION Spec
CONSTANTS
  MaxDp = 3
  MaxFlush = 2
  MaxSegRot = 1
  MaxPend = 1
  PutAtomic = FALSE
  AccountAtomic = FALSE
  ReaderHandlesEmpty = FALSE
  RefreshExempt = TRUE
  BlkCheckBySuffix = FALSE
INVARIANTS QuiescentEq
CHECK_DEADLOCK FALSE
