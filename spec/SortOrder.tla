----------------------------- MODULE SortOrder -----------------------------
(* The order `sort` must produce (C05, explicit sort), as documented in
   pkg/segment/query/processor/sortcommand.go:

     getRank        numeric < string < other (missing / null always last,
                    also in descending order); with op "str" numbers rank as
                    strings; with "", "auto", "num" a string that parses as a
                    float ranks as a number
     compareValues  numbers by value, strings by byte order, asc/desc flips
                    LESS/GREATER (never the null-last rule)
     less           lexicographic over the sort elements

   Values are abstract: a number is an integer count of 1e-5 units (so values
   closer than 1e-4 are representable), a string is its position `ord` in a
   fixed byte-ordered list, plus its numeric value when it parses as a float.
   Tol is the tolerance of the numeric comparison in the same units: the
   documented order has Tol = 0; the code compares with
   dtypeutils.AlmostEquals (|a-b| < 1e-4), which is Tol = 10.  *)
EXTENDS Integers, Sequences, FiniteSets, SequencesExt, TLC

CONSTANTS Vals,      \* set of value records [k, v, ord, isnum]
          Ops,       \* subset of {"auto", "num", "str"}
          Tol,       \* tolerance of numeric equality, in 1e-5 units
          MaxRows,   \* rows per table
          NKeys,     \* 1 or 2 sort keys
          RankByLooks \* FALSE: a string ranks as a number iff it converts to a float (documented, sortcommand.go getRank);
                      \* TRUE: iff it merely looks numeric (`nl`) - the class of slip that leaves IPs / dates unordered:
                      \* compareValues then cannot convert the value and answers GREATER / LESS without the asc/desc flip

(* value classes.  `isnum`: the value converts to a float (a number, or a string strconv.ParseFloat accepts).
   `nl` ("numeric-looking"): a string made only of 0-9 . - + e E with at least one digit - what the cheap test
   utils.MightBeFloat accepts.  NumLike strings are nl but NOT isnum: IPv4 addresses, ISO dates, version
   numbers ("10.0.0.7", "2024-01-17", "1-2").  They are ordinary strings for the documented order. *)
Num(v, ord) == [k |-> "n", v |-> v, ord |-> ord, isnum |-> TRUE, nl |-> TRUE]
Str(ord) == [k |-> "s", v |-> 0, ord |-> ord, isnum |-> FALSE, nl |-> FALSE]
NumStr(ord, v) == [k |-> "s", v |-> v, ord |-> ord, isnum |-> TRUE, nl |-> TRUE]
NumLike(ord) == [k |-> "s", v |-> 0, ord |-> ord, isnum |-> FALSE, nl |-> TRUE]
Null == [k |-> "z", v |-> 0, ord |-> 0, isnum |-> FALSE, nl |-> FALSE]

Abs(x) == IF x < 0 THEN -x ELSE x
Rank(x, op) == IF x.k = "z" THEN 3
               ELSE IF x.k = "n" THEN (IF op = "str" THEN 2 ELSE 1)
               ELSE IF op # "str" /\ (IF RankByLooks THEN x.nl ELSE x.isnum) THEN 1 ELSE 2
NumCmp(a, b) == IF Abs(a - b) < Tol THEN "EQ" ELSE IF a < b THEN "LT" ELSE IF a > b THEN "GT" ELSE "EQ"
Flip(c) == IF c = "LT" THEN "GT" ELSE IF c = "GT" THEN "LT" ELSE c
(* compareValues(a, b, asc, op) *)
Cmp(a, b, asc, op) ==
   LET ra == Rank(a, op)
       rb == Rank(b, op)
   IN IF ra = 3 /\ rb = 3 THEN "EQ"
      ELSE IF ra = 3 THEN "GT"
      ELSE IF rb = 3 THEN "LT"
      ELSE IF ra = 1 /\ rb = 1 /\ ~a.isnum THEN "GT"     \* GetFloatValueIfPossible(A) fails (only reachable with RankByLooks)
      ELSE IF ra = 1 /\ rb = 1 /\ ~b.isnum THEN "LT"
      ELSE LET c == IF ra < rb THEN "LT" ELSE IF ra > rb THEN "GT"
                    ELSE IF ra = 1 THEN NumCmp(a.v, b.v)
                    ELSE IF a.ord < b.ord THEN "LT" ELSE IF a.ord > b.ord THEN "GT" ELSE "EQ"
           IN IF asc THEN c ELSE Flip(c)
(* a sort specification is a sequence of [asc, op]; a row is a sequence of values, one per key *)
RECURSIVE LessFrom(_, _, _, _)
LessFrom(r1, r2, spec, i) == IF i > Len(spec) THEN FALSE
                             ELSE LET c == Cmp(r1[i], r2[i], spec[i].asc, spec[i].op)
                                  IN IF c = "EQ" THEN LessFrom(r1, r2, spec, i + 1) ELSE c = "LT"
Less(r1, r2, spec) == LessFrom(r1, r2, spec, 1)
Equiv(r1, r2, spec) == ~Less(r1, r2, spec) /\ ~Less(r2, r1, spec)

SpecEls == {[asc |-> a, op |-> o] : a \in BOOLEAN, o \in Ops}
Specs == [1..NKeys -> SpecEls]
Rows == [1..NKeys -> Vals]

(* what `sort` may return for a table (sequence of rows): any permutation in which no adjacent pair
   is out of order; with a limit, the first `limit` of such a permutation *)
Perms(n) == {p \in [1..n -> 1..n] : \A i, j \in 1..n : i # j => p[i] # p[j]}
SortedPerms(tbl, spec) == {p \in Perms(Len(tbl)) : \A i \in 1..(Len(tbl) - 1) : ~Less(tbl[p[i + 1]], tbl[p[i]], spec)}
TotallySorted(tbl, spec, p) == \A i, j \in 1..Len(tbl) : i < j => ~Less(tbl[p[j]], tbl[p[i]], spec)

VARIABLES spec, tbl, pc
vars == <<spec, tbl, pc>>
Init == spec = <<>> /\ tbl = <<>> /\ pc = "spec"
PickSpec == pc = "spec" /\ spec' \in Specs /\ pc' = "rows" /\ UNCHANGED tbl
AddRow == pc = "rows" /\ Len(tbl) < MaxRows /\ \E r \in Rows : tbl' = Append(tbl, r) /\ UNCHANGED <<spec, pc>>
Next == PickSpec \/ AddRow
Spec == Init /\ [][Next]_vars

-----------------------------------------------------------------------------
(* less is a strict weak order: then "no adjacent pair out of order" is the same as "no pair out of order",
   a sorted order exists for every table, and merging sorted runs gives a sorted run *)
Irreflexive == \A s \in Specs, a \in Rows : ~Less(a, a, s)
Asymmetric == \A s \in Specs, a, b \in Rows : Less(a, b, s) => ~Less(b, a, s)
Transitive == \A s \in Specs, a, b, c \in Rows : Less(a, b, s) /\ Less(b, c, s) => Less(a, c, s)
EquivTransitive == \A s \in Specs, a, b, c \in Rows : Equiv(a, b, s) /\ Equiv(b, c, s) => Equiv(a, c, s)
StrictWeakOrder == Irreflexive /\ Asymmetric /\ Transitive /\ EquivTransitive
(* documented rank: every number before every non-numeric string before every null, ascending or descending *)
RankOrder == \A a, b \in Vals, o \in Ops, asc \in BOOLEAN :
                Rank(a, o) < Rank(b, o) => (IF Rank(b, o) = 3 \/ asc THEN Cmp(a, b, asc, o) = "LT" ELSE Cmp(a, b, asc, o) = "GT")
(* strings that do not convert to a float (words and numeric-LOOKING strings alike) are ordered by byte order,
   ascending or descending - IPs, dates and version numbers are ordered against each other *)
IsStrRank(x, o) == x.k = "s" /\ ~(o # "str" /\ x.isnum)
StringOrder == \A a, b \in Vals, o \in Ops :
                  (IsStrRank(a, o) /\ IsStrRank(b, o) /\ a.ord < b.ord) =>
                     (Cmp(a, b, TRUE, o) = "LT" /\ Cmp(b, a, TRUE, o) = "GT" /\ Cmp(a, b, FALSE, o) = "GT" /\ Cmp(b, a, FALSE, o) = "LT")
(* per table: a sorted permutation exists, and adjacent-sorted = totally sorted *)
SortExists == pc = "rows" => SortedPerms(tbl, spec) # {}
AdjacentIsTotal == pc = "rows" => \A p \in SortedPerms(tbl, spec) : TotallySorted(tbl, spec, p)
=============================================================================
