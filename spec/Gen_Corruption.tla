---------------------------- MODULE Gen_Corruption ----------------------------
(* Behaviour generator for Corruption: every complete behaviour (one fault, the
   outcomes the model admits for the two blocks) is written as one JSON line.  The
   check aggregates the lines per fault into the admissible outcome set and maps
   (kind, chunk, region, fault, tc) onto byte offsets of the real files. *)
EXTENDS Corruption, Json, IOUtils
Emit == IF phase = "done"
        THEN Serialize(ToJson([fault |-> fault, out0 |-> out["c0"], outN |-> out["cN"], other |-> other,
                               checksummed |-> Checksummed(fault.kind)]) \o "\n", "behaviours.ndjson",
                 [format |-> "TXT", charset |-> "UTF-8", openOptions |-> <<"WRITE", "CREATE", "APPEND">>]).exitValue = 0
        ELSE TRUE
=============================================================================
