------------------------------ MODULE Pipeline ------------------------------
(* The streaming query pipeline of pkg/segment/query/processor:

   (1) OPERATIONAL PART - written like the code.
       DataProcessor.Fetch (dataprocessor.go:229) pulls batches (IQRs) from its
       input through a CachedStream, hands each to its processor and decides,
       from the command's flags, whether the result may leave now (streaming
       command), only at EOF (bottleneck command) or only in the second pass
       (two-pass command: at the first EOF the whole upstream chain is rewound
       and read again).  Each command's processor keeps its own cross-batch
       state (head: rows sent; tail: last-n buffer; dedup: seen counts; sort:
       sorted prefix; streamstats: running aggregates, window, global index;
       top/rare/stats: buckets; fillnull/bin without arguments: what the first
       pass learnt).  One TLA+ operator per processor method
       (Process / GetFinalResultIfExists / Rewind), transcribed from
       <command>command.go.

   (2) REFERENCE PART - whole-sequence semantics.
       Sem(cmd, rows) is the SET of outputs the documented semantics of the
       command admits for the complete ordered input `rows` (a set, because the
       statement leaves the order among sort ties, the order of stats/top/rare
       result rows among equal counts, and which tied row a limit keeps open).

   PROPERTY (C06): for every chain, every input table and EVERY partition of
   the input into successive batches (including empty batches and both legal
   ways of signalling the end), the concatenation of everything the last
   DataProcessor returns is an element of SemChain(chain, table).

   Rows are functions from field names to values; values are small integers,
   NULL (= -1, "field absent") or tuples (multi-value fields).  *)
EXTENDS Integers, Sequences, FiniteSets, SequencesExt, TLC

CONSTANTS Chains,      \* set of chains; a chain is a sequence of command records
          RowVals,     \* set of rows the input tables are built from
          MaxRows,     \* tables have 0..MaxRows rows
          MaxEmpty,    \* up to this many empty batches are interleaved
          EofModes,    \* subset of BOOLEAN: TRUE = the source returns its last batch together with io.EOF
          SSCarry      \* TRUE: streamstats carries its global row index / previous group key across batches
                       \*       (what the command means); FALSE: it resets them at the start of every batch
                       \*       (what streamstatscommand.go:112-114 does)

NULL == -1
GALL == <<-7>>     \* the single group of an aggregation without by-clause
KNONE == <<-9>>    \* "no previous group key"
NIL == [nil |-> TRUE, rows |-> <<>>]
Bt(rs) == [nil |-> FALSE, rows |-> rs]
Min2(a, b) == IF a <= b THEN a ELSE b
Max2(a, b) == IF a >= b THEN a ELSE b

Get(r, f) == IF f \in DOMAIN r THEN r[f] ELSE NULL
Put(r, f, v) == [x \in (DOMAIN r) \cup {f} |-> IF x = f THEN v ELSE r[x]]
Drop(r, F) == [x \in (DOMAIN r) \ F |-> r[x]]

RECURSIVE SumSeq(_)
SumSeq(s) == IF s = <<>> THEN 0 ELSE Head(s) + SumSeq(Tail(s))
RECURSIVE Concat(_)
Concat(ss) == IF ss = <<>> THEN <<>> ELSE Head(ss) \o Concat(Tail(ss))
MapSeq(s, Op(_)) == [i \in 1..Len(s) |-> Op(s[i])]
FirstN(s, n) == SubSeq(s, 1, Min2(n, Len(s)))
LastN(s, n) == SubSeq(s, Max2(1, Len(s) - n + 1), Len(s))

-----------------------------------------------------------------------------
(* ---------- per-row functions shared by the operational and the reference part ---------- *)
EvalExpr(e, r) ==
   CASE e.t = "add" -> IF Get(r, e.x) = NULL \/ Get(r, e.y) = NULL THEN NULL ELSE Get(r, e.x) + Get(r, e.y)
     [] e.t = "addk" -> IF Get(r, e.x) = NULL THEN NULL ELSE Get(r, e.x) + e.k
     [] e.t = "if" -> IF Get(r, e.f) = NULL THEN NULL          \* a null condition yields null
                      ELSE IF Get(r, e.f) > e.k THEN Get(r, e.x) ELSE Get(r, e.y)
Digits(v) == IF v < 10 THEN <<v>> ELSE <<v \div 10, v % 10>>   \* the multi-value "1,2" is coded 12, "1" is 1
RowFn(c, r) ==
   CASE c.op = "eval" -> Put(r, c.g, EvalExpr(c.e, r))
     [] c.op = "fields" -> IF c.keep THEN Drop(r, (DOMAIN r) \ c.fs) ELSE Drop(r, c.fs)
     [] c.op = "rename" -> IF c.f \in DOMAIN r THEN Put(Drop(r, {c.f}), c.g, r[c.f]) ELSE r
     [] c.op = "fillnull" -> [x \in DOMAIN r |-> IF (c.fs = {} \/ x \in c.fs) /\ r[x] = NULL THEN c.v ELSE r[x]]
     [] c.op = "bin" -> IF Get(r, c.f) = NULL THEN r ELSE Put(r, c.f, (r[c.f] \div c.span) * c.span)   \* the bucket [lo, lo+span) is coded lo
     [] c.op = "makemv" -> r      \* the code stays; the field is now multi-valued (the harness knows from the chain)
RowPred(c, r) == Get(r, c.f) # NULL /\ Get(r, c.f) > c.k           \* where f > k ; null is not > k
IsPerRow(c) == c.op \in {"eval", "fields", "rename", "bin", "makemv"} \/ (c.op = "fillnull" /\ c.fs # {})
Expand(c, r) == IF Get(r, c.f) = NULL THEN <<r>> ELSE [i \in 1..Len(Digits(r[c.f])) |-> Put(r, c.f, Digits(r[c.f])[i])]

(* head [limit=n] <f > k | f < k> [null=<bool>] [keeplast=<bool>] (headcommand.go processHeadExpr): rows are returned while
   the expression holds; a null expression value counts as holding iff null=true; the row that ends the run is itself
   returned iff keeplast=true (and the limit still has room) *)
HeadCond(c, r) == IF Get(r, c.f) = NULL THEN "null"
                  ELSE IF (IF c.cmp = "gt" THEN Get(r, c.f) > c.k ELSE Get(r, c.f) < c.k) THEN "true" ELSE "false"
HeadGoesOn(c, r) == HeadCond(c, r) = "true" \/ (HeadCond(c, r) = "null" /\ c.nul)
RECURSIVE HeadXFold(_, _, _, _)
HeadXFold(c, ps, rows, acc) ==      \* the row loop: `row < N && !Done && numRecordsSent < MaxRows`
   IF rows = <<>> \/ ps.done \/ ps.sent >= c.n THEN [ps |-> ps, out |-> acc]
   ELSE IF HeadGoesOn(c, Head(rows)) THEN HeadXFold(c, [ps EXCEPT !.sent = @ + 1], Tail(rows), Append(acc, Head(rows)))
   ELSE IF c.keeplast THEN [ps |-> [sent |-> ps.sent + 1, done |-> TRUE], out |-> Append(acc, Head(rows))]
   ELSE [ps |-> [ps EXCEPT !.done = TRUE], out |-> acc]

(* sort order of one key: numbers ascending/descending, missing values last in both directions *)
KeyLess(x, y, asc) == IF x = NULL THEN FALSE ELSE IF y = NULL THEN TRUE ELSE IF asc THEN x < y ELSE x > y
RowLess(c, r1, r2) == KeyLess(Get(r1, c.f), Get(r2, c.f), c.asc)
SortLimit(c) == IF c.lim = 0 THEN 10000 ELSE c.lim
(* stable insertion / merge: the first argument wins ties *)
RECURSIVE InsertSorted(_, _, _)
InsertSorted(c, s, r) == IF s = <<>> THEN <<r>>
                         ELSE IF RowLess(c, r, Head(s)) THEN <<r>> \o s ELSE <<Head(s)>> \o InsertSorted(c, Tail(s), r)
RECURSIVE StableSort(_, _)
StableSort(c, s) == IF s = <<>> THEN <<>> ELSE InsertSorted(c, StableSort(c, SubSeq(s, 1, Len(s) - 1)), s[Len(s)])
RECURSIVE StableMerge(_, _, _)
StableMerge(c, s1, s2) == IF s1 = <<>> THEN s2 ELSE IF s2 = <<>> THEN s1
                          ELSE IF RowLess(c, Head(s2), Head(s1)) THEN <<Head(s2)>> \o StableMerge(c, s1, Tail(s2))
                          ELSE <<Head(s1)>> \o StableMerge(c, Tail(s1), s2)

-----------------------------------------------------------------------------
(* ---------- command flags (NewXxxDP in dataprocessor.go) ---------- *)
TwoPass(c) == (c.op = "fillnull" /\ c.fs = {}) \/ c.op = "bin2"
Bottleneck(c) == TwoPass(c) \/ c.op \in {"tail", "sort", "top", "rare", "stats"}

(* ---------- processor state ---------- *)
InitPS(c) ==
   CASE c.op = "head" -> [sent |-> 0]
     [] c.op = "headx" -> [sent |-> 0, done |-> FALSE]
     [] c.op = "tail" -> [buf |-> NIL, eof |-> FALSE]
     [] c.op = "dedup" -> [seen |-> <<>>]                     \* sequence of <<key, count>>
     [] c.op = "sort" -> [acc |-> NIL, final |-> FALSE]
     [] c.op = "streamstats" -> [run |-> <<>>, idx |-> 0, key |-> KNONE]   \* run: sequence of [g, cnt, sum, has, win]
     [] c.op \in {"top", "rare", "stats"} -> [acc |-> <<>>, gave |-> FALSE, any |-> FALSE]   \* acc: sequence of [g, cnt, sum]
     [] c.op = "fillnull" -> [second |-> FALSE]
     [] c.op = "bin2" -> [init |-> FALSE, mn |-> 0, mx |-> 0, second |-> FALSE]
     [] OTHER -> [none |-> TRUE]

(* association lists (the Go maps) *)
Lookup(al, k) == IF \E i \in 1..Len(al) : al[i][1] = k THEN (CHOOSE i \in 1..Len(al) : al[i][1] = k) ELSE 0
Upsert(al, k, v) == IF Lookup(al, k) = 0 THEN Append(al, <<k, v>>) ELSE [al EXCEPT ![Lookup(al, k)] = <<k, v>>]

(* ----- dedup: one pass over the batch, combinationHashes carried across batches ----- *)
DedupKey(c, r) == [i \in 1..Len(c.fs) |-> Get(r, c.fs[i])]
HasNullKey(c, r) == \E i \in 1..Len(c.fs) : Get(r, c.fs[i]) = NULL
(* a row that is not kept is dropped - or, with keepevents=true, stays with its dedup fields removed *)
Nulled(c, r) == [x \in DOMAIN r |-> IF \E i \in 1..Len(c.fs) : c.fs[i] = x THEN NULL ELSE r[x]]
Unkept(c, acc, r) == IF c.keepevents THEN Append(acc, Nulled(c, r)) ELSE acc
RECURSIVE DedupFold(_, _, _, _)
DedupFold(c, seen, rows, acc) ==
   IF rows = <<>> THEN [seen |-> seen, out |-> acc]
   ELSE LET r == Head(rows)
            k == DedupKey(c, r)
        IN IF HasNullKey(c, r)
           THEN DedupFold(c, seen, Tail(rows), IF c.keepempty THEN Append(acc, r) ELSE Unkept(c, acc, r))
           ELSE LET i == Lookup(seen, k)
                    n == IF i = 0 THEN 0 ELSE seen[i][2]
                    seen1 == Upsert(seen, k, n + 1)
                    seen2 == IF c.consec THEN <<<<k, n + 1>>>> ELSE seen1     \* consecutive: only the current run is remembered
                IN DedupFold(c, seen2, Tail(rows), IF n >= c.lim THEN Unkept(c, acc, r) ELSE Append(acc, r))

(* ----- streamstats: one pass over the batch; running state per group ----- *)
SSGroup(c, r) == IF c.by = "" THEN GALL ELSE <<Get(r, c.by)>>
NewRun(g) == [g |-> g, cnt |-> 0, sum |-> 0, has |-> FALSE, win |-> <<>>]
RunIdx(run, g) == IF \E i \in 1..Len(run) : run[i].g = g THEN (CHOOSE i \in 1..Len(run) : run[i].g = g) ELSE 0
RECURSIVE CleanWin(_, _, _)
CleanWin(win, w, cur) == IF win # <<>> /\ Head(win)[1] + w <= cur THEN CleanWin(Tail(win), w, cur) ELSE win
SSValue(c, r) == IF c.fn = "count" THEN 1 ELSE Get(r, c.f)
SSStep(c, st, r) ==    \* st = [run, idx, key]; returns [st, val]
   LET g == SSGroup(c, r)
       reset == c.roc /\ st.key # g                          \* ResetOnChange: group key differs from the previous row's
       run0 == IF reset THEN <<>> ELSE st.run
       idx0 == IF reset THEN 0 ELSE st.idx
       i == RunIdx(run0, g)
       ru == IF i = 0 THEN NewRun(g) ELSE run0[i]
       v == SSValue(c, r)
       ru1 == IF c.win = 0
              THEN IF c.fn = "count" THEN [ru EXCEPT !.cnt = @ + 1, !.has = TRUE]
                   ELSE IF v = NULL THEN ru ELSE [ru EXCEPT !.sum = @ + v, !.has = TRUE]
              ELSE [ru EXCEPT !.win = Append(CleanWin(ru.win, c.win, idx0), <<idx0, v>>), !.has = TRUE]
       val == IF c.win = 0
              THEN (IF c.fn = "count" THEN ru1.cnt ELSE IF ru1.has THEN ru1.sum ELSE NULL)
              ELSE (IF c.fn = "count" THEN Len(ru1.win) ELSE SumSeq([j \in 1..Len(ru1.win) |-> ru1.win[j][2]]))
       run1 == IF i = 0 THEN Append(run0, ru1) ELSE [run0 EXCEPT ![i] = ru1]
   IN [st |-> [run |-> run1, idx |-> idx0 + 1, key |-> g], val |-> val]
RECURSIVE SSFold(_, _, _, _)
SSFold(c, st, rows, acc) ==
   IF rows = <<>> THEN [st |-> st, out |-> acc]
   ELSE LET s == SSStep(c, st, Head(rows)) IN SSFold(c, s.st, Tail(rows), Append(acc, Put(Head(rows), c.g, s.val)))

(* ----- stats / top / rare: buckets ----- *)
AggGroup(c, r) == IF c.op = "stats" THEN (IF c.by = "" THEN GALL ELSE <<Get(r, c.by)>>) ELSE <<Get(r, c.f)>>
RECURSIVE AggFold(_, _, _)
AggFold(c, acc, rows) ==
   IF rows = <<>> THEN acc
   ELSE LET r == Head(rows)
            g == AggGroup(c, r)
            i == Lookup(acc, g)
            old == IF i = 0 THEN [cnt |-> 0, sum |-> 0] ELSE acc[i][2]
            v == IF c.op = "stats" /\ c.fn = "sum" THEN Get(r, c.f) ELSE 0
            new == [cnt |-> old.cnt + 1, sum |-> IF v = NULL THEN old.sum ELSE old.sum + v]
        IN AggFold(c, Upsert(acc, g, new), Tail(rows))
AggRow(c, e) ==   \* result row of one bucket e = <<group, [cnt, sum]>>
   IF c.op = "stats"
   THEN LET base == IF c.by = "" THEN <<>> ELSE (c.by :> e[1][1])
        IN IF c.fn = "count" THEN base @@ ("cnt" :> e[2].cnt) ELSE base @@ ("sm" :> e[2].sum)
   ELSE (c.f :> e[1][1]) @@ ("cnt" :> e[2].cnt)
(* an order of the buckets the command may produce: stats - any; top - count descending; rare - count ascending *)
AggOrdered(c, s) == \A i \in 1..(Len(s) - 1) :
                       CASE c.op = "top" -> s[i][2].cnt >= s[i + 1][2].cnt
                         [] c.op = "rare" -> s[i][2].cnt <= s[i + 1][2].cnt
                         [] OTHER -> TRUE
AggLimit(c) == IF c.op = "stats" \/ c.lim = 0 THEN 10000 ELSE c.lim
(* canonical choice of the model: buckets by (count, group value) *)
AggBefore(c, e1, e2) == CASE c.op = "top" -> e1[2].cnt > e2[2].cnt \/ (e1[2].cnt = e2[2].cnt /\ e1[1][1] < e2[1][1])
                          [] c.op = "rare" -> e1[2].cnt < e2[2].cnt \/ (e1[2].cnt = e2[2].cnt /\ e1[1][1] < e2[1][1])
                          [] OTHER -> IF c.by = "" THEN FALSE ELSE e1[1][1] < e2[1][1]
AggResult(c, acc) == LET s == SetToSortSeq(ToSet(acc), LAMBDA x, y : AggBefore(c, x, y))
                     IN FirstN([i \in 1..Len(s) |-> AggRow(c, s[i])], AggLimit(c))

(* ----- two-pass bin without a span: the first pass learns min and max ----- *)
RECURSIVE MinMaxFold(_, _, _)
MinMaxFold(c, ps, rows) ==
   IF rows = <<>> THEN ps
   ELSE LET v == Get(Head(rows), c.f)
        IN MinMaxFold(c, IF v = NULL THEN ps
                         ELSE IF ~ps.init THEN [ps EXCEPT !.init = TRUE, !.mn = v, !.mx = v]
                         ELSE [ps EXCEPT !.mn = Min2(@, v), !.mx = Max2(@, v)], Tail(rows))
Bin2Row(c, mn, mx, r) == IF Get(r, c.f) = NULL THEN r ELSE Put(r, c.f, 1000 + 100 * mn + 10 * mx + r[c.f])  \* abstract bucket(min, max, v)

(* extractFinalStatsResults: nothing when no batch was ever seen (searchResults == nil) *)
AggFinal(c, ps) == IF ~ps.any THEN NIL
                   ELSE IF c.op = "stats" /\ c.by = "" /\ ps.acc = <<>> THEN Bt(<<AggRow(c, <<GALL, [cnt |-> 0, sum |-> 0]>>)>>)
                   ELSE Bt(AggResult(c, ps.acc))

(* ---------- processor.Process(input): returns [ps, out, eof] ---------- *)
Process(c, ps, in) ==
   CASE c.op = "head" ->
          IF in.nil THEN [ps |-> ps, out |-> NIL, eof |-> TRUE]
          ELSE LET o == FirstN(in.rows, c.n - ps.sent)
               IN [ps |-> [sent |-> ps.sent + Len(o)], out |-> Bt(o), eof |-> ps.sent + Len(o) >= c.n]
     [] c.op = "headx" ->
          IF in.nil \/ ps.done THEN [ps |-> ps, out |-> NIL, eof |-> TRUE]
          ELSE LET f == HeadXFold(c, ps, in.rows, <<>>)
                   d == f.ps.done \/ f.ps.sent = c.n            \* `if p.numRecordsSent == p.options.MaxRows { Done = true }`
               IN [ps |-> [f.ps EXCEPT !.done = d], out |-> Bt(f.out), eof |-> d]
     [] c.op = "tail" ->
          IF ~in.nil
          THEN LET buf1 == IF ps.buf.nil \/ Len(in.rows) >= c.n THEN Bt(LastN(in.rows, c.n))
                           ELSE Bt(LastN(ps.buf.rows, c.n - Len(in.rows)) \o in.rows)
               IN [ps |-> [ps EXCEPT !.buf = buf1], out |-> NIL, eof |-> FALSE]
          ELSE IF ps.eof THEN [ps |-> ps, out |-> NIL, eof |-> TRUE]
          ELSE IF ps.buf.nil THEN [ps |-> [ps EXCEPT !.eof = TRUE], out |-> NIL, eof |-> TRUE]
          ELSE LET rv == Bt(Reverse(ps.buf.rows))
               IN [ps |-> [buf |-> rv, eof |-> TRUE], out |-> rv, eof |-> TRUE]
     [] c.op = "dedup" ->
          IF in.nil THEN [ps |-> ps, out |-> NIL, eof |-> TRUE]
          ELSE LET d == DedupFold(c, ps.seen, in.rows, <<>>)
               IN [ps |-> [seen |-> d.seen], out |-> Bt(d.out), eof |-> FALSE]
     [] c.op = "sort" ->
          IF in.nil THEN [ps |-> [ps EXCEPT !.final = TRUE], out |-> ps.acc, eof |-> TRUE]
          ELSE LET s == FirstN(StableSort(c, in.rows), SortLimit(c))
                   a == IF ps.acc.nil THEN s ELSE FirstN(StableMerge(c, ps.acc.rows, s), SortLimit(c))
               IN [ps |-> [ps EXCEPT !.acc = Bt(a)], out |-> NIL, eof |-> FALSE]
     [] c.op = "where" ->
          IF in.nil THEN [ps |-> ps, out |-> NIL, eof |-> TRUE]
          ELSE [ps |-> ps, out |-> Bt(SelectSeq(in.rows, LAMBDA r : RowPred(c, r))), eof |-> FALSE]
     [] c.op = "mvexpand" ->
          IF in.nil THEN [ps |-> ps, out |-> NIL, eof |-> TRUE]
          ELSE [ps |-> ps, out |-> Bt(Concat([i \in 1..Len(in.rows) |-> Expand(c, in.rows[i])])), eof |-> FALSE]
     [] IsPerRow(c) ->
          IF in.nil THEN [ps |-> ps, out |-> NIL, eof |-> TRUE]
          ELSE [ps |-> ps, out |-> Bt([i \in 1..Len(in.rows) |-> RowFn(c, in.rows[i])]), eof |-> FALSE]
     [] c.op = "fillnull" ->        \* no field list: two passes
          IF in.nil THEN [ps |-> ps, out |-> NIL, eof |-> TRUE]
          ELSE IF ps.second THEN [ps |-> ps, out |-> Bt([i \in 1..Len(in.rows) |-> RowFn(c, in.rows[i])]), eof |-> FALSE]
          ELSE [ps |-> ps, out |-> in, eof |-> FALSE]      \* first pass: only learns the columns
     [] c.op = "bin2" ->
          IF in.nil THEN [ps |-> ps, out |-> NIL, eof |-> TRUE]
          ELSE IF ps.second THEN [ps |-> ps, out |-> Bt([i \in 1..Len(in.rows) |-> Bin2Row(c, ps.mn, ps.mx, in.rows[i])]), eof |-> FALSE]
          ELSE [ps |-> MinMaxFold(c, ps, in.rows), out |-> in, eof |-> FALSE]
     [] c.op = "streamstats" ->
          IF in.nil THEN [ps |-> ps, out |-> NIL, eof |-> TRUE]
          ELSE LET st0 == IF SSCarry THEN ps ELSE [ps EXCEPT !.idx = 0, !.key = KNONE]   \* streamstatscommand.go:112-114
                   f == SSFold(c, st0, in.rows, <<>>)
               IN [ps |-> f.st, out |-> Bt(f.out), eof |-> FALSE]
     [] c.op \in {"top", "rare", "stats"} ->
          IF ps.gave THEN [ps |-> ps, out |-> NIL, eof |-> TRUE]
          ELSE IF ~in.nil THEN [ps |-> [ps EXCEPT !.acc = AggFold(c, ps.acc, in.rows), !.any = TRUE], out |-> NIL, eof |-> FALSE]
          ELSE [ps |-> [ps EXCEPT !.gave = TRUE], out |-> AggFinal(c, ps), eof |-> TRUE]

(* processor.GetFinalResultIfExists *)
GetFinal(c, ps) == CASE c.op = "tail" -> [exists |-> ps.eof, out |-> ps.buf]
                     [] c.op = "sort" -> [exists |-> ps.final, out |-> ps.acc]
                     [] c.op \in {"top", "rare", "stats"} -> [exists |-> ps.gave /\ ps.any, out |-> AggFinal(c, ps)]   \* hasFinalResult
                     [] OTHER -> [exists |-> FALSE, out |-> NIL]
(* processor.Rewind *)
RewindPS(c, ps) == CASE c.op = "head" -> [sent |-> 0]
                     [] c.op = "headx" -> [sent |-> 0, done |-> FALSE]
                     [] c.op = "dedup" -> [seen |-> <<>>]
                     [] c.op = "streamstats" -> InitPS(c)
                     [] c.op = "fillnull" /\ c.fs = {} -> [second |-> TRUE]
                     [] c.op = "bin2" -> [ps EXCEPT !.second = TRUE]
                     [] OTHER -> ps

-----------------------------------------------------------------------------
(* ---------- the Fetch loop ---------- *)
VARIABLES chain, table, sizes, eofLast,   \* the behaviour's parameters (chosen in the first steps)
          st,                             \* [pos, exh, fp, ps]: source position, CachedStream.isExhausted,
                                          \* DataProcessor.finishedFirstPass, processor state - per DataProcessor
          outs,                           \* sequence of the batches the last DataProcessor returned
          pc
vars == <<chain, table, sizes, eofLast, st, outs, pc>>

N == Len(chain)
RECURSIVE BatchesFrom(_, _)
BatchesFrom(tb, sz) == IF sz = <<>> THEN <<>> ELSE <<SubSeq(tb, 1, Head(sz))>> \o BatchesFrom(SubSeq(tb, Head(sz) + 1, Len(tb)), Tail(sz))
Batches == BatchesFrom(table, sizes)

(* the synthetic source Streamer: batch after batch, then (nil, EOF); Rewind starts over *)
SrcFetch(s) == IF s.pos >= Len(sizes) THEN [st |-> s, out |-> NIL, eof |-> TRUE]
               ELSE [st |-> [s EXCEPT !.pos = @ + 1], out |-> Bt(Batches[s.pos + 1]),
                     eof |-> eofLast /\ s.pos + 1 = Len(sizes)]

RECURSIVE FetchDP(_, _), CachedFetch(_, _), AfterEOF(_, _, _), RewindDP(_, _)
(* CachedStream.Fetch in front of DataProcessor i (its input is DataProcessor i-1, or the source for i = 1) *)
CachedFetch(i, s) == IF s.exh[i] THEN [st |-> s, out |-> NIL, eof |-> TRUE]
                     ELSE LET r == IF i = 1 THEN SrcFetch(s) ELSE FetchDP(i - 1, s)
                          IN IF r.eof THEN [r EXCEPT !.st.exh[i] = TRUE] ELSE r
(* DataProcessor.Rewind: the input streams (recursively), then the processor *)
RewindDP(i, s) == LET up == IF i = 1 THEN [s EXCEPT !.pos = 0] ELSE RewindDP(i - 1, s)
                  IN [up EXCEPT !.exh[i] = FALSE, !.ps[i] = RewindPS(chain[i], up.ps[i])]
AfterEOF(i, s, out) == IF TwoPass(chain[i]) /\ ~s.fp[i]
                       THEN FetchDP(i, RewindDP(i, [s EXCEPT !.fp[i] = TRUE]))
                       ELSE [st |-> s, out |-> out, eof |-> TRUE]
(* DataProcessor.Fetch *)
FetchDP(i, s) ==
   LET fin == GetFinal(chain[i], s.ps[i])
   IN IF fin.exists THEN AfterEOF(i, s, fin.out)
      ELSE LET r == CachedFetch(i, s)
               p == Process(chain[i], r.st.ps[i], r.out)
               s2 == [r.st EXCEPT !.ps[i] = p.ps]
           IN IF p.eof THEN AfterEOF(i, s2, p.out)
              ELSE IF ~p.out.nil /\ (~Bottleneck(chain[i]) \/ (TwoPass(chain[i]) /\ s2.fp[i]))
                   THEN [st |-> s2, out |-> p.out, eof |-> FALSE]
              ELSE FetchDP(i, s2)

-----------------------------------------------------------------------------
(* all ways to cut n rows into successive batches, with up to MaxEmpty empty batches in between *)
RECURSIVE Compositions(_)
Compositions(n) == IF n = 0 THEN {<<>>} ELSE UNION {{<<k>> \o c : c \in Compositions(n - k)} : k \in 1..n}
InsertZero(c) == {SubSeq(c, 1, i) \o <<0>> \o SubSeq(c, i + 1, Len(c)) : i \in 0..Len(c)}
RECURSIVE WithEmpties(_, _)
WithEmpties(S, k) == IF k = 0 THEN S ELSE S \cup WithEmpties(UNION {InsertZero(c) : c \in S}, k - 1)
Chunkings(n) == WithEmpties(Compositions(n), MaxEmpty)

Init == /\ chain = <<>> /\ table = <<>> /\ sizes = <<>> /\ eofLast = FALSE
        /\ st = [pos |-> 0, exh |-> <<>>, fp |-> <<>>, ps |-> <<>>] /\ outs = <<>> /\ pc = "chain"
PickChain == /\ pc = "chain" /\ chain' \in Chains /\ pc' = "rows"
             /\ UNCHANGED <<table, sizes, eofLast, st, outs>>
AddRow == /\ pc = "rows" /\ Len(table) < MaxRows
          /\ \E r \in RowVals : table' = Append(table, r)
          /\ UNCHANGED <<chain, sizes, eofLast, st, outs, pc>>
PickChunking == /\ pc = "rows"
                /\ sizes' \in Chunkings(Len(table))
                /\ eofLast' \in (IF Len(sizes') = 0 THEN {FALSE} ELSE EofModes)
                /\ st' = [pos |-> 0, exh |-> [i \in 1..N |-> FALSE], fp |-> [i \in 1..N |-> FALSE],
                          ps |-> [i \in 1..N |-> InitPS(chain[i])]]
                /\ pc' = "run"
                /\ UNCHANGED <<chain, table, outs>>
(* one call of Fetch() on the last DataProcessor of the chain, as GetFullResult does until io.EOF *)
FetchTop == /\ pc = "run"
            /\ LET r == FetchDP(N, st)
               IN /\ st' = r.st
                  /\ outs' = IF r.out.nil THEN outs ELSE Append(outs, r.out.rows)
                  /\ pc' = IF r.eof THEN "done" ELSE "run"
            /\ UNCHANGED <<chain, table, sizes, eofLast>>
Next == PickChain \/ AddRow \/ PickChunking \/ FetchTop
Spec == Init /\ [][Next]_vars

-----------------------------------------------------------------------------
(* ---------- reference semantics: the set of admissible outputs for the whole input ---------- *)
PermSeqs(s) == {[i \in 1..Len(s) |-> s[p[i]]] : p \in {q \in [1..Len(s) -> 1..Len(s)] : \A i, j \in 1..Len(s) : i # j => q[i] # q[j]}}
SortedBy(c, s) == \A i \in 1..(Len(s) - 1) : ~RowLess(c, s[i + 1], s[i])
RECURSIVE RunLen(_, _, _)
(* number of rows j <= i, going back from i, with the same group as row i, stopping at the first different one *)
RunLen(c, rows, i) == IF i = 0 THEN 0 ELSE 1 + (IF i > 1 /\ SSGroup(c, rows[i - 1]) = SSGroup(c, rows[i]) THEN RunLen(c, rows, i - 1) ELSE 0)
SSRef(c, rows, i) ==    \* streamstats value of row i
   LET lo0 == IF c.win = 0 THEN 1 ELSE Max2(1, i - c.win + 1)
       lo == IF c.roc THEN Max2(lo0, i - RunLen(c, rows, i) + 1) ELSE lo0
       J == {j \in lo..i : SSGroup(c, rows[j]) = SSGroup(c, rows[i])}
       V == {j \in J : SSValue(c, rows[j]) # NULL}
   IN IF c.fn = "count" THEN Cardinality(J)
      ELSE IF V = {} /\ c.win = 0 THEN NULL ELSE SumSeq([k \in 1..Cardinality(V) |-> SSValue(c, rows[SetToSeq(V)[k]])])
DedupRef(c, rows) ==
   LET Keep(i) == IF HasNullKey(c, rows[i]) THEN c.keepempty
                  ELSE LET same == {j \in 1..(i - 1) : ~HasNullKey(c, rows[j]) /\ DedupKey(c, rows[j]) = DedupKey(c, rows[i])}
                           lastOther == {j \in 1..(i - 1) : ~HasNullKey(c, rows[j]) /\ DedupKey(c, rows[j]) # DedupKey(c, rows[i])}
                           from == IF c.consec /\ lastOther # {} THEN CHOOSE m \in lastOther : \A x \in lastOther : x <= m ELSE 0
                       IN Cardinality({j \in same : j > from}) < c.lim
       idx == {i \in 1..Len(rows) : Keep(i) \/ c.keepevents}
       ord == SetToSortSeq(idx, LAMBDA x, y : x < y)
   IN [k \in 1..Cardinality(idx) |-> IF Keep(ord[k]) THEN rows[ord[k]] ELSE Nulled(c, rows[ord[k]])]
AggRef(c, rows) ==   \* set of admissible result sequences of stats / top / rare
   LET acc == AggFold(c, <<>>, rows)
       full == IF c.op = "stats" /\ c.by = "" /\ acc = <<>> THEN {<<AggRow(c, <<GALL, [cnt |-> 0, sum |-> 0]>>)>>}
               ELSE {[i \in 1..Len(s) |-> AggRow(c, s[i])] : s \in {p \in PermSeqs(acc) : AggOrdered(c, p)}}
   IN {FirstN(s, AggLimit(c)) : s \in full}
HeadXRef(c, rows) ==
   LET bad == {i \in 1..Len(rows) : ~HeadGoesOn(c, rows[i])}
       t == IF bad = {} THEN Len(rows) + 1 ELSE CHOOSE m \in bad : \A x \in bad : m <= x
       run == SubSeq(rows, 1, t - 1)
   IN FirstN(IF t <= Len(rows) /\ c.keeplast THEN Append(run, rows[t]) ELSE run, c.n)
Sem(c, rows) ==
   CASE c.op = "head" -> {FirstN(rows, c.n)}
     [] c.op = "headx" -> {HeadXRef(c, rows)}
     [] c.op = "tail" -> {Reverse(LastN(rows, c.n))}
     [] c.op = "dedup" -> {DedupRef(c, rows)}
     [] c.op = "sort" -> {FirstN(s, SortLimit(c)) : s \in {p \in PermSeqs(rows) : SortedBy(c, p)}}
     [] c.op = "where" -> {SelectSeq(rows, LAMBDA r : RowPred(c, r))}
     [] c.op = "mvexpand" -> {Concat([i \in 1..Len(rows) |-> Expand(c, rows[i])])}
     [] c.op = "fillnull" -> {[i \in 1..Len(rows) |-> RowFn(c, rows[i])]}
     [] IsPerRow(c) -> {[i \in 1..Len(rows) |-> RowFn(c, rows[i])]}
     [] c.op = "bin2" -> LET vs == {Get(rows[i], c.f) : i \in 1..Len(rows)} \ {NULL}
                             mn == IF vs = {} THEN 0 ELSE CHOOSE m \in vs : \A x \in vs : m <= x
                             mx == IF vs = {} THEN 0 ELSE CHOOSE m \in vs : \A x \in vs : m >= x
                         IN {[i \in 1..Len(rows) |-> Bin2Row(c, mn, mx, rows[i])]}
     [] c.op = "streamstats" -> {[i \in 1..Len(rows) |-> Put(rows[i], c.g, SSRef(c, rows, i))]}
     [] c.op \in {"top", "rare", "stats"} ->
          (* over an empty input: no rows; for an aggregate without by-clause the statement does not fix whether the
             single row (count = 0) appears - both are admitted here, and c06.py separately demands that a stream
             of zero batches and a stream of one empty batch give the same answer *)
          IF rows = <<>> THEN (IF c.op = "stats" /\ c.by = "" THEN {<<>>} \cup AggRef(c, rows) ELSE {<<>>}) ELSE AggRef(c, rows)
RECURSIVE SemFrom(_, _, _)
SemFrom(ch, i, S) == IF i > Len(ch) THEN S ELSE SemFrom(ch, i + 1, UNION {Sem(ch[i], r) : r \in S})
SemChain(ch, tb) == SemFrom(ch, 1, {tb})

(* ---------- several upstream chains ----------
   CanParallelSearch (queryprocessor.go:135): the chain is cloned GOMAXPROCS times up to its first bottleneck
   command when no command before it depends on the input order and one of them (the bottleneck included) ignores
   it; the clones pull batches from the shared searcher in whatever order the goroutines run and are merged
   (mergeProcessor / fetchFromAnyStream).  The merge itself is not modelled operationally; what TLC checks is that
   the reference semantics - the oracle the harness uses for runs with two upstream streams - does not depend on how
   the rows are distributed over the streams. *)
InputOrderMatters(c) == c.op \in {"head", "headx", "tail", "dedup", "streamstats"}
IgnoresInputOrder(c) == c.op \in {"sort", "stats", "top", "rare"}
RECURSIVE CanSplitFrom(_, _, _)
CanSplitFrom(ch, i, cs) == IF i > Len(ch) THEN FALSE
                           ELSE IF InputOrderMatters(ch[i]) THEN FALSE
                           ELSE IF Bottleneck(ch[i]) THEN cs \/ IgnoresInputOrder(ch[i])
                           ELSE CanSplitFrom(ch, i + 1, cs \/ IgnoresInputOrder(ch[i]))
ParSplittable(ch) == CanSplitFrom(ch, 1, FALSE)
Assignments(n) == [1..n -> {1, 2}]
Part(tb, asg, k) == SelectSeq([i \in 1..Len(tb) |-> <<asg[i], tb[i]>>], LAMBDA x : x[1] = k)
Rows2(tb, asg, k) == [i \in 1..Len(Part(tb, asg, k)) |-> Part(tb, asg, k)[i][2]]
SplitInvariant == (pc = "rows" /\ ParSplittable(chain)) =>
                     \A asg \in Assignments(Len(table)) :
                        SemChain(chain, Rows2(table, asg, 1) \o Rows2(table, asg, 2)) = SemChain(chain, table)

(* ---------- the property ---------- *)
Out == Concat(outs)
ChunkingInvariant == pc = "done" => Out \in SemChain(chain, table)
(* a streaming prefix is never taken back: what has left the pipeline is a prefix of some admissible output *)
PrefixOK == pc \in {"run", "done"} => \E o \in SemChain(chain, table) : Len(Out) <= Len(o) /\ SubSeq(o, 1, Len(Out)) = Out
TypeOK == pc \in {"chain", "rows", "run", "done"}
=============================================================================
