SPECIFICATION Spec
CONSTANTS
  Tenants <- T2
  Keys <- K2
  Ops <- OpsAll
  MaxOps = 4
  MaxRestarts = 1
  Strict = FALSE
  Policy <- PolUpsert
  ReloadSkips <- NoTenants
  CleanFlush = "none"
CHECK_DEADLOCK FALSE
INVARIANTS ReadsLastWritten Durable NothingInvented TypeOK
PROPERTIES Isolation
