---------------------------- MODULE GorillaConsts --------------------------
(* Model-checking / generation constants for Gorilla (negative numbers cannot
   be written in a .cfg). *)
EXTENDS Integers
\* every boundary of compressTimestamp's case table, both sides, plus the 32-bit class
DodsAll == {0, 1, -1, 64, 65, -63, -64, 256, 257, -255, -256, 2048, 2049, -2047, -2048, 100000, -100000}
DodsZero == {0}
\* leading/trailing zero counts around the 5-bit field limit (31/32), mantissa edge (12/52), extremes
LeadsAll == {0, 1, 12, 31, 32, 33, 52, 63}
TrailsAll == {0, 1, 20, 31, 32, 52, 63}
LeadsDeep == {0, 1, 11, 12, 31, 32, 33, 52, 62, 63}
TrailsDeep == {0, 1, 20, 31, 32, 51, 52, 63}
DodsMix == {0, 65, -2048, 100000}
LeadsMix == {0, 31, 32}
TrailsMix == {0, 31, 32}
LeadsOne == {12}
TrailsOne == {20}
=============================================================================
