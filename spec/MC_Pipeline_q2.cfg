SPECIFICATION Spec
CONSTANTS
  Chains <- Pairs
  RowVals <- RowsSmall
  MaxRows = 3
  MaxEmpty = 0
  EofModes <- BoolF
  SSCarry = TRUE
INVARIANTS ChunkingInvariant PrefixOK TypeOK
CHECK_DEADLOCK FALSE
