------------------------- MODULE Gen_SearchSemantics -------------------------
(* Case generator for C02: one TLC state per case, every state is written as one
   JSON line (CONSTRAINT Emit).  Mode selects what is enumerated:
     "ds"    the dataset and the leaf tuples (one line)
     "leaf"  every comparison leaf  col op literal  of the full product
             (columns x literals x operators that SPL can express) and every
             free-text leaf, over the whole time range: must / may id sets, and for
             numeric literals the ids whose field is numeric (where-stage relation R3)
     "expr"  every depth <= 2 expression over every leaf tuple, whole range
     "range" the four leaves of tuple 1 and their negations over every [lo,hi] of RangeBounds *)
EXTENDS SearchSemantics, SearchSemanticsConsts, Json, IOUtils
CONSTANT Mode
VARIABLE c

LO == 0
HI == 90
CmpLeaves == {Cmp(cl, op, l) : cl \in Cols, op \in Ops, l \in NumLitSet}
             \cup {Cmp(cl, op, l) : cl \in Cols, op \in EqOps, l \in StrLitSet}
TermLeaves == {Term(l) : l \in TermLits}
Init == CASE Mode = "ds"    -> c = [kind |-> "ds"]
          [] Mode = "leaf"  -> c \in [kind : {"leaf"}, leaf : CmpLeaves \cup TermLeaves]
          [] Mode = "expr"  -> c \in [kind : {"expr"}, ls : DOMAIN LeafSets, e : Tops(4)]
          [] Mode = "range" -> c \in [kind : {"range"}, ls : {1}, e : {LeafTop(i) : i \in 1..4} \cup {[o |-> "not", L |-> LeafTop(i).L, R |-> LeafTop(i).L] : i \in 1..4},
                                      lo : RangeBounds, hi : RangeBounds]
Next == FALSE /\ UNCHANGED c
GenSpec == Init /\ [][Next]_c

LeafMust(lf) == {ev.id : ev \in {x \in DS : LeafAdm(lf, x, Cols) = {TRUE}}}
LeafMay(lf)  == {ev.id : ev \in {x \in DS : TRUE \in LeafAdm(lf, x, Cols)}}
NumIds(lf)   == IF lf.t = "cmp" THEN {ev.id : ev \in {x \in DS : x.f[lf.col].k \in NumFieldKinds}} ELSE {}
HasIds(lf)   == IF lf.t = "cmp" THEN {ev.id : ev \in {x \in DS : x.f[lf.col].k # "absent"}} ELSE {}
KindOf(lf)   == IF lf.t = "cmp" THEN [i \in {ev.id : ev \in DS} |-> (CHOOSE ev \in DS : ev.id = i).f[lf.col].k] ELSE <<>>

Line == CASE c.kind = "ds"    -> [kind |-> "ds", events |-> DS, leafsets |-> LeafSets, lo |-> LO, hi |-> HI]
          [] c.kind = "leaf"  -> [kind |-> "leaf", leaf |-> c.leaf, lo |-> LO, hi |-> HI,
                                  must |-> LeafMust(c.leaf), may |-> LeafMay(c.leaf),
                                  numids |-> NumIds(c.leaf), hasids |-> HasIds(c.leaf)]
          [] c.kind = "expr"  -> [kind |-> "expr", ls |-> c.ls, e |-> c.e, lo |-> LO, hi |-> HI,
                                  must |-> Must(c.e, LeafSets[c.ls], DS, LO, HI, Cols),
                                  may |-> May(c.e, LeafSets[c.ls], DS, LO, HI, Cols)]
          [] c.kind = "range" -> [kind |-> "range", ls |-> c.ls, e |-> c.e, lo |-> c.lo, hi |-> c.hi,
                                  must |-> Must(c.e, LeafSets[c.ls], DS, c.lo, c.hi, Cols),
                                  may |-> May(c.e, LeafSets[c.ls], DS, c.lo, c.hi, Cols),
                                  universe |-> Universe(DS, c.lo, c.hi)]
Emit == Serialize(ToJson(Line) \o "\n", "behaviours.ndjson",
                  [format |-> "TXT", charset |-> "UTF-8", openOptions |-> <<"WRITE", "CREATE", "APPEND">>]).exitValue = 0
=============================================================================
