SPECIFICATION ScenSpec
CONSTANTS
  USeq <- UR
  Scenarios <- ScenR
  Grids = {"pow"}
  Orders = {"time"}
  NT = 3
  MaxOps = 0
  Tails <- TailsR
  Queries <- QueriesR
  RegisterPerSegment = TRUE
CONSTRAINT EmitScenario
CHECK_DEADLOCK FALSE
