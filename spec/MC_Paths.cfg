SPECIFICATION Spec
CONSTANTS
  MaxLen = 4
  GuardMode = "all"
  CacheBeforeGuard <- NoApis
  NormAfterGuard <- NoApis
  Classes <- CoreClasses
INVARIANTS Confined TypeOK
CHECK_DEADLOCK FALSE
