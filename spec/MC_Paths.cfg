SPECIFICATION Spec
CONSTANTS
  MaxLen = 4
  Guard = TRUE
INVARIANTS Confined TypeOK
CHECK_DEADLOCK FALSE
