------------------------------ MODULE TracesPick ------------------------------
(* Which forests the exhaustive generator emits: those whose hash is 0 modulo PickMod.  The
   check overwrites this module in its staging directory with VERIF_SEED-derived values. *)
PickSeed == 1
PickMod == 300        \* forests with a malformation
PickModNone == 20     \* forests without (there are far fewer of them)
=============================================================================
