SPECIFICATION GenSpec
CONSTANTS
  NSEG = 2
  NBLK = 2
  R = 2
  T = 4
  MAXB = 1
  RF = FALSE
CONSTRAINT Emit
CHECK_DEADLOCK FALSE
