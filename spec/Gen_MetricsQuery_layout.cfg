SPECIFICATION Spec
CONSTANTS
  USeq <- UH
  Scenarios <- ScenAbstract
  Grids = {"pow"}
  Orders = {"time", "series"}
  NT = 3
  MaxOps = 2
  Tails <- TailsH
  Queries <- QueriesMC
  RegisterPerSegment = TRUE
CONSTRAINT EmitLayout
CHECK_DEADLOCK FALSE
