-------------------------------- MODULE Traces --------------------------------
(* C12 - trace views agree with the ingested spans.

   A span is [id, trace, span, parent, service, op, status, start, dur]:
     id      ordinal of the span in the forest (unique; also names the operation "op<id>")
     span    its span id (unique in a well-formed trace, may collide - DupInTrace / DupAcross)
     parent  span id of the parent, 0 = none (root), Missing = an id no span carries
   The four views are pure operators on a set of spans, written after the handlers of
   pkg/segment/tracing/handler/tracehandler.go:
     TraceList(S, w)   ProcessSearchTracesRequest: one entry per trace whose root span lies in
                       the window, with the root's service/operation, span count, error count
     Tree(S, t)        ProcessGanttChartRequest + BuildSpanTree: every span beneath its parent
     DepGraph(S)       MakeTracesDependancyGraph: parent->child pairs that cross services
     RED(S, svc)       ProcessRedTracesIngest: rate / error % / latency percentiles of the
                       entry spans of a service (entry = root, or parent in another service)
   For malformed traces (several roots, missing parent, cycle, duplicate span id inside a
   trace) the statement only demands "an error or a partial view without foreign spans";
   the operators suffixed Max / Poss / Def give the bounds of that admissible set.

   The state machine builds a forest span by span in a canonical order (new trace ids and
   new services are introduced in increasing order, so isomorphic forests are built once),
   applies at most one malformation, and then ingests the spans in one of three orders cut
   into arbitrary consecutive batches (one OTLP export request each). *)
EXTENDS Integers, Sequences, FiniteSets, TLC, FiniteSetsExt, SequencesExt

CONSTANTS MaxSpans, MaxTraces, Services,   \* Services: a sequence, e.g. <<"A","B","C">>
          MaxErrors,                       \* at most this many error spans per forest
          Malformations,                   \* subset of MalKinds that may be applied
          Mode,                            \* "forest": stop after the forest; "plan": abstract chain + ingest plans; "both"
          Orders,                          \* subset of {"fwd","rev","rot"}
          PageSize,                        \* result page size of the trace list (50 in the code)
          MinSpans,                        \* a forest has at least this many spans (biases the simulation runs)
          MinEntries,                      \* 0, or: some service has at least this many entry spans (RED-rich forests)
          ResolveInTrace                   \* TRUE: a parent id is resolved among the spans of the same trace.
                                           \* FALSE (model sensitivity run): among all spans, as a map keyed
                                           \* by span id alone would do

VARIABLES forest,   \* sequence of spans (build order)
          phase,    \* "build" | "mal" | "ingest" | "done"
          mal,      \* the malformation applied: [kind, i, j]
          order, pending, stored, batches, flushEach
vars == <<forest, phase, mal, order, pending, stored, batches, flushEach>>

Missing == 99
MalKinds == {"missingparent", "secondroot", "cycleroot", "cycleinner", "selfparent", "dupintrace", "dupacross", "skew"}
NoMal == [kind |-> "none", i |-> 0, j |-> 0]
\* durations (ms) per span ordinal: values repeat (a real service has many requests of the same whole-millisecond
\* latency), so the entry spans of a service form multisets like {10, 10, 10, 30}
Durs == <<40, 10, 30, 10, 20, 10, 30, 20, 40, 10>>
SvcIdx(s) == CHOOSE k \in DOMAIN Services : Services[k] = s

(* ------------------------------------------------------------------ span sets *)
F == {forest[k] : k \in DOMAIN forest}
TraceIds(S) == {s.trace : s \in S}
SpansOf(S, t) == {s \in S : s.trace = t}
Roots(S, t) == {s \in SpansOf(S, t) : s.parent = 0}
ParentsOf(S, c) == {p \in (IF ResolveInTrace THEN SpansOf(S, c.trace) ELSE S) : p.span = c.parent}
RECURSIVE Reach(_, _)
Reach(S, Fr) == LET nxt == Fr \cup {c \in S : \E p \in Fr : c.trace = p.trace /\ c.parent = p.span /\ c.parent # 0}
                IN IF nxt = Fr THEN Fr ELSE Reach(S, nxt)
WellFormedTrace(S, t) ==
  /\ Cardinality(Roots(S, t)) = 1
  /\ \A s, u \in SpansOf(S, t) : s # u => s.span # u.span
  /\ \A c \in SpansOf(S, t) : c.parent # 0 => Cardinality(ParentsOf(S, c)) = 1
  /\ Reach(SpansOf(S, t), Roots(S, t)) = SpansOf(S, t)
WellFormed(S) == \A t \in TraceIds(S) : WellFormedTrace(S, t)

(* ------------------------------------------------------------------ view: trace list *)
RootOf(S, t) == CHOOSE r \in Roots(S, t) : TRUE
InWindow(r, w) == w.lo <= r.start /\ r.start + r.dur <= w.hi
TraceEntry(S, t) ==
  LET r == RootOf(S, t) IN
  [trace |-> t, service |-> r.service, op |-> r.op,
   nspans |-> Cardinality(SpansOf(S, t)),
   nerr |-> Cardinality({s \in SpansOf(S, t) : s.status = "error"})]
TraceList(S, w) == {TraceEntry(S, t) : t \in {tt \in TraceIds(S) : WellFormedTrace(S, tt) /\ InWindow(RootOf(S, tt), w)}}
(* pages of a listing (the order of the listing is not fixed by the property) *)
PageOf(sq, p) == SubSeq(sq, (p - 1) * PageSize + 1, IF p * PageSize < Len(sq) THEN p * PageSize ELSE Len(sq))
NumPages(sq) == (Len(sq) + PageSize - 1) \div PageSize

(* ------------------------------------------------------------------ view: span tree *)
Tree(S, t) == {[id |-> c.id, span |-> c.span, parent |-> c.parent] : c \in SpansOf(S, t)}
(* admissible links of a partial view: child -> parent pairs that exist inside the trace *)
LinksMax(S, t) == {[child |-> cp[1].id, parent |-> cp[2].id] :
                     cp \in {x \in SpansOf(S, t) \X SpansOf(S, t) : x[1].parent # 0 /\ x[2] \in ParentsOf(S, x[1])}}

(* ------------------------------------------------------------------ view: dependency graph *)
CrossPairs(S) == {pc \in S \X S : /\ pc[1].trace = pc[2].trace /\ pc[2].parent # 0
                                  /\ pc[2].parent = pc[1].span /\ pc[1].service # pc[2].service}
DepEdges(S) == {<<pc[1].service, pc[2].service>> : pc \in CrossPairs(S)}
DepCount(S, e) == Cardinality({pc \in CrossPairs(S) : pc[1].service = e[1] /\ pc[2].service = e[2]})

(* ------------------------------------------------------------------ view: RED *)
IsEntry(S, c) == c.parent = 0 \/ \A p \in ParentsOf(S, c) : p.service # c.service       \* what the handler computes
DefEntry(S, c) == c.parent = 0 \/ (ParentsOf(S, c) # {} /\ \A p \in ParentsOf(S, c) : p.service # c.service)
PossEntry(S, c) == c.parent = 0 \/ ParentsOf(S, c) = {} \/ \E p \in ParentsOf(S, c) : p.service # c.service
Entries(S, svc) == {c \in S : c.service = svc /\ IsEntry(S, c)}
EntriesDef(S, svc) == {c \in S : c.service = svc /\ DefEntry(S, c)}
EntriesPoss(S, svc) == {c \in S : c.service = svc /\ PossEntry(S, c)}
ServicesIn(S) == {s.service : s \in S}
SortedDurs(E) == SortSeq(SetToSeq({<<c.dur, c.id>> : c \in E}), LAMBDA a, b : a[1] < b[1] \/ (a[1] = b[1] /\ a[2] < b[2]))
(* the p-th percentile lies between the two order statistics around rank p*(n-1)/100 *)
PctLo(E, p) == SortedDurs(E)[(p * (Cardinality(E) - 1)) \div 100 + 1][1]
PctHi(E, p) == SortedDurs(E)[(p * (Cardinality(E) - 1) + 99) \div 100 + 1][1]
(* position of the rank between the two, in hundredths.  The usual definitions of "the p-th percentile" are functions of
   (lo, hi, frac): lower = lo, higher = hi, nearest = IF frac < 50 THEN lo ELSE hi, midpoint = (lo+hi)/2, linear =
   lo + (hi-lo)*frac/100 (what FindPercentileData computes).  Any ONE of them is admissible, used for every service
   and every percentile. *)
PctFrac(E, p) == (p * (Cardinality(E) - 1)) % 100

(* ------------------------------------------------------------------ building the forest *)
NextId == Len(forest) + 1
TracesUsed == {forest[k].trace : k \in DOMAIN forest}
SvcsUsed == {SvcIdx(forest[k].service) : k \in DOMAIN forest}
NErr == Cardinality({k \in DOMAIN forest : forest[k].status = "error"})
Max0(S) == IF S = {} THEN 0 ELSE Max(S)
MkSpan(t, par, svc, st, start) ==
  [id |-> NextId, trace |-> t, span |-> NextId, parent |-> par, service |-> svc, op |-> NextId, status |-> st,
   start |-> start, dur |-> Durs[NextId]]

Init == /\ forest = <<>> /\ phase = "build" /\ mal = NoMal
        /\ order = "fwd" /\ pending = <<>> /\ stored = {} /\ batches = <<>> /\ flushEach = FALSE

(* a new trace starts with its root; a span of an existing trace hangs beneath any earlier span of it *)
AddRoot ==
  /\ phase = "build" /\ Len(forest) < MaxSpans /\ Cardinality(TracesUsed) < MaxTraces
  /\ \E k \in 1 .. (IF Max0(SvcsUsed) < Len(Services) THEN Max0(SvcsUsed) + 1 ELSE Len(Services)) :
     \E st \in (IF NErr < MaxErrors THEN {"ok", "error"} ELSE {"ok"}) :
        forest' = Append(forest, MkSpan(Max0(TracesUsed) + 1, 0, Services[k], st, 1000 * (Max0(TracesUsed) + 1)))
  /\ UNCHANGED <<phase, mal, order, pending, stored, batches, flushEach>>
AddChild ==
  /\ phase = "build" /\ Len(forest) < MaxSpans
  /\ \E pk \in DOMAIN forest :
     \E k \in 1 .. (IF Max0(SvcsUsed) < Len(Services) THEN Max0(SvcsUsed) + 1 ELSE Len(Services)) :
     \E st \in (IF NErr < MaxErrors THEN {"ok", "error"} ELSE {"ok"}) :
        forest' = Append(forest, MkSpan(forest[pk].trace, forest[pk].span, Services[k], st, forest[pk].start + NextId))
  /\ UNCHANGED <<phase, mal, order, pending, stored, batches, flushEach>>
(* in "plan" mode only the number of spans matters: a chain *)
AddChain ==
  /\ phase = "build" /\ Len(forest) < MaxSpans
  /\ forest' = Append(forest, MkSpan(1, Len(forest), Services[1], "ok", 1000 + NextId))
  /\ UNCHANGED <<phase, mal, order, pending, stored, batches, flushEach>>
EndBuild ==
  /\ phase = "build" /\ Len(forest) >= MinSpans
  /\ (MinEntries = 0 \/ \E svc \in ServicesIn(F) : Cardinality(Entries(F, svc)) >= MinEntries)
  /\ phase' = "mal"
  /\ \E o \in Orders, fe \in BOOLEAN :
       /\ order' = (IF Mode = "forest" THEN order ELSE o) /\ flushEach' = (IF Mode = "forest" THEN flushEach ELSE fe)
  /\ UNCHANGED <<forest, mal, pending, stored, batches>>

(* ------------------------------------------------------------------ at most one malformation *)
Desc(k) == Reach(F, {forest[k]}) \ {forest[k]}
SetField(k, fld, v) == [forest EXCEPT ![k] = [@ EXCEPT ![fld] = v]]
Malform(kind, i, j) ==
  \/ /\ kind = "missingparent" /\ forest[i].parent # 0 /\ forest' = SetField(i, "parent", Missing)
  \/ /\ kind = "secondroot" /\ forest[i].parent # 0 /\ forest' = SetField(i, "parent", 0)
  \/ /\ kind = "cycleroot" /\ forest[i].parent = 0 /\ forest[j] \in Desc(i) /\ forest' = SetField(i, "parent", forest[j].span)
  \/ /\ kind = "cycleinner" /\ forest[i].parent # 0 /\ forest[j] \in Desc(i) /\ forest' = SetField(i, "parent", forest[j].span)
  \/ /\ kind = "selfparent" /\ forest[i].parent # 0 /\ forest' = SetField(i, "parent", forest[i].span)
  \/ /\ kind = "dupintrace" /\ i < j /\ forest[i].trace = forest[j].trace /\ forest[j].parent # 0
     /\ forest' = SetField(j, "span", forest[i].span)
  (* legal input: span ids only have to be unique inside a trace.  j takes i's id, j's children follow *)
  \/ /\ kind = "dupacross" /\ i < j /\ forest[i].trace # forest[j].trace
     /\ forest' = [k \in DOMAIN forest |->
                     IF k = j THEN [forest[k] EXCEPT !.span = forest[i].span]
                     ELSE IF forest[k].trace = forest[j].trace /\ forest[k].parent = forest[j].span
                          THEN [forest[k] EXCEPT !.parent = forest[i].span] ELSE forest[k]]
  (* clock skew: the child starts before its parent (and before the root); still a proper tree *)
  \/ /\ kind = "skew" /\ forest[i].parent # 0 /\ forest' = SetField(i, "start", forest[i].start - 2 * NextId - 5)
ApplyMal ==
  /\ phase = "mal" /\ mal = NoMal /\ Mode # "plan"
  /\ \E kind \in Malformations, i \in DOMAIN forest, j \in DOMAIN forest :
       /\ (kind \in {"cycleroot", "cycleinner", "dupintrace", "dupacross"} \/ j = i)
       /\ Malform(kind, i, j)
       /\ mal' = [kind |-> kind, i |-> i, j |-> j]
  /\ phase' = IF Mode = "forest" THEN "done" ELSE "ingest"
  /\ pending' = IF Mode = "forest" THEN pending ELSE forest'
  /\ UNCHANGED <<order, stored, batches, flushEach>>
SkipMal ==
  /\ phase = "mal" /\ mal = NoMal
  /\ phase' = IF Mode = "forest" THEN "done" ELSE "ingest"
  /\ pending' = IF Mode = "forest" THEN pending ELSE forest
  /\ UNCHANGED <<forest, mal, order, stored, batches, flushEach>>

(* ------------------------------------------------------------------ ingest: order and batching *)
Perm(o, n) == CASE o = "fwd" -> [k \in 1 .. n |-> k]
                [] o = "rev" -> [k \in 1 .. n |-> n + 1 - k]
                [] o = "rot" -> [k \in 1 .. n |-> ((k + (n \div 2) - 1) % n) + 1]
Arrival == [k \in 1 .. Len(pending) |-> pending[Perm(order, Len(pending))[k]]]
NIngested == Cardinality(stored)
IngestBatch(n) ==
  /\ phase = "ingest" /\ n >= 1 /\ NIngested + n <= Len(pending)
  /\ stored' = stored \cup {Arrival[k] : k \in (NIngested + 1) .. (NIngested + n)}
  /\ batches' = Append(batches, n)
  /\ phase' = IF NIngested + n = Len(pending) THEN "done" ELSE "ingest"
  /\ UNCHANGED <<forest, mal, order, pending, flushEach>>

Next == \/ (Mode # "plan" /\ (AddRoot \/ AddChild)) \/ (Mode = "plan" /\ AddChain)
        \/ EndBuild \/ ApplyMal \/ SkipMal
        \/ \E n \in 1 .. MaxSpans : IngestBatch(n)
Spec == Init /\ [][Next]_vars

(* ------------------------------------------------------------------ invariants *)
TypeOK ==
  /\ Len(forest) <= MaxSpans /\ phase \in {"build", "mal", "ingest", "done"}
  /\ \A k \in DOMAIN forest : forest[k].id = k /\ forest[k].trace \in 1 .. MaxTraces
  /\ mal.kind \in MalKinds \cup {"none"} /\ stored \subseteq F
AllWindow == [lo |-> -100000, hi |-> 100000]
Built == phase \in {"mal", "ingest", "done"}

(* without a malformation (or with the two legal ones) every trace is a proper tree *)
BuildIsWellFormed == (Built /\ mal.kind \in {"none", "dupacross", "skew"}) => WellFormed(F)
(* ... and every real malformation breaks exactly the trace it was applied to *)
MalformationBreaksOneTrace ==
  (Built /\ mal.kind \in MalKinds \ {"dupacross", "skew"}) =>
     /\ ~WellFormedTrace(F, forest[mal.i].trace)
     /\ \A t \in TraceIds(F) \ {forest[mal.i].trace} : WellFormedTrace(F, t)

(* the span tree of a well-formed trace contains every span of the trace exactly once beneath its parent *)
TreeCoversTrace ==
  Built => \A t \in TraceIds(F) : WellFormedTrace(F, t) =>
     /\ Cardinality(Tree(F, t)) = Cardinality(SpansOf(F, t))
     /\ {n.span : n \in Tree(F, t)} = {s.span : s \in SpansOf(F, t)}
     /\ \A n \in Tree(F, t) : n.parent = 0 \/ Cardinality({m \in Tree(F, t) : m.span = n.parent}) = 1
     /\ Cardinality(LinksMax(F, t)) = Cardinality(SpansOf(F, t)) - 1
(* each trace rooted in the window is listed exactly once; the counts add up to the spans *)
TraceListOnce ==
  (Built /\ WellFormed(F)) =>
     LET L == TraceList(F, AllWindow) IN
     /\ Cardinality(L) = Cardinality(TraceIds(F)) /\ {e.trace : e \in L} = TraceIds(F)
     /\ FoldSet(LAMBDA e, acc : acc + e.nspans, 0, L) = Cardinality(F)
     /\ FoldSet(LAMBDA e, acc : acc + e.nerr, 0, L) = Cardinality({s \in F : s.status = "error"})
     /\ \A e \in L : e.nerr <= e.nspans /\ e.nspans >= 1
(* a window that ends before a trace's root starts does not list it *)
WindowExcludes ==
  (Built /\ WellFormed(F)) => \A t \in TraceIds(F) :
     LET w == [lo |-> -100000, hi |-> RootOf(F, t).start - 1] IN t \notin {e.trace : e \in TraceList(F, w)}
(* the pages of any listing partition it *)
PagesPartition ==
  (Built /\ WellFormed(F)) =>
     LET sq == SetToSeq(TraceList(F, AllWindow)) IN
     /\ \A p, q \in 1 .. NumPages(sq) : p # q => {PageOf(sq, p)[k] : k \in DOMAIN PageOf(sq, p)} \cap {PageOf(sq, q)[k] : k \in DOMAIN PageOf(sq, q)} = {}
     /\ UNION {{PageOf(sq, p)[k] : k \in DOMAIN PageOf(sq, p)} : p \in 1 .. NumPages(sq)} = {sq[k] : k \in DOMAIN sq}
     /\ PageOf(sq, NumPages(sq) + 1) = <<>>
(* the dependency graph counts exactly the parent-child pairs that cross services *)
DepGraphExact ==
  Built => /\ FoldSet(LAMBDA e, acc : acc + DepCount(F, e), 0, DepEdges(F)) = Cardinality(CrossPairs(F))
           /\ \A e \in DepEdges(F) : e[1] # e[2] /\ DepCount(F, e) >= 1
           /\ WellFormed(F) => Cardinality(CrossPairs(F)) =
                Cardinality({c \in F : c.parent # 0 /\ (CHOOSE p \in ParentsOf(F, c) : TRUE).service # c.service})
(* entry spans: the roots and the children of the cross-service pairs, each for its own service *)
REDEntries ==
  Built => /\ \A svc \in ServicesIn(F) : EntriesDef(F, svc) \subseteq Entries(F, svc) /\ Entries(F, svc) \subseteq EntriesPoss(F, svc)
           /\ WellFormed(F) =>
                /\ UNION {Entries(F, svc) : svc \in ServicesIn(F)} = {c \in F : c.parent = 0} \cup {pc[2] : pc \in CrossPairs(F)}
                /\ \A svc \in ServicesIn(F) : EntriesDef(F, svc) = EntriesPoss(F, svc)
                /\ \A svc \in ServicesIn(F) : Entries(F, svc) # {} =>
                     /\ PctLo(Entries(F, svc), 50) <= PctHi(Entries(F, svc), 50)
                     /\ PctLo(Entries(F, svc), 50) <= PctLo(Entries(F, svc), 99)
                     /\ PctHi(Entries(F, svc), 50) <= PctHi(Entries(F, svc), 99)
                     /\ PctLo(Entries(F, svc), 0) = Min({c.dur : c \in Entries(F, svc)})
                     /\ PctHi(Entries(F, svc), 99) = Max({c.dur : c \in Entries(F, svc)})
(* whatever the arrival order and the batching, the stored span set (hence every view) is the forest *)
IngestPlanInvariance ==
  /\ (phase = "done" /\ Mode # "forest") => stored = F /\ FoldLeft(LAMBDA acc, n : acc + n, 0, batches) = Len(forest)
  /\ phase = "ingest" => Cardinality(stored) = FoldLeft(LAMBDA acc, n : acc + n, 0, batches)

View == vars
=============================================================================
