SPECIFICATION GenSpec
CONSTANTS
  NSEG = 2
  NBLK = 2
  R = 2
  T = 4
  MAXB = 3
  RF = TRUE
CONSTRAINT Emit
CHECK_DEADLOCK FALSE
