---------------------------- MODULE Gen_Tenancy ----------------------------
(* Behaviour generator for Tenancy.  The history carries, per operation, the operation itself and
   what the harness needs to judge the real engine after it:
     expand[o][e]  the indexes expression e names for organisation o      (abstract layer)
     ev / vis      live / searchable event ids per organisation and index  (abstract layer)
     impl[o][e]    the ids the transcription of the implementation returns (drift check only)
   Only histories in canonical form are generated (GenNext): an operation that cannot change any
   answer is never taken (flush with nothing buffered, rotate with nothing to rotate, deleting an
   expression that names no index of any organisation, alias to an index the organisation does not have). *)
EXTENDS Tenancy, TenancyConsts, Json, IOUtils
CONSTANT GenMode      \* "plain": the operations of Next; "segs": ingest+rotate as one step instead of a bare rotate (segment-rich histories)
VARIABLE hist
Obs == [op |-> last',
        expand |-> [o \in Orgs |-> [e \in Exprs |-> Expand(o, e)']],
        ev |-> ev', vis |-> vis',
        impl |-> [o \in Orgs |-> [e \in Exprs |-> QueryI(o, e)']],
        segs |-> [o \in Orgs |-> [i \in Indexes |-> Cardinality({r \in rot' : r.org = o /\ r.idx = i})]]]
Buffered == \E o \in Orgs, i \in Indexes : open[o][i] # {}
Unrotated == \E o \in Orgs, i \in Indexes : open[o][i] \cup un[o][i] # {}
GenNext == /\ \/ \E o \in Orgs, i \in Indexes : Ingest(o, i)
              \/ \E o \in Orgs, e \in DelExprs : (\E p \in Orgs : Expand(p, e) \cap (tab[p] \cup vtMem[p]) # {}) /\ DeleteIndex(o, e)
              \/ \E o \in Orgs, a \in Aliases, i \in Indexes : i \in tab[o] /\ <<a, i>> \notin al[o] /\ AddAlias(o, a, i)
              \/ \E o \in Orgs, a \in Aliases, i \in Indexes : RemoveAlias(o, a, i)
              \/ (Buffered /\ Flush)
              \/ (GenMode = "plain" /\ Unrotated /\ Rotate)
              \/ (GenMode = "segs" /\ \E o \in Orgs, i \in Indexes : IngestRotate(o, i))
           /\ hist' = Append(hist, Obs)
GenInit == Init /\ hist = <<>>
GenSpec == GenInit /\ [][GenNext]_<<vars, hist>>
(* a history is written when it is complete: MaxOps operations, or (simulation) when it ends *)
Emit == IF nops = MaxOps
        THEN Serialize(ToJson([steps |-> hist]) \o "\n", "behaviours.ndjson",
                 [format |-> "TXT", charset |-> "UTF-8", openOptions |-> <<"WRITE", "CREATE", "APPEND">>]).exitValue = 0
        ELSE TRUE
=============================================================================
