SPECIFICATION Spec
CONSTANTS
  NSEG = 2
  NBLK = 2
  R = 2
  T = 4
  MAXB = 1
  RF = TRUE
INVARIANTS Sorted NoDupOut NoInvent Complete PrefixFinal HeadOK PagesPartition NoLivelock TypeOK
VIEW View
