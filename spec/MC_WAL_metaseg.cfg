SPECIFICATION Spec
CONSTANTS
  MaxDp = 2
  MaxIdx = 0
  MaxBlk = 1
  MaxCrash = 1
  Faults = FALSE
  LexListing = FALSE
  CrcChecked = TRUE
  FlushBeforeDelete = TRUE
  KeepFlushedBlock = TRUE
  MetaAtomic = TRUE
  StartupIngest = FALSE
  MetaSkipsEmptyBlock = FALSE
  MaxMeta = 2
  NpDp = 0
INVARIANTS TypeOK MetaNoInvent MetaDurable MetaSegDurable
CHECK_DEADLOCK FALSE
