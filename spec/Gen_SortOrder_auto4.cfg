SPECIFICATION Spec
CONSTANTS
  Vals <- ValsAuto4
  Ops <- OpsAuto
  Tol = 0
  MaxRows = 4
  NKeys = 1
  RankByLooks = FALSE
CONSTRAINT Emit
CHECK_DEADLOCK FALSE
