SPECIFICATION Spec
CONSTANTS
  Cols = {"x", "y", "z"}
  MaxCols = 2
  MaxClauses = 2
  Searches = {"*", "x=1"}
  CmdsWithCols = {"fields", "dedup", "dedup 2", "sort", "sort 0", "sort 2", "sort -", "top", "top 0", "rare", "rare 1"}
  CmdsWithBy = {"stats count", "stats sum(x)", "timechart count", "streamstats count", "eventstats count"}
INVARIANT Bound
CONSTRAINT Emit
CHECK_DEADLOCK FALSE
