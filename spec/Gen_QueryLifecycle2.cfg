SPECIFICATION Gen2Spec
CONSTANTS
  Q = {q1, q2}
  MAXRUN = 1
  CAP = 10
  ASYNC = FALSE
  MAXUPD = 0
  CANCELS = 0
  TIMERS = FALSE
  SeesAdmitting = TRUE
CONSTRAINT Emit2
CHECK_DEADLOCK FALSE
