------------------------------ MODULE KVStore ------------------------------
(* C20, keyed-store part.  "Dashboards, folders, saved queries, index aliases,
   lookup files, alerts and contact points otherwise behave as a keyed store:
   after any sequence of create, update, rename, delete and list operations, and
   after a restart, reads return exactly the last written state, and one object's
   or tenant's operations never disturb another's."

   law     the abstract store the statement talks about: law[t][k] = value or NoVal
   mem     what the running process answers from (in-memory maps / files it re-reads)
   disk    the durable image a new process starts from
   phantom per tenant: the durable image contains entries nobody wrote

   Every mutating operation has a set of ADMISSIBLE outcomes by the statement
   (the Adm... operators): a legal operation (create absent, update/delete/rename present onto
   absent) must succeed with exactly its effect; an operation on the wrong
   precondition may be rejected (nothing changes) or accepted with the keyed-store
   effect (overwrite / upsert / no-op).  With Strict = FALSE (unusual names) a legal
   operation may also be rejected by validation (nothing changes).  The real stores
   choose differently (dashboards reject a repeated name, saved queries upsert...);
   Policy records what the code was seen to choose and is only used to pick ONE
   admissible branch when behaviours are generated for replay; the model-checking
   configurations explore all admissible branches.

   Transcription knobs for what the code does around restart (index aliases,
   pkg/virtualtable): ReloadSkips = tenants whose durable image is not loaded into
   memory at start (initializeAliasToIndexMap only walks sub-directories, tenant 0
   lives in the top directory); CleanFlush = "invert" when the clean-shutdown hook
   rewrites the image in another format than the loader reads
   (FlushAliasMapToFile writes alias->index files where index->alias files are
   read).  With ReloadSkips = {} and CleanFlush = "none" the model is the plain
   write-through store every other kind implements. *)
EXTENDS Integers, Sequences, FiniteSets, TLC

CONSTANTS Tenants, Keys, Ops, MaxOps, MaxRestarts, Strict, Policy, ReloadSkips, CleanFlush

NoVal == 0
VARIABLES law, mem, disk, phantom, nOps, nRestarts, last
vars == <<law, mem, disk, phantom, nOps, nRestarts, last>>

Empty == [t \in Tenants |-> [k \in Keys |-> NoVal]]
Has(s, t, k) == s[t][k] # NoVal

Init == /\ law = Empty /\ mem = Empty /\ disk = Empty /\ phantom = [t \in Tenants |-> FALSE]
        /\ nOps = 0 /\ nRestarts = 0 /\ last = [op |-> "init"]

(* effects on one tenant's map *)
Put(m, k, v) == [m EXCEPT ![k] = v]
Del(m, k) == [m EXCEPT ![k] = NoVal]
Ren(m, k, k2) == [m EXCEPT ![k2] = m[k], ![k] = NoVal]

Rej(m) == [ok |-> FALSE, after |-> m]
Acc(m) == [ok |-> TRUE, after |-> m]
Lax(m) == IF Strict THEN {} ELSE {Rej(m)}

(* admissible outcomes, as [ok, after] on the tenant's map m *)
AdmCreate(m, k, v) == IF m[k] = NoVal THEN {Acc(Put(m, k, v))} \cup Lax(m) ELSE {Rej(m), Acc(Put(m, k, v))}
AdmUpdate(m, k, v) == IF m[k] # NoVal THEN {Acc(Put(m, k, v))} \cup Lax(m) ELSE {Rej(m), Acc(Put(m, k, v))}
AdmRename(m, k, k2) == IF m[k] = NoVal THEN {Rej(m), Acc(m)}
                       ELSE IF m[k2] = NoVal THEN {Acc(Ren(m, k, k2))} \cup Lax(m)
                       ELSE {Rej(m), Acc(Ren(m, k, k2))}
AdmDelete(m, k) == IF m[k] # NoVal THEN {Acc(Del(m, k))} ELSE {Rej(m), Acc(m)}

(* the branch the code was seen to take *)
PolCreate(m, k, v) == IF m[k] = NoVal \/ Policy.createExisting THEN Acc(Put(m, k, v)) ELSE Rej(m)
PolUpdate(m, k, v) == IF m[k] # NoVal \/ Policy.updateMissing THEN Acc(Put(m, k, v)) ELSE Rej(m)
PolRename(m, k, k2) == IF m[k] = NoVal THEN (IF Policy.renameMissing THEN Acc(m) ELSE Rej(m))
                       ELSE IF m[k2] = NoVal \/ Policy.renameOnto THEN Acc(Ren(m, k, k2)) ELSE Rej(m)
PolDelete(m, k) == IF m[k] # NoVal THEN Acc(Del(m, k)) ELSE (IF Policy.deleteMissing THEN Acc(m) ELSE Rej(m))

(* a mutating operation: write-through to memory and to the durable image *)
Mutate(op, t, k, k2, v, adm, o) ==
  /\ nOps < MaxOps /\ o \in adm
  /\ law' = [law EXCEPT ![t] = o.after]
  /\ mem' = [mem EXCEPT ![t] = IF o.ok THEN
                 (CASE op = "create" -> Put(mem[t], k, v) [] op = "update" -> Put(mem[t], k, v)
                    [] op = "rename" -> (IF o.after = law[t] THEN mem[t] ELSE Ren(mem[t], k, k2))
                    [] op = "delete" -> Del(mem[t], k)) ELSE mem[t]]
  /\ disk' = [disk EXCEPT ![t] = IF o.ok THEN
                 (CASE op = "create" -> Put(disk[t], k, v) [] op = "update" -> Put(disk[t], k, v)
                    [] op = "rename" -> (IF o.after = law[t] THEN disk[t] ELSE Ren(disk[t], k, k2))
                    [] op = "delete" -> Del(disk[t], k)) ELSE disk[t]]
  /\ nOps' = nOps + 1
  /\ last' = [op |-> op, t |-> t, k |-> k, k2 |-> k2, v |-> v, ok |-> o.ok, adm |-> adm]
  /\ UNCHANGED <<phantom, nRestarts>>

Create(t, k, pick(_, _, _)) == "create" \in Ops /\ LET v == nOps + 1 IN
    \E o \in pick(law[t], k, v) : Mutate("create", t, k, k, v, AdmCreate(law[t], k, v), o)
Update(t, k, pick(_, _, _)) == "update" \in Ops /\ LET v == nOps + 1 IN
    \E o \in pick(law[t], k, v) : Mutate("update", t, k, k, v, AdmUpdate(law[t], k, v), o)
Rename(t, k, k2, pick(_, _, _)) == "rename" \in Ops /\ k # k2 /\
    \E o \in pick(law[t], k, k2) : Mutate("rename", t, k, k2, NoVal, AdmRename(law[t], k, k2), o)
Delete(t, k, pick(_, _)) == "delete" \in Ops /\
    \E o \in pick(law[t], k) : Mutate("delete", t, k, k, NoVal, AdmDelete(law[t], k), o)

(* Restart: clean = the shutdown hook ran first.  The new process answers from
   what it loads from the durable image. *)
Restart(clean) ==
  /\ nRestarts < MaxRestarts
  /\ LET ph == [t \in Tenants |-> phantom[t] \/ (clean /\ CleanFlush = "invert" /\ \E k \in Keys : Has(mem, t, k))]
     IN /\ phantom' = ph
        /\ mem' = [t \in Tenants |-> IF t \in ReloadSkips THEN [k \in Keys |-> NoVal] ELSE disk[t]]
  /\ nRestarts' = nRestarts + 1
  /\ last' = [op |-> "restart", clean |-> clean]
  /\ UNCHANGED <<law, disk, nOps>>

NextAll == \/ \E t \in Tenants, k \in Keys :
                \/ Create(t, k, AdmCreate) \/ Update(t, k, AdmUpdate) \/ Delete(t, k, AdmDelete)
                \/ \E k2 \in Keys : Rename(t, k, k2, AdmRename)
           \/ \E c \in BOOLEAN : Restart(c)
Spec == Init /\ [][NextAll]_vars

NextPol == \/ \E t \in Tenants, k \in Keys :
                \/ Create(t, k, LAMBDA a, b, c : {PolCreate(a, b, c)})
                \/ Update(t, k, LAMBDA a, b, c : {PolUpdate(a, b, c)})
                \/ Delete(t, k, LAMBDA a, b : {PolDelete(a, b)})
                \/ \E k2 \in Keys : Rename(t, k, k2, LAMBDA a, b, c : {PolRename(a, b, c)})
           \/ \E c \in BOOLEAN : Restart(c)
SpecPol == Init /\ [][NextPol]_vars

-----------------------------------------------------------------------------
(* The property: every read path returns the last written state, nothing invented *)
ReadsLastWritten == mem = law
Durable == disk = law
NothingInvented == \A t \in Tenants : ~phantom[t]
(* an operation of tenant t leaves every other tenant's maps alone *)
Isolation == [][\A t \in Tenants : (last'.op \notin {"init", "restart"} /\ last'.t # t)
                                     => (law'[t] = law[t] /\ mem'[t] = mem[t] /\ disk'[t] = disk[t])]_vars
(* the policy branch is always an admissible one (Gen never leaves the law) *)
PolicyAdmissible == \A t \in Tenants, k \in Keys :
   /\ PolCreate(law[t], k, 1) \in AdmCreate(law[t], k, 1) \/ ~Strict
   /\ PolUpdate(law[t], k, 1) \in AdmUpdate(law[t], k, 1) \/ ~Strict
   /\ PolDelete(law[t], k) \in AdmDelete(law[t], k)
   /\ \A k2 \in Keys \ {k} : PolRename(law[t], k, k2) \in AdmRename(law[t], k, k2)
TypeOK == nOps \in 0..MaxOps /\ nRestarts \in 0..MaxRestarts
=============================================================================
