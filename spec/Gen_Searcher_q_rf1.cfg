SPECIFICATION GenSpec
CONSTANTS
  NSEG = 2
  NBLK = 2
  R = 2
  T = 3
  MAXB = 1
  RF = TRUE
CONSTRAINT Emit
CHECK_DEADLOCK FALSE
