SPECIFICATION Spec
CONSTANTS
  Defect = "none"
  Mode = "exprq"
INVARIANTS InvMustMay InvAlgebra InvDeMorgan
CHECK_DEADLOCK FALSE
