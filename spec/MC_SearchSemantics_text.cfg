SPECIFICATION Spec
CONSTANTS
  Defect = "none"
  Mode = "text"
INVARIANTS InvWildLiteral InvWildStar InvTermDefs InvTermVsValue
CHECK_DEADLOCK FALSE
