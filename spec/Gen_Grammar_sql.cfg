SPECIFICATION Spec
CONSTANTS
  Lang = "sql"
  NTok = 20
  MaxLen = 3
INVARIANT LenBound
CONSTRAINT Emit
CHECK_DEADLOCK FALSE
