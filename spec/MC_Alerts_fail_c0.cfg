SPECIFICATION Spec
CONSTANTS
  N = 2
  Cool = 0
  SilLen = 2
  MaxEvals = 6
  MaxDt = 0
  MaxEdits = 0
  MaxSil = 0
  MaxFails = 3
  RowsDelta = 0
INVARIANTS StateLaw NotifLaw HistoryLaw Bookkeeping TypeOK
CHECK_DEADLOCK FALSE
