SPECIFICATION Spec
CONSTANTS
  Chains <- SinglesSS
  RowVals <- RowsMid
  MaxRows = 3
  MaxEmpty = 1
  EofModes <- BoolBoth
  SSCarry = TRUE
INVARIANTS ChunkingInvariant PrefixOK SplitInvariant TypeOK
CHECK_DEADLOCK FALSE
