SPECIFICATION Spec
CONSTANTS
  Defect = "align-truncates"
  N = 3
  Datasets <- DatasetsBucket3
  Spans <- SpansAll
  Origins <- OriginsAll
INVARIANTS InvFloorDiv InvBuckets InvKeysOnce InvRowsPartition TypeOK
CHECK_DEADLOCK FALSE
