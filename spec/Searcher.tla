------------------------------ MODULE Searcher ------------------------------
(* Transcription of the streaming block scheduler of processor.Searcher
   (pkg/segment/query/processor/searcher.go) for RRC (log record) queries:

     initializeQSRs            sort the segments (QSRs) by end time (recentFirst) /
                               start time (recentLast); ties in any order (sort.Slice)
     getQSRSToProcess          cut-off := start (end) of the FIRST unprocessed segment;
                               take every segment that reaches the cut-off
                               (shouldProcessQSR); forget those that lie completely
                               on the near side of it (willProcessQSRCompletely)
     getFilteredBlocks         of the taken segments, the not yet processed blocks that
                               reach the cut-off (shouldProcessBlock)
     sortBlocks                by HighTs descending (LowTs ascending)
     getNextBlocks             whole groups of blocks with equal start time, at least
                               the first group, then as many groups as fit in maxBlocks;
                               endTime = start time of the first block NOT taken, or the
                               extreme far end over all blocks when all are taken
     fetchRRCs                 endTime := max(endTime, cutOff) (min for recentLast);
                               merge the records of the taken blocks with the unsent
                               records; release (getValidRRCs) the records that are not
                               beyond endTime; gotBlocks := FALSE when nothing remains or
                               endTime = cutOff

   A configuration is NSEG segments with 1..NBLK blocks each; a block is a
   non-empty non-decreasing sequence of <= R timestamps in 1..T (its records).
   ALL configurations (overlapping ranges, ties, out-of-order blocks) are initial
   states.  A record is <<ts, seg, blk, k>>.  *)
EXTENDS Naturals, Sequences, FiniteSets, SequencesExt, TLC

CONSTANTS NSEG,    \* number of segments
          NBLK,    \* max blocks per segment
          R,       \* max records per block
          T,       \* timestamps 1..T
          MAXB,    \* desiredMaxBlocks (= GOMAXPROCS in the code)
          RF       \* TRUE: recentFirst (the only mode NewQueryProcessor selects); FALSE: recentLast

Segs == 1..NSEG
TS == 1..T   \* 0 is what getNextBlocks returns for "no blocks" and the zero value of cutOffTimestampInMs; no record has it
BlockShapes == {s \in UNION {[1..n -> TS] : n \in 1..R} : \A i \in 1..(Len(s) - 1) : s[i] <= s[i + 1]}
SegShapes == UNION {[1..n -> BlockShapes] : n \in 1..NBLK}

VARIABLES cfg,        \* [Segs -> SegShapes]            the layout (constant during a behaviour)
          unproc,     \* Searcher.unprocessedQSRs        sequence of segment ids
          processed,  \* Searcher.processedBlocks        set of <<seg, blk>>
          cutOff,     \* Searcher.cutOffTimestampInMs
          remaining,  \* Searcher.remainingBlocksSorted  sequence of block records
          unsent,     \* Searcher.unsentRRCs             sequence of records
          gotBlocks, gotAll,   \* Searcher.gotBlocks / gotAllSegments
          out,        \* concatenation of everything Fetch returned so far
          pc,         \* "init" | "run" | "eof"
          last        \* what the last step did (for behaviour export; not part of the search state)
vars == <<cfg, unproc, processed, cutOff, remaining, unsent, gotBlocks, gotAll, out, pc, last>>

-----------------------------------------------------------------------------
Min2(a, b) == IF a <= b THEN a ELSE b
Max2(a, b) == IF a >= b THEN a ELSE b
SetMin(S) == CHOOSE m \in S : \A x \in S : m <= x
SetMax(S) == CHOOSE m \in S : \A x \in S : m >= x

Blk(s, b) == [seg |-> s, id |-> b, lo |-> cfg[s][b][1], hi |-> cfg[s][b][Len(cfg[s][b])]]
BlocksOf(s) == {Blk(s, b) : b \in 1..Len(cfg[s])}
Blocks == UNION {BlocksOf(s) : s \in Segs}
SegStart(s) == SetMin({b.lo : b \in BlocksOf(s)})
SegEnd(s) == SetMax({b.hi : b \in BlocksOf(s)})
Recs(blk) == {<<cfg[blk.seg][blk.id][k], blk.seg, blk.id, k>> : k \in 1..Len(cfg[blk.seg][blk.id])}
AllRecs == UNION {Recs(b) : b \in Blocks}

(* mode-dependent readings: "start" is the near end in output order, "end" the far end *)
StartOf(b) == IF RF THEN b.hi ELSE b.lo
EndOf(b) == IF RF THEN b.lo ELSE b.hi
Before(x, y) == IF RF THEN x > y ELSE x < y          \* x is output strictly before y
NotBeyond(x, lim) == IF RF THEN x >= lim ELSE x <= lim  \* getValidRRCs keeps x
SegNear(s) == IF RF THEN SegEnd(s) ELSE SegStart(s)
SegFar(s) == IF RF THEN SegStart(s) ELSE SegEnd(s)

(* total orders used to make the sorts deterministic; the code's sorts are not
   stable, but every decision below depends only on the KEYS (whole tie groups
   are taken), which the function-level binding checks on the real sortBlocks *)
RecBefore(a, b) == \/ Before(a[1], b[1])
                   \/ (a[1] = b[1] /\ (a[2] < b[2] \/ (a[2] = b[2] /\ (a[3] < b[3] \/ (a[3] = b[3] /\ a[4] < b[4])))))
BlkBefore(a, b) == \/ Before(StartOf(a), StartOf(b))
                   \/ (StartOf(a) = StartOf(b) /\ (a.seg < b.seg \/ (a.seg = b.seg /\ a.id < b.id)))
(* initializeQSRs: sort.Slice by the near end; equal keys in ANY order *)
QSROrders == {p \in Permutations(Segs) :
                 LET q == [i \in 1..NSEG |-> CHOOSE s \in Segs : p[s] = i]
                 IN \A i \in 1..(NSEG - 1) : ~Before(SegNear(q[i + 1]), SegNear(q[i]))}
OrderSeq(p) == [i \in 1..NSEG |-> CHOOSE s \in Segs : p[s] = i]

(* configurations up to renaming of segments: segment tuples in non-decreasing
   order of a fixed encoding (a symmetry reduction written into Init) *)
RECURSIVE Code(_, _)
Code(s, i) == IF i > Len(s) THEN 0 ELSE (s[i] + 1) + (T + 2) * Code(s, i + 1)
RECURSIVE SegCode(_, _)
SegCode(sg, i) == IF i > Len(sg) THEN 0 ELSE (Code(sg[i], 1) + 1) + ((T + 2) ^ R + 1) * SegCode(sg, i + 1)
Canonical(c) == \A s \in 1..(NSEG - 1) : SegCode(c[s], 1) <= SegCode(c[s + 1], 1)

Init == /\ cfg \in {c \in [Segs -> SegShapes] : Canonical(c)}
        /\ unproc = <<>> /\ processed = {} /\ cutOff = 0 /\ remaining = <<>> /\ unsent = <<>>
        /\ gotBlocks = FALSE /\ gotAll = FALSE /\ out = <<>> /\ pc = "init" /\ last = [a |-> "Init"]

(* Fetch, first call: initializeQSRs + initUnprocessedQSRs *)
InitQSRs == /\ pc = "init"
            /\ \E p \in QSROrders : /\ unproc' = OrderSeq(p)
                                    /\ last' = [a |-> "InitQSRs", qsrs |-> OrderSeq(p)]
            /\ pc' = "run"
            /\ UNCHANGED <<cfg, processed, cutOff, remaining, unsent, gotBlocks, gotAll, out>>

(* Fetch when !gotBlocks: getBlocks = getQSRSToProcess + getFilteredBlocks, then sortBlocks *)
GetBlocks ==
   /\ pc = "run" /\ ~gotBlocks
   /\ IF unproc = <<>>
      THEN /\ gotAll' = TRUE
           /\ last' = [a |-> "GetBlocks", cutOff |-> cutOff, taken |-> {}, newBlocks |-> {}, unproc |-> <<>>,
                       remaining |-> remaining, gotAll |-> TRUE]
           /\ UNCHANGED <<unproc, processed, cutOff, remaining>>
      ELSE LET co == SegFar(Head(unproc))                                   \* the cut-off rule
               sel == {s \in ToSet(unproc) : NotBeyond(SegNear(s), co)}       \* shouldProcessQSR
               rest == SelectSeq(unproc, LAMBDA s : ~NotBeyond(SegFar(s), co)) \* drop willProcessQSRCompletely
               newb == {b \in Blocks : b.seg \in sel /\ <<b.seg, b.id>> \notin processed
                                        /\ NotBeyond(StartOf(b), co)}      \* shouldProcessBlock
               rem == SetToSortSeq(newb \cup ToSet(remaining), BlkBefore)
           IN /\ cutOff' = co
              /\ unproc' = rest
              /\ processed' = processed \cup {<<b.seg, b.id>> : b \in newb}
              /\ remaining' = rem
              /\ last' = [a |-> "GetBlocks", cutOff |-> co, taken |-> sel, newBlocks |-> {<<b.seg, b.id>> : b \in newb},
                          unproc |-> rest, remaining |-> rem, gotAll |-> gotAll]
              /\ UNCHANGED gotAll
   /\ gotBlocks' = TRUE /\ UNCHANGED <<cfg, unsent, out, pc>>

(* getNextBlocks(sortedBlocks, maxBlocks, mode) *)
TieEnd(B, i) == CHOOSE j \in i..Len(B) : /\ \A k \in i..j : StartOf(B[k]) = StartOf(B[i])
                                          /\ (j = Len(B) \/ StartOf(B[j + 1]) # StartOf(B[i]))
RECURSIVE Grow(_, _)
Grow(B, n) == IF n >= Len(B) THEN n
              ELSE LET nxt == TieEnd(B, n + 1) IN IF nxt > MAXB THEN n ELSE Grow(B, nxt)
NumNext(B) == IF B = <<>> THEN 0 ELSE Grow(B, TieEnd(B, 1))
FarEnd(B) == IF RF THEN SetMin({B[i].lo : i \in 1..Len(B)}) ELSE SetMax({B[i].hi : i \in 1..Len(B)})
NextEndTime(B) == IF B = <<>> THEN 0
                  ELSE IF NumNext(B) >= Len(B) THEN FarEnd(B) ELSE StartOf(B[NumNext(B) + 1])
(* utils.MergeSortedSlices of the per-segment sorted record slices and unsentRRCs *)
Merge(S) == SetToSortSeq(S, RecBefore)
(* getValidRRCs: the prefix of the merged records that is not beyond endTime *)
NumValid(m, et) == Cardinality({i \in 1..Len(m) : NotBeyond(m[i][1], et)})

FetchRRCs ==
   /\ pc = "run" /\ gotBlocks
   /\ IF remaining = <<>> /\ unsent = <<>> /\ gotAll
      THEN /\ pc' = "eof" /\ last' = [a |-> "EOF"]
           /\ UNCHANGED <<remaining, unsent, gotBlocks, out>>
      ELSE LET n == NumNext(remaining)
               et0 == NextEndTime(remaining)
               et == IF RF THEN Max2(et0, cutOff) ELSE Min2(et0, cutOff)
               nxt == SubSeq(remaining, 1, n)
               rest == SubSeq(remaining, n + 1, Len(remaining))
               merged == Merge(ToSet(unsent) \cup UNION {Recs(nxt[i]) : i \in 1..n})
               k == NumValid(merged, et)
           IN /\ remaining' = rest
              /\ gotBlocks' = ~(rest = <<>> \/ et = cutOff)
              /\ out' = out \o SubSeq(merged, 1, k)
              /\ unsent' = SubSeq(merged, k + 1, Len(merged))
              /\ pc' = pc
              /\ last' = [a |-> "Fetch", sorted |-> remaining, maxb |-> MAXB, next |-> {<<nxt[i].seg, nxt[i].id>> : i \in 1..n},
                          endTime0 |-> et0, cutOff |-> cutOff, endTime |-> et, unsentBefore |-> unsent,
                          merged |-> merged, released |-> SubSeq(merged, 1, k), gotBlocks |-> ~(rest = <<>> \/ et = cutOff)]
   /\ UNCHANGED <<cfg, unproc, processed, cutOff, gotAll>>

Done == pc = "eof" /\ UNCHANGED vars     \* the caller stops fetching after io.EOF
Next == InitQSRs \/ GetBlocks \/ FetchRRCs \/ Done
Spec == Init /\ [][Next]_vars

-----------------------------------------------------------------------------
(* The property (C05, no explicit sort). *)
Ts(r) == r[1]
(* output is in the requested direction *)
Sorted == \A i \in 1..(Len(out) - 1) : ~Before(Ts(out[i + 1]), Ts(out[i]))
(* no record is returned twice *)
NoDupOut == \A i, j \in 1..Len(out) : i # j => out[i] # out[j]
NoInvent == ToSet(out) \subseteq AllRecs /\ ToSet(unsent) \subseteq AllRecs /\ ToSet(out) \cap ToSet(unsent) = {}
(* at EOF every record has been returned exactly once *)
Complete == pc = "eof" => ToSet(out) = AllRecs
(* every released prefix is final: nothing still to come belongs before something already released;
   hence `head n` (which stops fetching once it has n records) and a page [from, from+size)
   see exactly the first records of the total order *)
PrefixFinal == \A r \in AllRecs \ ToSet(out) : \A i \in 1..Len(out) : ~Before(Ts(r), Ts(out[i]))
(* Head(n) = the first n of the final total order, as soon as n records were released *)
TotalOrder == SetToSortSeq(AllRecs, RecBefore)
HeadOK == \A n \in 1..Len(out) : [i \in 1..n |-> Ts(out[i])] = [i \in 1..n |-> Ts(TotalOrder[i])]
(* pages from = 0, k, 2k, ... of size k partition the result: page j is out[j*k+1 .. (j+1)*k], so their
   concatenation is out; stated on the timestamps because ties may be served in any order *)
Page(from, size) == SubSeq(out, from + 1, Min2(from + size, Len(out)))
RECURSIVE Pages(_, _)
Pages(from, size) == IF from >= Len(out) THEN <<>> ELSE Page(from, size) \o Pages(from + size, size)
PagesPartition == pc = "eof" => \A k \in 1..(Cardinality(AllRecs) + 1) : Pages(0, k) = out
(* the scheduler never holds back a record forever / never spins: checked as absence of deadlock before eof *)
NoLivelock == (pc = "run" /\ gotBlocks /\ remaining = <<>> /\ gotAll) =>
                 (unsent = <<>> \/ \E i \in 1..Len(unsent) :
                      NotBeyond(Ts(unsent[i]), IF RF THEN Max2(0, cutOff) ELSE Min2(0, cutOff)))
TypeOK == /\ pc \in {"init", "run", "eof"} /\ gotBlocks \in BOOLEAN /\ gotAll \in BOOLEAN
          /\ cutOff \in 0..T /\ processed \subseteq (Segs \X (1..NBLK))
View == <<cfg, unproc, processed, cutOff, remaining, unsent, gotBlocks, gotAll, out, pc>>
=============================================================================
