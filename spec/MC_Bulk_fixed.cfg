SPECIFICATION Spec
CONSTANTS
  MaxLines = 4
  Classes <- ClassesAll
  FixSticky = TRUE
  FixErrFlag = TRUE
  FixTrailing = TRUE
  FixStore = TRUE
INVARIANTS Conforms TypeOK
CHECK_DEADLOCK FALSE
