SPECIFICATION GenSpec
CONSTANTS
  Defect = "none"
  Mode = "expr"
CONSTRAINT Emit
CHECK_DEADLOCK FALSE
