SPECIFICATION Spec
CONSTANTS
  N = 2
  Cool = 2
  SilLen = 2
  MaxEvals = 5
  MaxDt = 2
  MaxEdits = 0
  MaxSil = 2
  MaxFails = 0
  RowsDelta = 0
INVARIANTS StateLaw NotifLaw Bookkeeping TypeOK
CHECK_DEADLOCK FALSE
