SPECIFICATION Spec
CONSTANTS
  Defect = "none"
  N = 3
  Datasets <- DatasetsBucket3
  Spans <- SpansAll
  Origins <- OriginsAll
CONSTRAINT Emit
CHECK_DEADLOCK FALSE
