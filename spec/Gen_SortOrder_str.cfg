SPECIFICATION Spec
CONSTANTS
  Vals <- ValsStr
  Ops <- OpsStr
  Tol = 0
  MaxRows = 3
  NKeys = 1
  RankByLooks = FALSE
CONSTRAINT Emit
CHECK_DEADLOCK FALSE
