SPECIFICATION Spec
CONSTANTS
  Vals <- ValsStr
  Ops <- OpsStr
  Tol = 0
  MaxRows = 3
  NKeys = 1
CONSTRAINT Emit
CHECK_DEADLOCK FALSE
