SPECIFICATION GenSpec
CONSTANTS
  MaxLen = 3
  Dods <- DodsAll
  Leads <- LeadsOne
  Trails <- TrailsOne
  LeadBits = 5
  ClampLead = TRUE
  FirstDelta = 0
CONSTRAINT Emit
CHECK_DEADLOCK FALSE
