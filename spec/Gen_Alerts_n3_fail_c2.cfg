SPECIFICATION GenSpec
CONSTANTS
  N = 3
  Cool = 2
  SilLen = 2
  MaxEvals = 4
  MaxDt = 2
  MaxEdits = 0
  MaxSil = 0
  MaxFails = 2
  RowsDelta = 0
CONSTRAINT Emit
CHECK_DEADLOCK FALSE
