--------------------------- MODULE Gen_MetricsQuery ---------------------------
(* Behaviour generator for MetricsQuery.  Two uses (selected by the .cfg):

   scenario mode (SPECIFICATION ScenSpec, CONSTRAINT EmitScenario): no transitions; every
     initial state (chosen series, value grid) that passes the seed filter is written as
     one JSON line: the series, the value grid and, for every query of Queries, the
     PromQL text, the AST and the expected instant vector at every grid timestamp.
   layout mode (SPECIFICATION Spec, CONSTRAINT EmitLayout): every complete layout history
     (ingest order + interleaved BlockFlush / SegRotate / Restart) as one JSON line; series
     are ranks, the harness maps rank r to the r-th series of a scenario.

   The expected answers do not depend on the layout (LayoutInvariance, checked by
   MC_MetricsQuery), which is why the two are generated separately and paired by the harness. *)
EXTENDS MetricsQuery, MetricsQueryConsts, MetricsQueryPick, Json, IOUtils

ScenSpec == Init /\ [][FALSE]_vars

Pairs(f) == SetToSeq({[k |-> k, v |-> f[k]] : k \in DOMAIN f})
ElemOut(e, withKey) == [labels |-> Pairs(e.labels), mkey |-> IF withKey THEN Pairs(e.mkey) ELSE <<>>,
                        name |-> e.name, num |-> e.val.num, den |-> e.val.den]
QueryOut(q) ==
  [text |-> QText(q), ast |-> q,
   defined |-> \A t \in Times : Defined(q, t),
   expect |-> [t \in 1 .. NT |-> IF Defined(q, t - 1)
                                  THEN SetToSeq({ElemOut(e, q.kind # "vec") : e \in Eval(q, t - 1)})
                                  ELSE <<>>]]
GridIdx == CASE grid = "pow" -> 1 [] grid = "tie" -> 2 [] grid = "neg" -> 3 [] OTHER -> 4
ScenHash == (FoldSet(LAMBDA i, acc : acc + i * i * 31 + i * 7, 0, chosen) * (PickSeed + 3) + GridIdx * 13 + PickSeed * 17) % PickMod
Write(x, file) == Serialize(ToJson(x) \o "\n", file,
                     [format |-> "TXT", charset |-> "UTF-8", openOptions |-> <<"WRITE", "CREATE", "APPEND">>]).exitValue = 0

(* scenario mode: all samples are visible (ingested = AllDP is forced by evaluating on AllDP) *)
FullSel(sel, t) == EvalSelOn(chosen, sel, AllDP, t)
FullDefined(q, t) == q.kind # "bin" \/ BinDefined(q.vm, EvalOperandWith(FullSel, q.l, t), EvalOperandWith(FullSel, q.r, t))
FullQueryOut(q) ==
  [text |-> QText(q), ast |-> q,
   defined |-> \A t \in Times : FullDefined(q, t),
   expect |-> [t \in 1 .. NT |-> IF FullDefined(q, t - 1)
                                  THEN SetToSeq({ElemOut(e, q.kind # "vec") : e \in EvalWith(FullSel, q, t - 1)})
                                  ELSE <<>>]]
EmitScenario ==
  IF ScenHash = 0
  THEN Write([series |-> [r \in 1 .. Cardinality(chosen) |-> USeq[CHOOSE i \in chosen : Rank(chosen, i) = r]],
              idx |-> SetToSeq(chosen), grid |-> grid,
              values |-> [r \in 1 .. Cardinality(chosen) |->
                            [t \in 1 .. NT |-> Val(grid, chosen, CHOOSE i \in chosen : Rank(chosen, i) = r, t - 1)]],
              queries |-> SetToSeq({FullQueryOut(q) : q \in Queries})], "behaviours.ndjson")
  ELSE TRUE

(* the long-series family has tens of thousands of histories: a seed-derived hash filter selects which are written *)
OpCode(h) == CASE h.a = "ingest" -> 1 [] h.a = "blockflush" -> 2 [] h.a = "segrotate" -> 3 [] h.a = "restart" -> 5
LayoutHash == FoldLeft(LAMBDA acc, h : (acc * 7 + OpCode(h) + h.i) % 1000003, PickSeed * 13 + 11, hist) % PickModL
EmitLayoutPick ==
  IF Done /\ nops >= 1 /\ LayoutHash = 0
  THEN Write([n |-> Cardinality(chosen), nt |-> NT, order |-> order, nops |-> nops, hist |-> hist], "behaviours.ndjson")
  ELSE TRUE

EmitLayout ==
  IF Done
  THEN Write([n |-> Cardinality(chosen), nt |-> NT, order |-> order, nops |-> nops, hist |-> hist], "behaviours.ndjson")
  ELSE TRUE
=============================================================================
