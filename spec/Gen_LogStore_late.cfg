SPECIFICATION GenSpec
CONSTANTS
  Streams <- OneStream
  Classes <- ClassesLate
  TsClasses <- TsOne
  Cols <- ColsLate
  ClassKinds <- KindsTabLate
  ClassX <- XTabLate
  ClassXS <- XSNone
  ClassT <- TTabLate
  ClassM <- MTabLate
  LowerOf <- LowerTab
  QNums <- QNumsOne
  QWords <- QWordsTwo
  MaxEvents = 4
  MaxBatch = 1
  MaxFlush = 1
  MaxRotate = 1
  MaxRestart = 0
  MaxPromote = 0
  PromoteOps <- PromoNone
  BlockCap = 99
  CardLimit = 2
  NeSkipsConstBlock = FALSE
  LowerOnInsert = TRUE
  MaxSteps = 5
CONSTRAINT Emit
CHECK_DEADLOCK FALSE
