SPECIFICATION GenSpec
CONSTANTS
  MaxSegs = 3
  Kinds <- KindsLog
  Times <- TimesRank2
  Weights <- W1
  DistinctHi = FALSE
  Straddle = FALSE
  PassKinds <- PassVolume
  Limits <- Limit0
  OpenWs <- Open01
  WithPq = FALSE
  MaxCrash = 1
  MaxRepeat = 0
  DetOrder = TRUE
  Mults <- M1
  Orgs <- Org0
  RewriteScratch = FALSE
  SortedDel = "scan"
  MetKeyWraps = TRUE
  SkipTooBig = TRUE
  PqIdsLoaded = FALSE
  InodeCleansDangling = FALSE
CONSTRAINT Emit
CHECK_DEADLOCK FALSE
