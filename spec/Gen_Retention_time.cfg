SPECIFICATION GenSpec
CONSTANTS
  MaxSegs = 3
  Kinds <- KindsBoth
  Times <- TimesBindable
  Weights <- W1
  DistinctHi = FALSE
  Straddle = TRUE
  PassKinds <- PassTime
  Limits <- Limit0
  OpenWs <- Open0
  WithPq = FALSE
  MaxCrash = 1
  MaxRepeat = 0
  DetOrder = TRUE
  Mults <- M1_12
  Orgs <- Org0
  RewriteScratch = FALSE
  SortedDel = "scan"
  MetKeyWraps = TRUE
  SkipTooBig = TRUE
  PqIdsLoaded = FALSE
  InodeCleansDangling = FALSE
CONSTRAINT Emit
CHECK_DEADLOCK FALSE
