----------------------------- MODULE GrammarEval -----------------------------
(* Third generative grammar for the C17 parser / executor half: eval expressions whose functions take POSITIONS
   (indexes, lengths, precisions) as arguments.  A query is  * | eval r=<fn>(<column or split(column, sep)>, a [, b])  with
   a, b drawn from a small set of integers that the check maps to values around the boundaries of the stored data
   (negative, zero, inside, just outside, far outside).  The property quantifies over "any query text over any stored
   data": for positional functions the interesting part of the product is (argument value) x (length of the stored value),
   which token-level enumeration does not reach.  TLC enumerates the product; each state is exported as JSON. *)
EXTENDS Naturals, Sequences, Json, IOUtils
CONSTANTS Fns,      \* function templates (strings understood by checks/c17_grammar.py)
          Cols,     \* stored columns
          NArg      \* positions are indexes 1..NArg into the check's integer table; 0 = argument omitted
VARIABLES q, done
None == [fn |-> "", col |-> "", a |-> 0, b |-> 0]
Init == q = None /\ done = FALSE
Next == /\ ~done /\ done' = TRUE
        /\ \E f \in Fns, c \in Cols, a \in 1..NArg, b \in 0..NArg : q' = [fn |-> f, col |-> c, a |-> a, b |-> b]
Spec == Init /\ [][Next]_<<q, done>>
Emit == IF done
        THEN Serialize(ToJson(q) \o "\n", "behaviours.ndjson",
                 [format |-> "TXT", charset |-> "UTF-8", openOptions |-> <<"WRITE", "CREATE", "APPEND">>]).exitValue = 0
        ELSE TRUE
=============================================================================
