SPECIFICATION GenSpec
CONSTANTS
  Streams <- TwoStreams
  Classes <- ClassesRTSim
  TsClasses <- TsAll
  Cols <- ColsAll
  ClassKinds <- KindsTab
  ClassX <- XTabRT
  ClassXS <- XSNone
  ClassT <- TTabRT
  ClassM <- MTabRT
  LowerOf <- LowerTab
  QNums <- QNumsOne
  QWords <- QWordsTwo
  MaxEvents = 8
  MaxBatch = 3
  MaxFlush = 4
  MaxRotate = 2
  MaxRestart = 2
  MaxPromote = 0
  PromoteOps <- PromoNone
  BlockCap = 99
  CardLimit = 2
  NeSkipsConstBlock = FALSE
  LowerOnInsert = TRUE
  MaxSteps = 10
CONSTRAINT Emit
CHECK_DEADLOCK FALSE
