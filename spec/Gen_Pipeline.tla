---------------------------- MODULE Gen_Pipeline ----------------------------
(* Behaviour generator for Pipeline.  One JSON line per (chain, input table):
   the set of admissible outputs SemChain(chain, table) and EVERY chunking of the
   table the exhaustive check (MC_Pipeline) runs the Fetch loop over
   (Chunkings(n) x EofModes).  The harness builds the real DataProcessor chain
   from the SPL text of `chain`, feeds it each of the chunkings through a
   synthetic Streamer and requires the drained output to be in `expect`.
   In -simulate mode each trace picks a random chain and random rows (seeded
   sample of the larger chain sets). *)
EXTENDS PipelineConsts, GenPick, Json, IOUtils
(* seeded samples of the larger chain sets: PickIdx comes from GenPick.tla, which the check regenerates from VERIF_SEED *)
Pick(S) == LET q == SetToSeq(S) IN {q[(i % Len(q)) + 1] : i \in PickIdx}
PairsSample == Pick(PairsNoSS)
PairsSampleAll == Pick(Pairs)
TriplesSample == Pick(Triples)
GenNext == PickChain \/ AddRow
GenSpec == Init /\ [][GenNext]_vars
Strip(c) == [x \in (DOMAIN c) \ {"uses", "kills", "gives"} |-> c[x]]
Emit == IF pc = "rows"
        THEN Serialize(ToJson([chain |-> [i \in 1..Len(chain) |-> Strip(chain[i])], table |-> table,
                               expect |-> SemChain(chain, table),
                               chunkings |-> Chunkings(Len(table)), eof |-> EofModes,
                               splits |-> IF ParSplittable(chain) THEN Assignments(Len(table)) ELSE {}]) \o "\n", "behaviours.ndjson",
                 [format |-> "TXT", charset |-> "UTF-8", openOptions |-> <<"WRITE", "CREATE", "APPEND">>]).exitValue = 0
        ELSE TRUE
=============================================================================
