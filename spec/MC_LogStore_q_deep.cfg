SPECIFICATION Spec
CONSTANTS
  Streams <- OneStream
  Classes <- ClassesQ
  TsClasses <- TsOne
  Cols <- ColsAll
  ClassKinds <- KindsTabQ
  ClassX <- XTabQ
  ClassT <- TTabQ
  LowerOf <- LowerTab
  QNums <- QNumsAll
  QWords <- QWordsAll
  MaxEvents = 5
  MaxBatch = 2
  MaxFlush = 3
  MaxRotate = 2
  MaxRestart = 1
  MaxPromote = 1
  PromoteOps <- PromoSome
  BlockCap = 3
  CardLimit = 2
  NeSkipsConstBlock = FALSE
  LowerOnInsert = TRUE
INVARIANTS RoundTrip LayoutIrrelevant PruneSound TypeOK
PROPERTIES OnlyIngestGrows FlushedStays
CHECK_DEADLOCK FALSE
VIEW View
