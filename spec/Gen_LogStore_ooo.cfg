SPECIFICATION GenSpec
CONSTANTS
  Streams <- OneStream
  Classes <- ClassesOne
  TsClasses <- TsOoo
  Cols <- ColsAll
  ClassKinds <- KindsTab
  ClassX <- XTabRT
  ClassXS <- XSNone
  ClassT <- TTabRT
  ClassM <- MTabRT
  LowerOf <- LowerTab
  QNums <- QNumsOne
  QWords <- QWordsTwo
  MaxEvents = 4
  MaxBatch = 1
  MaxFlush = 2
  MaxRotate = 1
  MaxRestart = 0
  MaxPromote = 0
  PromoteOps <- PromoNone
  BlockCap = 99
  CardLimit = 2
  NeSkipsConstBlock = FALSE
  LowerOnInsert = TRUE
  MaxSteps = 7
CONSTRAINT Emit
CHECK_DEADLOCK FALSE
