SPECIFICATION GenSpec
CONSTANTS
  Defect = "none"
  Mode = "range"
CONSTRAINT Emit
CHECK_DEADLOCK FALSE
