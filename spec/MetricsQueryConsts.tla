------------------------- MODULE MetricsQueryConsts -------------------------
(* Universes, scenario sets and query sets for MetricsQuery (sets of records and
   sequences cannot be written in a .cfg).  Three universes:
     H  homogeneous: every series carries exactly the keys a, b        (core domain)
     X  heterogeneous: some series lack b / carry an extra key c        (missing-label semantics)
     S  keys where one is a suffix of the other (hostname, name)        (group-id string handling)
*)
EXTENDS Integers, Sequences, FiniteSets

Ser(n, l) == [name |-> n, labels |-> l]
Pat(k, s, alts) == [kind |-> k, s |-> s, alts |-> alts]
Lit(s) == Pat("lit", s, <<>>)
Alt(sq) == Pat("alt", "", sq)
Pre(s) == Pat("prefix", s, <<>>)
Suf(s) == Pat("suffix", s, <<>>)
AnyP == Pat("any", "", <<>>)
SomeP == Pat("some", "", <<>>)
M(k, op, p) == [key |-> k, op |-> op, pat |-> p]
Sel(n, ms) == [name |-> n, ms |-> ms]
G(mode, keys) == [mode |-> mode, keys |-> keys]
NoG == G("none", <<>>)
Opnd(aop, g, sel) == [aop |-> aop, g |-> g, sel |-> sel]
Plain(sel) == Opnd("none", NoG, sel)
VM(mode, keys, card) == [mode |-> mode, keys |-> keys, card |-> card]
DefVM == VM("default", <<>>, "one")
QVec(o) == [kind |-> "vec", l |-> o, r |-> o, op |-> "", vm |-> DefVM, c |-> 0, cleft |-> FALSE]
QBin(op, vm, l, r) == [kind |-> "bin", l |-> l, r |-> r, op |-> op, vm |-> vm, c |-> 0, cleft |-> FALSE]
QSc(op, o, c, cleft) == [kind |-> "sc", l |-> o, r |-> o, op |-> op, vm |-> DefVM, c |-> c, cleft |-> cleft]

AggOps == {"sum", "min", "max", "avg", "count"}
ArithOps == {"+", "-", "*", "/"}
EqOps == {"=", "!="}
ReOps == {"=~", "!~"}

(* ---------------------------------------------------------------- universe H *)
UH == << Ser("m", [a |-> "x",  b |-> "p"]), Ser("m", [a |-> "x",  b |-> "q"]),
         Ser("m", [a |-> "y",  b |-> "p"]), Ser("m", [a |-> "y",  b |-> "q"]),
         Ser("m", [a |-> "xy", b |-> "p"]), Ser("m", [a |-> "xy", b |-> "q"]),
         Ser("n", [a |-> "x",  b |-> "p"]), Ser("n", [a |-> "x",  b |-> "q"]),
         Ser("n", [a |-> "y",  b |-> "p"]), Ser("n", [a |-> "y",  b |-> "q"]),
         Ser("n", [a |-> "xy", b |-> "p"]), Ser("n", [a |-> "xy", b |-> "q"]) >>
TailsH == {"", "x", "y", "xy", "p", "q"}
(* scenarios: 3..4 series, at least two of metric m and one of metric n *)
ScenH == {S \in SUBSET (1 .. 12) : /\ Cardinality(S) \in {3, 4}
                                   /\ Cardinality(S \cap (1 .. 6)) >= 2
                                   /\ Cardinality(S \cap (7 .. 12)) >= 1}
ScenHSmall == {{1, 2, 7}, {1, 3, 6, 9}, {2, 5, 8, 11}}
ScenHSmall2 == {{1, 2, 7}, {1, 3, 6, 9}}
ScenAbstract == {{1, 2}, {1, 2, 3}, {1, 2, 3, 4}, {1, 2, 3, 4, 5}}       \* layout generation: only ranks matter

APats == {Lit("x"), Lit("y"), Lit("xy"), Lit("zz"), Alt(<<"x", "y">>), Alt(<<"y", "xy">>),
          Pre("x"), Suf("y"), AnyP, SomeP}
BPats == {Lit("p"), Lit("q"), Alt(<<"p", "q">>)}
MatchersOf(k, pats) == {M(k, op, p) : op \in EqOps, p \in {pp \in pats : pp.kind = "lit"}}
                       \cup {M(k, op, p) : op \in ReOps, p \in pats}
AM == MatchersOf("a", APats)
BM == MatchersOf("b", BPats)
APair == {M("a", "=", Lit("x")), M("a", "!=", Lit("x")), M("a", "=~", Alt(<<"x", "y">>)), M("a", "!~", Pre("x"))}
BPair == {M("b", "=", Lit("p")), M("b", "!=", Lit("p")), M("b", "=~", Alt(<<"p", "q">>)), M("b", "!~", Lit("q"))}
SelsH(n) == {Sel(n, <<>>)} \cup {Sel(n, <<m>>) : m \in AM \cup BM}
            \cup {Sel(n, <<ma, mb>>) : ma \in APair, mb \in BPair}
GroupsH == {NoG, G("by", <<"a">>), G("by", <<"b">>), G("by", <<"a", "b">>), G("by", <<>>),
            G("without", <<"a">>), G("without", <<"b">>), G("without", <<>>)}
AggSelsH == {Sel("m", <<>>), Sel("m", <<M("a", "=", Lit("x"))>>), Sel("m", <<M("a", "=~", Alt(<<"y", "xy">>))>>),
             Sel("m", <<M("b", "!=", Lit("p"))>>), Sel("n", <<>>)}
SumBy(k, n) == Opnd("sum", G("by", <<k>>), Sel(n, <<>>))
BinFormsH(op) ==
  { QBin(op, DefVM, Plain(Sel("m", <<>>)), Plain(Sel("n", <<>>))),
    QBin(op, DefVM, Plain(Sel("n", <<>>)), Plain(Sel("m", <<>>))),
    QBin(op, VM("on", <<"a", "b">>, "one"), Plain(Sel("m", <<>>)), Plain(Sel("n", <<>>))),
    QBin(op, DefVM, Plain(Sel("m", <<M("a", "!=", Lit("x"))>>)), Plain(Sel("n", <<M("b", "=", Lit("p"))>>))),
    QBin(op, DefVM, SumBy("a", "m"), SumBy("a", "n")),
    QBin(op, DefVM, SumBy("b", "m"), Opnd("count", G("by", <<"b">>), Sel("m", <<>>))),
    QBin(op, VM("on", <<"a">>, "one"), SumBy("a", "m"), Opnd("max", G("by", <<"a">>), Sel("n", <<>>))),
    QBin(op, VM("on", <<"a">>, "left"), Plain(Sel("m", <<>>)), SumBy("a", "n")),
    QBin(op, VM("ignoring", <<"b">>, "left"), Plain(Sel("m", <<>>)), SumBy("a", "n")),
    QBin(op, VM("ignoring", <<"b">>, "one"), Plain(Sel("m", <<M("b", "=", Lit("p"))>>)), Plain(Sel("n", <<M("b", "=", Lit("q"))>>))),
    QBin(op, DefVM, Opnd("sum", NoG, Sel("m", <<>>)), Opnd("sum", NoG, Sel("n", <<>>))),
    QBin(op, DefVM, Opnd("avg", G("by", <<"b">>), Sel("m", <<>>)), Opnd("min", G("by", <<"b">>), Sel("n", <<>>))) }
ScFormsH(op) ==
  { QSc(op, Plain(Sel("m", <<>>)), 2, FALSE), QSc(op, Plain(Sel("m", <<>>)), 2, TRUE),
    QSc(op, SumBy("a", "m"), 3, FALSE), QSc(op, SumBy("a", "m"), 3, TRUE) }
QueriesH ==
  {QVec(Plain(s)) : s \in SelsH("m") \cup SelsH("n")}
  \cup {QVec(Opnd(op, g, s)) : op \in AggOps, g \in GroupsH, s \in AggSelsH}
  \cup UNION {BinFormsH(op) : op \in ArithOps}
  \cup UNION {ScFormsH(op) : op \in ArithOps}
(* a smaller set for the exhaustive model check (every form once) *)
QueriesMC ==
  {QVec(Plain(s)) : s \in {Sel("m", <<>>), Sel("m", <<M("a", "!=", Lit("x"))>>), Sel("m", <<M("a", "=~", Pre("x"))>>),
                            Sel("m", <<M("a", "!~", Alt(<<"x", "y">>)), M("b", "=", Lit("p"))>>), Sel("n", <<M("b", "=~", AnyP)>>)}}
  \cup {QVec(Opnd(op, g, s)) : op \in AggOps, g \in {NoG, G("by", <<"a">>), G("without", <<"a">>), G("without", <<"b">>), G("by", <<"a", "b">>)},
                               s \in {Sel("m", <<>>), Sel("m", <<M("b", "!=", Lit("p"))>>)}}
  \cup BinFormsH("+") \cup BinFormsH("/") \cup ScFormsH("-")

(* probes inside H for constructs the core set deliberately avoids (reported under their own keys) *)
ProbeSameKeyH ==
  {QVec(Plain(Sel("m", <<M("a", "!=", Lit("x")), M("a", "!=", Lit("y"))>>))),
   QVec(Plain(Sel("m", <<M("a", "=~", Pre("x")), M("a", "!=", Lit("xy"))>>))),
   QVec(Plain(Sel("m", <<M("a", "=", Lit("x")), M("a", "=", Lit("y"))>>))),
   QVec(Opnd("sum", G("by", <<"b">>), Sel("m", <<M("a", "=~", Alt(<<"x", "y">>)), M("a", "!=", Lit("y"))>>)))}
ProbeWithoutAllH ==
  {QVec(Opnd(op, G("without", <<"a", "b">>), Sel("m", <<>>))) : op \in AggOps}
  \cup {QVec(Opnd("sum", G("without", <<"a", "b">>), Sel("m", <<M("a", "=", Lit("x"))>>)))}

QueriesHAll == QueriesH \cup ProbeSameKeyH \cup ProbeWithoutAllH

(* ---------------------------------------------------------------- family L: long series (universe H)
   Few series with MANY samples each, so that a layout history splits one series into parts of very
   different sizes (6+6, 4+8, 5+5+2, ...) over blocks, segments and process lives.  The joined series
   must come back sample by sample: raw selectors as well as every aggregation operator. *)
ScenL == {S \in SUBSET (1 .. 12) : /\ Cardinality(S) \in {2, 3}
                                   /\ Cardinality(S \cap (1 .. 6)) >= 1
                                   /\ Cardinality(S \cap (7 .. 12)) >= 1}
ScenLSmall == {{1, 7}, {2, 5, 9}}
ScenLOne == {{1, 7}}
ScenAbstractL == {{1, 2}, {1, 2, 3}}
QueriesL ==
  {QVec(Plain(s)) : s \in {Sel("m", <<>>), Sel("n", <<>>), Sel("m", <<M("a", "=~", Alt(<<"x", "y">>))>>), Sel("m", <<M("b", "!=", Lit("q"))>>),
                            Sel("n", <<M("a", "!~", Lit("zz"))>>), Sel("m", <<M("a", "=~", Pre("x")), M("b", "=", Lit("p"))>>)}}
  \cup {QVec(Opnd(op, g, s)) : op \in AggOps, g \in {NoG, G("by", <<"a">>), G("without", <<"a">>)}, s \in {Sel("m", <<>>), Sel("n", <<>>)}}
  \cup {QBin("+", DefVM, Plain(Sel("m", <<>>)), Plain(Sel("n", <<>>))),
        QBin("/", VM("on", <<"a", "b">>, "one"), Plain(Sel("m", <<>>)), Plain(Sel("n", <<>>))),
        QBin("-", DefVM, SumBy("b", "m"), SumBy("b", "n")),
        QBin("*", DefVM, Opnd("sum", NoG, Sel("m", <<>>)), Opnd("max", NoG, Sel("n", <<>>))),
        QSc("*", Plain(Sel("m", <<>>)), 2, FALSE), QSc("-", SumBy("a", "n"), 3, TRUE)}
QueriesLMC ==
  {QVec(Plain(Sel("m", <<>>))), QVec(Plain(Sel("n", <<M("a", "!~", Lit("zz"))>>))),
   QVec(Opnd("sum", NoG, Sel("m", <<>>))), QVec(Opnd("avg", G("by", <<"a">>), Sel("m", <<>>))),
   QBin("+", DefVM, Plain(Sel("m", <<>>)), Plain(Sel("n", <<>>)))}

(* ---------------------------------------------------------------- universe X (missing labels) *)
UX == << Ser("m", [a |-> "x", b |-> "p"]), Ser("m", [a |-> "x"]), Ser("m", [a |-> "y", b |-> "q"]),
         Ser("m", [a |-> "y", b |-> "p", c |-> "x"]), Ser("m", [a |-> "y"]),
         Ser("n", [a |-> "x", b |-> "p"]), Ser("n", [a |-> "x"]), Ser("n", [b |-> "q"]) >>
TailsX == {"", "x", "y", "p", "q"}
ScenX == {S \in SUBSET (1 .. 8) : /\ Cardinality(S) \in {3, 4}
                                  /\ Cardinality(S \cap (1 .. 5)) >= 2
                                  /\ \E i \in S \cap (1 .. 5) : "b" \in DOMAIN UX[i].labels
                                  /\ \E i \in S \cap (1 .. 5) : "b" \notin DOMAIN UX[i].labels}
ScenXSmall == {{1, 2, 6}, {2, 3, 4, 7}, {1, 5, 7, 8}}
QueriesX ==
  {QVec(Plain(Sel("m", <<>>))), QVec(Plain(Sel("n", <<>>)))}
  \cup {QVec(Plain(Sel("m", <<m>>))) : m \in {M("b", "=", Lit("p")), M("b", "!=", Lit("p")), M("b", "=", Lit("")), M("b", "!=", Lit("")),
                                              M("b", "=~", AnyP), M("b", "=~", SomeP), M("b", "!~", Lit("p")), M("b", "!~", SomeP),
                                              M("c", "!=", Lit("x")), M("c", "=", Lit("")), M("a", "=", Lit("x")), M("a", "!=", Lit("x"))}}
  \cup {QVec(Opnd(op, g, Sel("m", <<>>))) : op \in {"sum", "count", "avg"},
                                            g \in {NoG, G("by", <<"a">>), G("by", <<"b">>), G("without", <<"b">>), G("without", <<"a">>), G("by", <<"a", "b", "c">>)}}
  \cup {QBin("+", DefVM, Plain(Sel("m", <<>>)), Plain(Sel("n", <<>>))),
        QBin("+", VM("on", <<"a">>, "left"), Plain(Sel("m", <<>>)), Opnd("sum", G("by", <<"a">>), Sel("n", <<>>)))}

(* ---------------------------------------------------------------- universe S (suffix keys) *)
US == << Ser("m", [hostname |-> "h1", name |-> "n1"]), Ser("m", [hostname |-> "h2", name |-> "n1"]),
         Ser("m", [hostname |-> "h1", name |-> "n2"]), Ser("n", [hostname |-> "h1", name |-> "n1"]),
         Ser("n", [hostname |-> "h2", name |-> "n1"]), Ser("n", [hostname |-> "h2", name |-> "n2"]) >>
TailsS == {"", "1", "2", "h1", "h2", "n1", "n2"}
ScenS == {S \in SUBSET (1 .. 6) : Cardinality(S) \in {3, 4} /\ Cardinality(S \cap (1 .. 3)) >= 2 /\ Cardinality(S \cap (4 .. 6)) >= 1}
QueriesS ==
  {QVec(Plain(Sel("m", <<>>))), QVec(Plain(Sel("m", <<M("name", "=", Lit("n1"))>>))), QVec(Plain(Sel("m", <<M("hostname", "=~", Pre("h"))>>)))}
  \cup {QVec(Opnd(op, g, Sel("m", <<>>))) : op \in {"sum", "count", "max"},
           g \in {G("by", <<"name">>), G("by", <<"hostname">>), G("without", <<"name">>), G("without", <<"hostname">>), G("by", <<"hostname", "name">>)}}
  \cup {QBin(op, vm, Opnd("sum", G("by", <<"name">>), Sel("m", <<>>)), Opnd("sum", G("by", <<"name">>), Sel("n", <<>>))) :
           op \in {"+", "/"}, vm \in {DefVM, VM("on", <<"name">>, "one")}}
  \cup {QBin("+", VM("on", <<"name">>, "left"), Plain(Sel("m", <<>>)), Opnd("sum", G("by", <<"name">>), Sel("n", <<>>))),
        QBin("+", VM("on", <<"hostname">>, "left"), Plain(Sel("m", <<>>)), Opnd("sum", G("by", <<"hostname">>), Sel("n", <<>>))),
        QBin("-", DefVM, Plain(Sel("m", <<>>)), Plain(Sel("n", <<>>)))}

(* ---------------------------------------------------------------- universe R (regular-expression forms beyond alternation / dot-star) *)
Anch(s, form) == Pat("anchor", s, <<form>>)
Esc(s, classes) == Pat("esc", s, classes)
EscDot(a, b) == Pat("escdot", "", <<a, b>>)
Rep(s, c, lo, hi) == Pat("rep", s, <<c, lo, hi>>)
Cls(s, chars) == Pat("class", s, chars)
EmptyP == Pat("empty", "", <<>>)
UR == << Ser("m", [a |-> "w1",  b |-> "p"]), Ser("m", [a |-> "w2",  b |-> "q"]), Ser("m", [a |-> "w12", b |-> "p"]),
         Ser("m", [a |-> "ab",  b |-> "q"]), Ser("m", [a |-> "abb", b |-> "p"]), Ser("m", [a |-> "a.b", b |-> "q"]),
         Ser("m", [a |-> "axb", b |-> "p"]), Ser("n", [a |-> "w1",  b |-> "p"]), Ser("n", [a |-> "ab",  b |-> "q"]) >>
TailsR == {"", "1", "2", "12", "b", "bb", ".b", "xb", "w", "w1", "w2", "w12", "a", "a.", "ax", "ab", "abb", "a.b", "axb", "p", "q"}
ScenR == {S \in SUBSET (1 .. 9) : /\ Cardinality(S) \in {4, 5}
                                  /\ Cardinality(S \cap {1, 2, 3}) >= 1 /\ Cardinality(S \cap {4, 5}) >= 1
                                  /\ Cardinality(S \cap {6, 7}) >= 1 /\ Cardinality(S \cap (1 .. 7)) >= 3}
ScenRSmall == {{1, 3, 4, 6}, {2, 3, 5, 7, 8}}
RPats == {Anch("ab", "^$"), Anch("ab", "^"), Anch("ab", "$"), Anch("w1", "^$"), Anch("", "^$"), EmptyP,
          Esc("w", <<"d">>), Esc("w", <<"d", "d">>), Esc("", <<"w", "w">>), Esc("a", <<"w">>), EscDot("a", "b"),
          Rep("a", "b", "1", "1"), Rep("a", "b", "2", "2"), Rep("a", "b", "1", "2"), Rep("w", "1", "1", "1"),
          Cls("w", <<"1", "2">>), Cls("a", <<"b", "x">>), Lit("ab"), Alt(<<"w1", "ab">>), Pre("w"), Suf("b")}
RSels == {Sel("m", <<M("a", op, p)>>) : op \in ReOps, p \in RPats}
QueriesR ==
  {QVec(Plain(s)) : s \in RSels \cup {Sel("m", <<>>), Sel("n", <<M("a", "=~", Anch("ab", "^$"))>>), Sel("n", <<M("a", "!~", Esc("w", <<"d">>))>>),
                                        Sel("m", <<M("a", "!~", Esc("w", <<"d">>)), M("b", "=", Lit("p"))>>),
                                        Sel("m", <<M("b", "=~", Anch("p", "^$")), M("a", "!=", Lit("ab"))>>)}}
  \cup {QVec(Opnd(op, g, Sel("m", <<M("a", mop, p)>>))) : op \in AggOps, g \in {NoG, G("by", <<"b">>)}, mop \in ReOps,
                                                          p \in {Anch("ab", "^"), Esc("w", <<"d">>), Rep("a", "b", "1", "2")}}
  \cup {QBin("+", DefVM, Plain(Sel("m", <<M("a", "=~", Esc("", <<"w", "w">>))>>)), Plain(Sel("n", <<>>)))}
QueriesRMC == {QVec(Plain(s)) : s \in RSels} \cup {QVec(Opnd("sum", G("by", <<"b">>), Sel("m", <<M("a", "!~", Esc("w", <<"d">>))>>)))}

(* ---------------------------------------------------------------- universe D (label values with a non-word character) *)
UD == << Ser("m", [a |-> "e-1", b |-> "p"]), Ser("m", [a |-> "e-2", b |-> "p"]), Ser("m", [a |-> "e-2", b |-> "q"]),
         Ser("n", [a |-> "e-1", b |-> "p"]), Ser("n", [a |-> "e-2", b |-> "p"]), Ser("n", [a |-> "e-2", b |-> "q"]) >>
TailsD == {"", "1", "2", "-1", "-2", "e-1", "e-2", "p", "q"}
ScenD == {S \in SUBSET (1 .. 6) : Cardinality(S) \in {3, 4} /\ Cardinality(S \cap (1 .. 3)) >= 2 /\ Cardinality(S \cap (4 .. 6)) >= 1}
QueriesD ==
  {QVec(Plain(Sel("m", <<>>))), QVec(Plain(Sel("m", <<M("a", "=", Lit("e-1"))>>))), QVec(Plain(Sel("m", <<M("a", "=~", Pre("e-"))>>))),
   QVec(Plain(Sel("m", <<M("a", "!=", Lit("e-2"))>>)))}
  \cup {QVec(Opnd(op, g, Sel("m", <<>>))) : op \in {"sum", "count"}, g \in {G("by", <<"a">>), G("without", <<"a">>), G("without", <<"b">>)}}
  \cup {QBin(op, vm, Plain(Sel("m", <<>>)), Plain(Sel("n", <<>>))) : op \in {"+", "/"}, vm \in {DefVM, VM("on", <<"a", "b">>, "one")}}
  \cup {QBin("+", VM("on", <<"a">>, "one"), SumBy("a", "m"), SumBy("a", "n")),
        QBin("*", VM("on", <<"a">>, "left"), Plain(Sel("m", <<>>)), SumBy("a", "n")),
        QBin("-", VM("ignoring", <<"b">>, "left"), Plain(Sel("m", <<>>)), SumBy("a", "n"))}
=============================================================================
