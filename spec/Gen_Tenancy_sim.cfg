SPECIFICATION GenSpec
CONSTANTS
  Orgs <- Orgs3
  Indexes <- IndexNames
  Aliases <- AliasNames
  Exprs <- ExprsAll
  DelExprs <- DelExprsAll
  TermsOf <- Terms
  Matches <- Match
  IsWild <- Wild
  GenMode = "plain"
  MaxOps = 6
  FixDelete = FALSE
  FixRegistry = FALSE
CONSTRAINT Emit
CHECK_DEADLOCK FALSE
