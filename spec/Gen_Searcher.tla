---------------------------- MODULE Gen_Searcher ----------------------------
(* Behaviour generator for Searcher: every complete behaviour (configuration,
   order of the tied segments, and then one record per GetBlocks / Fetch
   transition with the values the spec computes) is written as one JSON line.
   The function-level harness replays each transition on the real
   getQSRSToProcess / getFilteredBlocks / sortBlocks / getNextBlocks /
   MergeSortedSlices / getValidRRCs; the e2e harness ingests the configuration
   and compares the order of the real query results with `out`. *)
EXTENDS Searcher, Json, IOUtils
VARIABLE hist
Slim(l) == IF l.a = "Fetch"
           THEN [a |-> "Fetch", next |-> l.next, endTime0 |-> l.endTime0, endTime |-> l.endTime, cutOff |-> l.cutOff,
                 released |-> l.released, nmerged |-> Len(l.merged), gotBlocks |-> l.gotBlocks]
           ELSE IF l.a = "GetBlocks"
           THEN [a |-> "GetBlocks", cutOff |-> l.cutOff, taken |-> l.taken, newBlocks |-> l.newBlocks, unproc |-> l.unproc,
                 remaining |-> [i \in 1..Len(l.remaining) |-> <<l.remaining[i].seg, l.remaining[i].id>>], gotAll |-> l.gotAll]
           ELSE l
GenInit == Init /\ hist = <<>>
(* the recentLast mode can spin for ever (see NoLivelock); such behaviours are cut off and not exported *)
GenNext == /\ pc # "eof" /\ Len(hist) < 16
           /\ (InitQSRs \/ GetBlocks \/ FetchRRCs)
           /\ hist' = Append(hist, Slim(last'))
GenSpec == GenInit /\ [][GenNext]_<<vars, hist>>
Emit == IF pc = "eof"
        THEN Serialize(ToJson([rf |-> RF, maxb |-> MAXB, cfg |-> cfg, steps |-> hist, out |-> out]) \o "\n", "behaviours.ndjson",
                 [format |-> "TXT", charset |-> "UTF-8", openOptions |-> <<"WRITE", "CREATE", "APPEND">>]).exitValue = 0
        ELSE TRUE
=============================================================================
