SPECIFICATION Spec
CONSTANTS
  NSEG = 2
  NBLK = 2
  R = 2
  T = 3
  MAXB = 1
  RF = FALSE
INVARIANTS NoLivelock
VIEW View
