SPECIFICATION Spec
CONSTANTS
  Vals <- ValsAuto
  Ops <- OpsAuto
  Tol = 0
  MaxRows = 0
  NKeys = 1
  RankByLooks = TRUE

CHECK_DEADLOCK FALSE
