SPECIFICATION Spec
CONSTANTS
  Defect = "none"
  Mode = "cell"
INVARIANTS InvDetermined InvSpelling InvTrichotomy InvNeq InvCase InvWhere InvAbsent InvNonEmpty
CHECK_DEADLOCK FALSE
