------------------------------- MODULE Paths -------------------------------
(* C19 - user-supplied names cannot reach files outside the data directory.

   A NAME is a sequence of segment classes:
     plain   an ordinary path-safe word
     dot     "."
     up      ".." (a dot-dot segment)
     sep     "/"
     abs     a leading "/" followed by an absolute path
     encsep  the three characters "%2f" AS SEEN BY THE HANDLER (i.e. after the transport decoded once)
     nul     a NUL byte
     long    a 4 KiB segment
     lkdot   a LOOK-ALIKE of ".": a Unicode compatibility form (U+FF0E fullwidth full stop, U+2024 one dot leader,
             U+FE52 small full stop) or an overlong / invalid UTF-8 encoding (C0 AE, E0 80 AE)
     lkup    a look-alike of "..": U+2025 two dot leader, or two lkdot, or ".." itself next to a look-alike separator
     lksep   a look-alike of "/": U+FF0F fullwidth solidus, U+2215 division slash, U+2044 fraction slash,
             overlong C0 AF / E0 80 AF
   Look-alikes are ordinary word characters for every byte-wise check (strings.Contains, filepath.Base) and for the
   kernel - UNLESS the call site transforms the name (Unicode normalisation NFKC/NFKD, lenient UTF-8 decoding, case /
   width folding) between its validation and its use: then they become the real thing AFTER the guard looked.
   NormAfterGuard is the set of APIs assumed to do that (none in the code as it is).
   Every API operation that derives a file path from request data is one record of
   Apis: how the name reaches the handler (transport), which validation the call
   site applies, how the call site builds the path (plain string concatenation or
   filepath.Join - transcribed from the code, see the comment per API) and what it
   does with the file.  Resolve(api, name) is the resulting normalised location
   relative to the API's base directory or a rejection.

   Entry points and transport facts:
     entry "http", transport pathparam: fasthttp/router v1.4.1 matches on URI.PathOriginal(), the RAW request path
                (neither percent-decoded nor normalised); a {param} is one raw segment.  A name containing a literal
                "/" (sep, abs) never arrives as the parameter (routed elsewhere / 404); "%2f" stays the literal three
                characters (encsep); a stand-alone "." or ".." does arrive.
     entry "handler": the exported request handler is called with the route parameter carrying the name verbatim.
                That a parameter cannot contain "/" is a property of the router version, not a validation by siglens;
                the handlers are the trust boundary (pathparam APIs only; for body transports both entries coincide).
     transport body: JSON field / multipart form value / query text: arrives unchanged at both entries.

   History (id-keyed stores: dashboards, folders, saved queries, alerts, contact points): the hostile name is used as an
   id the store does NOT know, in three store states - "fresh", "created" (a legitimate object exists) and "deleted"
   (it was created and deleted again).  A client-invented name is never a server-generated key, so a call site
   with check = "known" must reject it in every state.

   Occurrence (APIs whose request can carry several names): the hostile name is evaluated at its FIRST and at a REPEATED use
   within one request.  A call site in CacheBeforeGuard memoises the resolved name in a per-request map before it validates
   it: the repeated use hits the cache and skips the validation (none in the code as it is).

   GuardMode = "all" models every call site rejecting a name whose cleaned path leaves its base directory;
   GuardMode = "ascode" uses the per-API `guard` field = the code as it is. *)
EXTENDS Integers, Sequences, FiniteSets, TLC

CONSTANTS MaxLen,          \* maximal number of segment classes in a name
          GuardMode,       \* "all" | "ascode"
          NormAfterGuard,  \* set of api names whose call site normalises the name between validation and use
          CacheBeforeGuard, \* set of api names whose call site memoises the name in a per-request cache BEFORE validating it
          Classes          \* the segment classes names are built from (AllClasses, or a subset for a quick export)

AllClasses == {"plain", "dot", "up", "sep", "abs", "encsep", "nul", "long", "lkdot", "lkup", "lksep"}
CoreClasses == {"plain", "up", "sep", "abs", "encsep", "lkup", "lksep"}
AllApiNames == {"lookup-upload", "lookup-get", "lookup-delete", "inputlookup", "bulk-index", "put-index", "doc-index", "alias-put",
                "aliases-add", "aliases-remove", "alias-get", "index-delete", "dashboard-get", "dashboard-fav", "dashboard-update",
                "dashboard-delete", "folder-create", "folder-get", "folder-delete", "usq-save", "usq-delete", "metric-name", "scroll-id",
                "metric-tagkey", "alert-get", "alert-delete", "contact-delete", "otlp-logs-index", "hec-index"}
NoApis == {}

(* transport, validation, construction, effect; suffix = the call site appends an extension to the name (so a trailing ".."
   becomes the word "..ext"); base = depth of the base directory below the data directory; guard = the call site rejects
   names that are not a single path component (state of the code: the lookups / inputlookup / index+alias / tag-key fixes are
   in; the dashboards package has no such check); store = id-keyed store (history dimension) *)
MultiNameApis == {"bulk-index", "otlp-logs-index", "hec-index", "aliases-add", "aliases-remove", "metric-tagkey", "metric-name"}
Api(n, t, c, b, e, sfx, d, g, st) ==
  [api |-> n, transport |-> t, check |-> c, build |-> b, effect |-> e, suffix |-> sfx, base |-> d, guard |-> g, store |-> st,
   multi |-> n \in MultiNameApis]      \* multi: one request can carry several names (action lines, resources, events, datapoints)
Apis == {
  \* pkg/lookups/lookups.go UploadLookupFile: name := multipart form value; isPlainFileName; ".csv" appended; filepath.Join(lookupDir, name)
  Api("lookup-upload",    "body",      "none",      "join",   "write",  TRUE,  1, TRUE,  FALSE),
  \* GetLookupFile / DeleteLookupFile: name := route parameter {lookupFilename}; isPlainFileName; filepath.Join(lookupDir, name)
  Api("lookup-get",       "pathparam", "none",      "join",   "read",   FALSE, 1, TRUE,  FALSE),
  Api("lookup-delete",    "pathparam", "none",      "join",   "delete", FALSE, 1, TRUE,  FALSE),
  \* inputlookupcommand.go / generateevents.go: file name from the query text; .csv/.csv.gz; Base check; filepath.Join(lookupDir, name)
  Api("inputlookup",      "body",      "csvsuffix", "join",   "read",   TRUE,  1, TRUE,  FALSE),
  \* esBulkHandler.go: _index -> ProcessIndexRequestPle (IsNameSafeForPath) -> vtable.AddVirtualTable; at flush config.GetBaseSegDir:
  \* DataPath + host + "/final/" + index + "/" + streamid + "/" + suffix + "/" (plain concatenation, MkdirAll)
  Api("bulk-index",       "body",      "none",      "concat", "write",  FALSE, 2, TRUE,  FALSE),
  \* pkg/otlp/logs.go ingestLogs: index := resource attribute "siglensIndexName"; ONE ProcessIndexRequestPle call per ResourceLogs entry,
  \* all sharing one localIndexMap (AddAndGetRealIndexName puts the resolved name into that map before AddVirtualTable validates it)
  Api("otlp-logs-index",  "body",      "none",      "concat", "write",  FALSE, 2, TRUE,  FALSE),
  \* pkg/integrations/splunk ProcessSplunkHecIngestRequest: index := "index" field of every event; AddVirtualTable + AddMappingFromADoc
  \* per event, then one ProcessIndexRequestPle per distinct index (Loki pushes go to the fixed index "loki-index": no client name)
  Api("hec-index",        "body",      "none",      "concat", "write",  FALSE, 2, TRUE,  FALSE),
  \* ProcessPutIndex (PUT /elastic/{indexName}, .../_mapping): AddMapping: VTableMappingsDir + name + ".json" (IsNameSafeForPath)
  Api("put-index",        "pathparam", "none",      "concat", "write",  TRUE,  4, TRUE,  FALSE),
  \* ProcessPutPostSingleDocRequest (POST /elastic/{indexName}/_doc): AddVirtualTable, AddMappingFromADoc; segment directories as bulk
  Api("doc-index",        "pathparam", "none",      "concat", "write",  FALSE, 2, TRUE,  FALSE),
  \* ProcessPutAliasesRequest (PUT /elastic/{indexName}/_alias/{aliasName}): AddAliases: VTableAliasesDir + index + ".json"
  Api("alias-put",        "pathparam", "none",      "concat", "write",  TRUE,  4, TRUE,  FALSE),
  \* ProcessPostAliasesRequest (POST /elastic/_aliases): index from the JSON body -> AddAliases / RemoveAliases
  Api("aliases-add",      "body",      "none",      "concat", "write",  TRUE,  4, TRUE,  FALSE),
  Api("aliases-remove",   "body",      "none",      "concat", "delete", TRUE,  4, TRUE,  FALSE),
  \* ProcessGetIndexAlias / ProcessGetAlias: GetAliases reads VTableAliasesDir + index + ".json"
  Api("alias-get",        "pathparam", "none",      "concat", "read",   TRUE,  4, TRUE,  FALSE),
  \* ProcessDeleteIndex (DELETE /elastic/{indexName}): only names present in the virtual-table list are deleted
  Api("index-delete",     "pathparam", "known",     "concat", "delete", FALSE, 2, FALSE, FALSE),
  \* dashboards.go getDashboard: route parameter {dashboard-id}; DataPath + ".../dashboards/details/" + id + ".json";
  \* isDashboardIdSafeForPath since 79f3e7c (the write-back through refreshFolderMetadata happens only for ids of the folder structure)
  Api("dashboard-get",    "pathparam", "none",      "concat", "read",   TRUE,  4, TRUE,  TRUE),
  \* toggleFavorite / updateDashboard / deleteDashboard: id from the route / JSON body; must be a dashboard of the caller's folder
  \* structure (server-generated uuids)
  Api("dashboard-fav",    "pathparam", "known",     "concat", "write",  TRUE,  4, FALSE, TRUE),
  Api("dashboard-update", "body",      "known",     "concat", "write",  TRUE,  4, FALSE, TRUE),
  Api("dashboard-delete", "pathparam", "known",     "concat", "delete", TRUE,  4, FALSE, TRUE),
  \* folders.go: folder ids / parent ids are keys of folder_structure.json (deleting a folder removes the details files of the
  \* dashboards it CONTAINS - ids taken from the structure); usqueries.go: the query name is a key of usq.json; alerts and contact
  \* points live in the sqlite database; metric names are stored inside .mnm / tags-tree files: no path depends on the name
  Api("folder-create",    "body",      "none",      "fixed",  "write",  FALSE, 3, FALSE, TRUE),
  Api("folder-get",       "pathparam", "none",      "fixed",  "read",   FALSE, 3, FALSE, TRUE),
  Api("folder-delete",    "pathparam", "known",     "fixed",  "delete", FALSE, 3, FALSE, TRUE),
  Api("usq-save",         "body",      "none",      "fixed",  "write",  FALSE, 3, FALSE, TRUE),
  Api("usq-delete",       "pathparam", "none",      "fixed",  "delete", FALSE, 3, FALSE, TRUE),
  Api("alert-get",        "pathparam", "known",     "fixed",  "read",   FALSE, 0, FALSE, TRUE),
  Api("alert-delete",     "body",      "known",     "fixed",  "delete", FALSE, 0, FALSE, TRUE),
  Api("contact-delete",   "body",      "known",     "fixed",  "delete", FALSE, 0, FALSE, TRUE),
  Api("metric-name",      "body",      "none",      "fixed",  "write",  FALSE, 5, FALSE, FALSE),
  \* scroll.go getScrollResultsFilename(baseDir, scroll_id): baseDir + id + ".csv", but only for ids present in the in-memory table
  Api("scroll-id",        "body",      "known",     "concat", "read",   TRUE,  2, FALSE, FALSE),
  \* metrics tags tree (tagstree.go getTagsTreeFileName): ttBase + TAG KEY (concatenation); TagsHolder.Insert drops unsafe keys
  Api("metric-tagkey",    "body",      "none",      "concat", "write",  FALSE, 5, TRUE,  FALSE)
}

Names == UNION {[1..n -> Classes] : n \in 1..MaxLen}
Has(name, c) == \E i \in DOMAIN name : name[i] = c
Entries(a) == IF a.transport = "pathparam" THEN {"http", "handler"} ELSE {"http"}
Hists(a) == IF a.store THEN {"fresh", "created", "deleted"} ELSE {"fresh"}
(* occurrence of the hostile name within ONE request: its first use, or a repeated use (second and later action line / resource /
   event / datapoint carrying the same name) - per-request caches keyed by the name are consulted from the second use on *)
Occs(a) == IF a.multi THEN {"first", "repeated"} ELSE {"first"}

(* ---- what the byte-wise checks and the kernel see / what the path is built from ---- *)
Plainify(name) == [i \in DOMAIN name |-> IF name[i] \in {"lkdot", "lkup", "lksep"} THEN "plain" ELSE name[i]]
Realify(name) == [i \in DOMAIN name |-> CASE name[i] = "lkdot" -> "dot" [] name[i] = "lkup" -> "up" [] name[i] = "lksep" -> "sep"
                                          [] OTHER -> name[i]]
AsChecked(a, name) == Plainify(name)
AsUsed(a, name) == IF a.api \in NormAfterGuard THEN Realify(name) ELSE Plainify(name)

(* ---- transport ---- *)
Arrives(a, e, name) ==
  IF a.transport = "pathparam" /\ e = "http" THEN ~(Has(name, "sep") \/ Has(name, "abs"))
  ELSE TRUE

(* ---- validation at the call site ---- *)
Passes(a, name, h) ==
  CASE a.check = "known"     -> FALSE         \* a client-invented name is never a key of the server-side table, whatever its history
    [] a.check = "csvsuffix" -> TRUE          \* the concretisation appends ".csv"
    [] OTHER                 -> TRUE

(* ---- the OS refuses NUL bytes and over-long components - if they are still in the path when it reaches the kernel:
   filepath.Join cleans lexically, so "<4 KiB word>/.." disappears before any system call; with plain concatenation the
   kernel walks the component (ENAMETOOLONG / EINVAL) ---- *)
OsRefuses(a, name) ==
  IF a.build = "join"
  THEN \E i \in DOMAIN name : name[i] \in {"nul", "long"} /\ \A j \in DOMAIN name : j > i => name[j] # "up"
  ELSE Has(name, "nul") \/ Has(name, "long")

(* ---- depth walk: position of the resulting path relative to the base directory of the call site.
   Both constructions end up in the same place: filepath.Join cleans lexically, concatenation lets the kernel
   resolve ".." (every intermediate directory is a real directory).  "abs" inside a joined/concatenated path is just
   another separator ("base//abs/..."), it does not restart at the root.  Depth < 0 means: above the base. *)
RECURSIVE Walk(_, _, _)
Walk(name, i, d) ==
  IF i > Len(name) THEN d
  ELSE LET c == name[i] IN
       IF d < 0 THEN d                                   \* once above the base directory, stay escaped (conservative)
       ELSE IF c = "up" THEN Walk(name, i + 1, d - 1)
       ELSE IF c \in {"plain", "encsep", "long", "nul"} /\ (i = 1 \/ name[i - 1] \in {"sep", "abs"}) THEN Walk(name, i + 1, d + 1)
       ELSE Walk(name, i + 1, d)
(* a name segment sequence is well-formed for the walk when segments are separated; "up" directly after a plain word
   without separator ("word..") is just a longer word *)
IsUp(a, name, i) == /\ name[i] = "up" /\ (i = 1 \/ name[i - 1] \in {"sep", "abs"})
                    /\ IF i = Len(name) THEN ~a.suffix ELSE name[i + 1] = "sep"
Canon(a, name) == [i \in DOMAIN name |-> IF name[i] = "up" /\ ~IsUp(a, name, i) THEN "plain" ELSE name[i]]

LeavesBase(a, name) == Walk(Canon(a, name), 1, 0) < 0
(* leaving the base directory by more than its depth below the data directory leaves the data directory; the model is
   conservative: leaving the BASE is already reported, the replay decides where the path really ends *)
(* a guard = "the name is a single path component": no separator, not "." / "..", no NUL - evaluated on what the check sees *)
Guarded(a, o) == (GuardMode = "all" \/ a.guard)
                 /\ ~(o = "repeated" /\ a.api \in CacheBeforeGuard)     \* the cached entry is returned, the validation is skipped
GuardRejects(a, name) == LET n == AsChecked(a, name) IN Has(n, "sep") \/ Has(n, "abs") \/ Has(n, "nul") \/ LeavesBase(a, n)

Resolve(a, e, name, h, o) ==
  IF ~Arrives(a, e, name) THEN "NotRouted"
  ELSE IF ~Passes(a, name, h) THEN "Rejected"
  ELSE IF a.build = "fixed" THEN "Confined"
  ELSE IF Guarded(a, o) /\ GuardRejects(a, name) THEN "Rejected"
  ELSE IF OsRefuses(a, AsUsed(a, name)) THEN "Rejected"
  ELSE IF LeavesBase(a, AsUsed(a, name)) THEN "Escapes"
  ELSE "Confined"

VARIABLES api, entry, hist, occ, name, result, done
vars == <<api, entry, hist, occ, name, result, done>>
(* one initial state per (API, entry point, store history) - lets TLC explore them in parallel; one step: the client sends a name *)
Init == /\ api \in Apis /\ entry \in Entries(api) /\ hist \in Hists(api) /\ occ \in Occs(api)
        /\ name = <<>> /\ result = "-" /\ done = FALSE
Op(n) == /\ ~done
         /\ name' = n /\ result' = Resolve(api, entry, n, hist, occ) /\ done' = TRUE /\ UNCHANGED <<api, entry, hist, occ>>
Next == \E n \in Names : Op(n)
Spec == Init /\ [][Next]_vars

(* The property: the resolved path stays under the data directory or the operation is rejected. *)
Confined == result \in {"-", "Confined", "Rejected", "NotRouted"}
TypeOK == done \in BOOLEAN /\ entry \in {"http", "handler"} /\ hist \in {"fresh", "created", "deleted"} /\ occ \in {"first", "repeated"}
=============================================================================
