------------------------------- MODULE Paths -------------------------------
(* C19 - user-supplied names cannot reach files outside the data directory.

   A NAME is a sequence of segment classes:
     plain   an ordinary path-safe word
     dot     "."
     up      ".." (a dot-dot segment)
     sep     "/"
     abs     a leading "/" followed by an absolute path
     encsep  the three characters "%2f" AS SEEN BY THE HANDLER (i.e. after the transport decoded once)
     nul     a NUL byte
     long    a 4 KiB segment
   Every API operation that derives a file path from request data is one record of
   Apis: how the name reaches the handler (transport), which validation the call
   site applies, how the call site builds the path (plain string concatenation or
   filepath.Join - transcribed from the code, see the comment per API) and what it
   does with the file.  Resolve(api, name) is the resulting normalised location
   relative to the API's base directory or a rejection.

   Transport facts (fasthttp + fasthttp/router, established by reading
   fasthttp.URI.normalizePath and confirmed by the replay):
     pathparam  the request path is percent-decoded ONCE and normalised ("/./", "/../" and
                "//" removed) BEFORE routing; a {param} matches one path segment.  A name
                containing sep, up, dot or abs therefore never arrives as the parameter (the
                request is routed elsewhere / 404).  A double-encoded separator arrives as the
                literal "%2f" (class encsep).
     body       JSON field / multipart form value / query text: arrives unchanged.

   Guard = TRUE models the repaired call sites (docs/patches/C19-*.patch: reject a name
   whose cleaned path leaves the base directory); Guard = FALSE is the code as it is. *)
EXTENDS Integers, Sequences, FiniteSets, TLC

CONSTANTS MaxLen,      \* maximal number of segment classes in a name
          Guard        \* BOOLEAN

Classes == {"plain", "dot", "up", "sep", "abs", "encsep", "nul", "long"}

(* transport, validation, construction, effect; suffix = the call site appends an extension to the name (so a trailing ".."
   becomes the word "..ext"); base = depth of the base directory below the data directory *)
Apis == {
  \* pkg/lookups/lookups.go UploadLookupFile: name := multipart form value; ".csv" appended unless present; filepath.Join(lookupDir, name)
  [api |-> "lookup-upload",   transport |-> "body",      check |-> "none",      build |-> "join",   effect |-> "write",  suffix |-> TRUE, base |-> 1],
  \* GetLookupFile / DeleteLookupFile: name := route parameter {lookupFilename}; filepath.Join(lookupDir, name)
  [api |-> "lookup-get",      transport |-> "pathparam", check |-> "none",      build |-> "join",   effect |-> "read",   suffix |-> FALSE, base |-> 1],
  [api |-> "lookup-delete",   transport |-> "pathparam", check |-> "none",      build |-> "join",   effect |-> "delete", suffix |-> FALSE, base |-> 1],
  \* inputlookupcommand.go / generateevents.go: file name from the query text; must end in .csv/.csv.gz; filepath.Join(lookupDir, name)
  [api |-> "inputlookup",     transport |-> "body",      check |-> "csvsuffix", build |-> "join",   effect |-> "read",   suffix |-> TRUE, base |-> 1],
  \* esBulkHandler.go: _index of the action line -> vtable.AddVirtualTable (appends the NAME to virtualtablenames.txt) and, at flush,
  \* config.GetBaseSegDir: DataPath + host + "/final/" + index + "/" + streamid + "/" + suffix + "/" (plain concatenation, MkdirAll)
  [api |-> "bulk-index",      transport |-> "body",      check |-> "none",      build |-> "concat", effect |-> "write",  suffix |-> FALSE, base |-> 2],
  \* ProcessPutIndex (PUT /elastic/{indexName}, .../_mapping): AddMapping: VTableMappingsDir + name + ".json" (concatenation)
  [api |-> "put-index",       transport |-> "pathparam", check |-> "none",      build |-> "concat", effect |-> "write",  suffix |-> TRUE, base |-> 4],
  \* ProcessPutPostSingleDocRequest (POST /elastic/{indexName}/_doc): AddMappingFromADoc -> AddMapping; segment directories as bulk
  [api |-> "doc-index",       transport |-> "pathparam", check |-> "none",      build |-> "concat", effect |-> "write",  suffix |-> FALSE, base |-> 2],
  \* ProcessPutAliasesRequest (PUT /elastic/{indexName}/_alias/{aliasName}): AddAliases: VTableAliasesDir + index + ".json"
  [api |-> "alias-put",       transport |-> "pathparam", check |-> "none",      build |-> "concat", effect |-> "write",  suffix |-> TRUE, base |-> 4],
  \* ProcessPostAliasesRequest (POST /elastic/_aliases): index from the JSON body -> AddAliases (GetAliases reads, writeAliasFile writes)
  [api |-> "aliases-add",     transport |-> "body",      check |-> "none",      build |-> "concat", effect |-> "write",  suffix |-> TRUE, base |-> 4],
  \* ... remove action -> RemoveAliases -> removeAliasFile: os.Remove(VTableAliasesDir + index + ".json")
  [api |-> "aliases-remove",  transport |-> "body",      check |-> "none",      build |-> "concat", effect |-> "delete", suffix |-> TRUE, base |-> 4],
  \* ProcessGetIndexAlias (GET /elastic/{indexName}/_alias/{aliasName}): GetAliases reads VTableAliasesDir + index + ".json"
  [api |-> "alias-get",       transport |-> "pathparam", check |-> "none",      build |-> "concat", effect |-> "read",   suffix |-> TRUE, base |-> 4],
  \* ProcessDeleteIndex (DELETE /elastic/{indexName}): only names present in the virtual-table list are deleted
  [api |-> "index-delete",    transport |-> "pathparam", check |-> "known",     build |-> "concat", effect |-> "delete", suffix |-> FALSE, base |-> 2],
  \* dashboards.go getDashboard / toggleFavorite: route parameter {dashboard-id}; DataPath + ".../dashboards/details/" + id + ".json"
  [api |-> "dashboard-get",   transport |-> "pathparam", check |-> "none",      build |-> "concat", effect |-> "read",   suffix |-> TRUE, base |-> 4],
  [api |-> "dashboard-fav",   transport |-> "pathparam", check |-> "none",      build |-> "concat", effect |-> "write",  suffix |-> TRUE, base |-> 4],
  \* updateDashboard / deleteDashboard: id from the JSON body / route; must be a key of the folder structure (server-generated uuids)
  [api |-> "dashboard-update", transport |-> "body",     check |-> "known",     build |-> "concat", effect |-> "write",  suffix |-> TRUE, base |-> 4],
  [api |-> "dashboard-delete", transport |-> "pathparam", check |-> "known",    build |-> "concat", effect |-> "delete", suffix |-> TRUE, base |-> 4],
  \* folders.go: folder ids / parent ids are keys of folder_structure.json; usqueries.go: the query name is a key of usq.json;
  \* metric names are stored inside .mnm / tags-tree files: the file path does not depend on the name at all
  [api |-> "folder-create",   transport |-> "body",      check |-> "none",      build |-> "fixed",  effect |-> "write",  suffix |-> FALSE, base |-> 3],
  [api |-> "folder-get",      transport |-> "pathparam", check |-> "none",      build |-> "fixed",  effect |-> "read",   suffix |-> FALSE, base |-> 3],
  [api |-> "usq-save",        transport |-> "body",      check |-> "none",      build |-> "fixed",  effect |-> "write",  suffix |-> FALSE, base |-> 3],
  [api |-> "usq-delete",      transport |-> "pathparam", check |-> "none",      build |-> "fixed",  effect |-> "delete", suffix |-> FALSE, base |-> 3],
  [api |-> "metric-name",     transport |-> "body",      check |-> "none",      build |-> "fixed",  effect |-> "write",  suffix |-> FALSE, base |-> 5],
  \* scroll.go getScrollResultsFilename(baseDir, scroll_id): baseDir + id + ".csv", but only for ids present in the in-memory table
  [api |-> "scroll-id",       transport |-> "body",      check |-> "known",     build |-> "concat", effect |-> "read",   suffix |-> TRUE, base |-> 2],
  \* metrics tags tree (tagstree.go getTagsTreeFileName): ttBase + TAG KEY (concatenation), written at tags-tree flush
  [api |-> "metric-tagkey",   transport |-> "body",      check |-> "none",      build |-> "concat", effect |-> "write",  suffix |-> FALSE, base |-> 5]
}

Names == UNION {[1..n -> Classes] : n \in 1..MaxLen}
Has(name, c) == \E i \in DOMAIN name : name[i] = c

(* ---- transport ---- *)
Arrives(a, name) ==
  IF a.transport = "pathparam" THEN ~(Has(name, "sep") \/ Has(name, "up") \/ Has(name, "dot") \/ Has(name, "abs"))
  ELSE TRUE

(* ---- validation at the call site ---- *)
Passes(a, name) ==
  CASE a.check = "known"     -> FALSE         \* a client-invented name is never a key of the server-side table
    [] a.check = "csvsuffix" -> TRUE          \* the concretisation appends ".csv"
    [] OTHER                 -> TRUE

(* ---- the OS refuses NUL bytes and over-long components - if they are still in the path when it reaches the kernel:
   filepath.Join cleans lexically, so "<4 KiB word>/.." disappears before any system call; with plain concatenation the
   kernel walks the component (ENAMETOOLONG / EINVAL) ---- *)
OsRefuses(a, name) ==
  IF a.build = "join"
  THEN \E i \in DOMAIN name : name[i] \in {"nul", "long"} /\ \A j \in DOMAIN name : j > i => name[j] # "up"
  ELSE Has(name, "nul") \/ Has(name, "long")

(* ---- depth walk: position of the resulting path relative to the base directory of the call site.
   Both constructions end up in the same place: filepath.Join cleans lexically, concatenation lets the kernel
   resolve ".." (every intermediate directory is a real directory).  "abs" inside a joined/concatenated path is just
   another separator ("base//abs/..."), it does not restart at the root.  Depth < 0 means: above the base. *)
RECURSIVE Walk(_, _, _)
Walk(name, i, d) ==
  IF i > Len(name) THEN d
  ELSE LET c == name[i] IN
       IF d < 0 THEN d                                   \* once above the base directory, stay escaped (conservative)
       ELSE IF c = "up" THEN Walk(name, i + 1, d - 1)
       ELSE IF c \in {"plain", "encsep", "long", "nul"} /\ (i = 1 \/ name[i - 1] \in {"sep", "abs"}) THEN Walk(name, i + 1, d + 1)
       ELSE Walk(name, i + 1, d)
(* a name segment sequence is well-formed for the walk when segments are separated; "up" directly after a plain word
   without separator ("word..") is just a longer word *)
IsUp(a, name, i) == /\ name[i] = "up" /\ (i = 1 \/ name[i - 1] \in {"sep", "abs"})
                    /\ IF i = Len(name) THEN ~a.suffix ELSE name[i + 1] = "sep"
Canon(a, name) == [i \in DOMAIN name |-> IF name[i] = "up" /\ ~IsUp(a, name, i) THEN "plain" ELSE name[i]]

LeavesBase(a, name) == Walk(Canon(a, name), 1, 0) < 0
(* leaving the base directory by more than its depth below the data directory leaves the data directory; the model is
   conservative: leaving the BASE is already reported, the replay decides where the path really ends *)

Resolve(a, name) ==
  IF ~Arrives(a, name) THEN "NotRouted"
  ELSE IF ~Passes(a, name) THEN "Rejected"
  ELSE IF a.build = "fixed" THEN "Confined"
  ELSE IF Guard /\ LeavesBase(a, name) THEN "Rejected"
  ELSE IF OsRefuses(a, name) THEN "Rejected"
  ELSE IF LeavesBase(a, name) THEN "Escapes"
  ELSE "Confined"

VARIABLES api, name, result, done
vars == <<api, name, result, done>>
(* one initial state per API (lets TLC explore the APIs in parallel), one step: the client sends a name *)
Init == api \in Apis /\ name = <<>> /\ result = "-" /\ done = FALSE
Op(n) == /\ ~done
         /\ name' = n /\ result' = Resolve(api, n) /\ done' = TRUE /\ UNCHANGED api
Next == \E n \in Names : Op(n)
Spec == Init /\ [][Next]_vars

(* The property: the resolved path stays under the data directory or the operation is rejected. *)
Confined == result \in {"-", "Confined", "Rejected", "NotRouted"}
TypeOK == done \in BOOLEAN
=============================================================================
