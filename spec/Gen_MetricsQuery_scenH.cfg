SPECIFICATION ScenSpec
CONSTANTS
  USeq <- UH
  Scenarios <- ScenH
  Grids = {"pow", "neg", "tie"}
  Orders = {"time"}
  NT = 3
  MaxOps = 0
  Tails <- TailsH
  Queries <- QueriesHAll
  RegisterPerSegment = TRUE
CONSTRAINT EmitScenario
CHECK_DEADLOCK FALSE
