---------------------------- MODULE Judge_Alerts ----------------------------
(* Judges traces recorded from the REAL alertsHandler package (one JSON line per
   replayed behaviour: id, n, cool, steps = <<[a, eff, d, state, hstate, neval, sent, att], ...>>) with
   the operators of AlertsLaw - the law is written once, in TLA+.  For every trace
   the first evaluation whose observed state differs from LawState, or whose
   observed notification is not admissible, is reported; the verdicts are written
   to alert_verdicts.ndjson.  (A deterministic fold; TLC is used as the evaluator.) *)
EXTENDS AlertsLaw, TLC, Json, SequencesExt

Traces == ndJsonDeserialize("alert_traces.ndjson")

(* acc = [g, bad, i]; bad = <<>> or <<[step, kind, law, adm, state, sent]>> *)
StepFn(n, cool, acc, ev) ==
    IF acc.bad # <<>> THEN acc
    ELSE LET i == acc.i + 1 IN
      CASE ev.a = "eval" ->
             LET fail == ev.d = "fail"
                 r == LawEval(acc.g, ev.eff, ev.sent, n, cool, fail)
                 stateOK == ev.state = r.law
                 notifOK == ev.sent \in r.adm
                 \* an owed notification whose delivery fails must at least have been attempted
                 triedOK == (fail /\ r.owed) => ev.att > 0
                 \* every evaluation is recorded, whatever the delivery did: counter and newest history row
                 bookOK == ev.neval = Len(r.g.cs) /\ ev.hstate = r.law
                 rep(kind) == <<[step |-> i, kind |-> kind, law |-> r.law, adm |-> r.adm, state |-> ev.state,
                                 sent |-> ev.sent, conds |-> r.g.cs, now |-> acc.g.now, lastSent |-> acc.g.lastSent,
                                 lastKind |-> acc.g.lastKind, silenced |-> acc.g.silenced]>>
             IN [g |-> r.g, i |-> i,
                 bad |-> IF ~stateOK THEN rep("state") ELSE IF ~bookOK THEN rep("history")
                         ELSE IF ~notifOK THEN rep("notif") ELSE IF ~triedOK THEN rep("untried") ELSE <<>>]
        [] ev.a = "tick" -> [acc EXCEPT !.g = LawTick(acc.g), !.i = i]
        [] ev.a = "silence" -> [acc EXCEPT !.g = LawSilence(acc.g, TRUE), !.i = i]
        [] ev.a = "unsilence" -> [acc EXCEPT !.g = LawSilence(acc.g, FALSE), !.i = i]
        [] OTHER -> [acc EXCEPT !.i = i]     \* "edit": no effect on the law

Judge(t) == LET r == FoldLeft(LAMBDA acc, ev : StepFn(t.n, t.cool, acc, ev), [g |-> Ghost0, bad |-> <<>>, i |-> 0], t.steps)
            IN [id |-> t.id, bad |-> r.bad]

Verdicts == [k \in 1..Len(Traces) |-> Judge(Traces[k])]

VARIABLE done
Init == done = ndJsonSerialize("alert_verdicts.ndjson", Verdicts)
Next == UNCHANGED done
Spec == Init /\ [][Next]_done
=============================================================================
