SPECIFICATION GenSpec
CONSTANTS
  Streams <- OneStream
  Classes <- ClassesQ3
  TsClasses <- TsOne
  Cols <- ColsAll
  ClassKinds <- KindsTabQ
  ClassX <- XTabQ
  ClassXS <- XSTabQ
  ClassT <- TTabQ
  ClassM <- MTabQ
  LowerOf <- LowerTab
  QNums <- QNumsOne
  QWords <- QWordsTwo
  MaxEvents = 4
  MaxBatch = 2
  MaxFlush = 2
  MaxRotate = 1
  MaxRestart = 0
  MaxPromote = 0
  PromoteOps <- PromoNone
  BlockCap = 99
  CardLimit = 2
  NeSkipsConstBlock = FALSE
  LowerOnInsert = TRUE
  MaxSteps = 5
CONSTRAINT Emit
CHECK_DEADLOCK FALSE
