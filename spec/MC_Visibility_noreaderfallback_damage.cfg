SPECIFICATION Spec
CONSTANTS
  MaxEvents = 4
  MaxFlush = 2
  MaxRot = 2
  Dedup = TRUE
  Recheck = TRUE
  UseTree = TRUE
  TreeAtomic = TRUE
  ReaderFallback = FALSE
INVARIANTS NoDamage
CHECK_DEADLOCK FALSE
