--------------------------- MODULE FlushProtocol ---------------------------
(* Durable state of one log stream across block flushes, a segment rotation and a process crash
   (pkg/segment/writer/segstore.go AppendWipToSegfile / checkAndRotateColFiles, segmetarw.go WriteSfm /
   addSegmeta, suffix/suffix.go; recovery: pkg/segment/query/queryrefresh.go populateMicroIndices /
   syncSegMetaWithSegFullMeta, metadata/segmentmicroindex.go).

   One action per class of file-system operation the code performs, in the code's order.  A crash may
   happen between any two actions (process-crash model: completed system calls persist).

     flush b of the open segment:
        ColWrite(c)      column c's chunk b appended to its .csg (placeholder header, data, header patched by
                         pwrite: collapsed into "torn" -> "ok"; columns are written by parallel goroutines)
        ColsJoined       all column goroutines joined
        BsuAppend        block summary b appended to .bsu
        SstTmp / SstRename   .sst.tmp rewritten, renamed over .sst (holds per-column stats of blocks 1..b)
        SfmWrite         .sfm (segment full meta: record count, number of blocks, ...) rewritten for blocks 1..b.
                         SfmAtomic = TRUE : written to a temporary file and renamed (the "fix:" commit)
                         SfmAtomic = FALSE: O_TRUNC, then write (pinned commit): SfmTrunc and SfmFill are two steps
        MarkDone         the flush call returns (harness marker "flush.done")
     rotation of the segment:
        TreeBegin / TreeLev / TreeEnd   (Tree = TRUE: the persistent-query machinery tracks group-by columns) the agile tree
                         of the segment is written: meta file .strm opened, level file .strl written, .strm completed.
                         Queries take the existence of .strm as "this segment has a tree" and read it at once.
                         TreeAtomic = FALSE (pinned commit): .strm is created under its final name and filled later;
                         TreeAtomic = TRUE (the "fix:" commit): written as .strm.tmp and renamed when complete
        RotSfmWrite      .sfm rewritten once more with the final counts (same mechanism as SfmWrite; found by trace
                         validation: the first version of this spec did not have the step and rejected every real trace)
        SegmetaAppend    one line appended to segmeta.json
        RotDone          in-memory only (metadata visible / unrotated info removed), next suffix taken
     Crash, then Recover:
        a segment listed in segmeta.json is adopted with the block count its line records;
        an unlisted segment directory is adopted iff its .sfm parses; blocks come from the .bsu file
        (the reader takes what .bsu holds, bounded by what .sfm says).                                   *)
EXTENDS Naturals, Sequences, FiniteSets, TLC

CONSTANTS NF,         \* flushes of the segment before rotation
          Cols,       \* column names
          SfmAtomic,  \* BOOLEAN, see above
          Rotate,     \* BOOLEAN: does a rotation follow the NF flushes
          Tree,       \* BOOLEAN: does the rotation write an agile tree
          TreeAtomic  \* BOOLEAN, see above

VARIABLES blk,        \* block being flushed (1..NF), NF+1 when all flushes are done
          step,       \* "cols" | "bsu" | "ssttmp" | "sstren" | "sfm" | "sfmfill" | "mark" | "tree" | "treelev" | "treeend" | "rotsfm" | "rotsfmfill" |
                      \* "segmeta" | "rotdone" | "end"
          cpc,        \* [Cols -> "todo" | "torn" | "ok"]  state of chunk blk of each column
          csg,        \* [Cols -> number of complete chunks]  (+ cpc says whether a torn one follows)
          bsu,        \* number of block summaries in .bsu
          sst,        \* [tmp, fin]: blocks covered by .sst.tmp / .sst
          sfm,        \* [st |-> "absent" | "empty" | "ok", n |-> blocks recorded]
          strm,       \* "absent" | "partial" | "complete": what a reader of <segkey>.strm finds
          segmeta,    \* 0 = not listed, else the number of blocks its segmeta.json line records
          done,       \* number of flushes whose call returned before the crash
          crashed,
          visible,    \* after recovery: set of blocks whose events are searchable
          statsBlocks \* after recovery: number of blocks the segment's record count / statistics cover
vars == <<blk, step, cpc, csg, bsu, sst, sfm, strm, segmeta, done, crashed, visible, statsBlocks>>

Init == /\ blk = 1 /\ step = "cols" /\ cpc = [c \in Cols |-> "todo"] /\ csg = [c \in Cols |-> 0]
        /\ bsu = 0 /\ sst = [tmp |-> 0, fin |-> 0] /\ sfm = [st |-> "absent", n |-> 0] /\ strm = "absent" /\ segmeta = 0
        /\ done = 0 /\ crashed = FALSE /\ visible = {} /\ statsBlocks = 0

Live == ~crashed
ColStart(c) == /\ Live /\ step = "cols" /\ cpc[c] = "todo" /\ cpc' = [cpc EXCEPT ![c] = "torn"]
               /\ UNCHANGED <<blk, step, csg, bsu, sst, sfm, strm, segmeta, done, crashed, visible, statsBlocks>>
ColFinish(c) == /\ Live /\ step = "cols" /\ cpc[c] = "torn"
                /\ cpc' = [cpc EXCEPT ![c] = "ok"] /\ csg' = [csg EXCEPT ![c] = @ + 1]
                /\ UNCHANGED <<blk, step, bsu, sst, sfm, strm, segmeta, done, crashed, visible, statsBlocks>>
ColsJoined == /\ Live /\ step = "cols" /\ \A c \in Cols : cpc[c] = "ok" /\ step' = "bsu"
              /\ UNCHANGED <<blk, cpc, csg, bsu, sst, sfm, strm, segmeta, done, crashed, visible, statsBlocks>>
BsuAppend == /\ Live /\ step = "bsu" /\ bsu' = blk /\ step' = "ssttmp"
             /\ UNCHANGED <<blk, cpc, csg, sst, sfm, strm, segmeta, done, crashed, visible, statsBlocks>>
SstTmp == /\ Live /\ step = "ssttmp" /\ sst' = [sst EXCEPT !.tmp = blk] /\ step' = "sstren"
          /\ UNCHANGED <<blk, cpc, csg, bsu, sfm, strm, segmeta, done, crashed, visible, statsBlocks>>
SstRename == /\ Live /\ step = "sstren" /\ sst' = [sst EXCEPT !.fin = sst.tmp] /\ step' = "sfm"
             /\ UNCHANGED <<blk, cpc, csg, bsu, sfm, strm, segmeta, done, crashed, visible, statsBlocks>>
SfmWrite == /\ Live /\ step = "sfm"
            /\ IF SfmAtomic THEN sfm' = [st |-> "ok", n |-> blk] /\ step' = "mark"
               ELSE sfm' = [st |-> "empty", n |-> 0] /\ step' = "sfmfill"         \* O_TRUNC
            /\ UNCHANGED <<blk, cpc, csg, bsu, sst, strm, segmeta, done, crashed, visible, statsBlocks>>
SfmFill == /\ Live /\ step = "sfmfill" /\ sfm' = [st |-> "ok", n |-> blk] /\ step' = "mark"
           /\ UNCHANGED <<blk, cpc, csg, bsu, sst, strm, segmeta, done, crashed, visible, statsBlocks>>
MarkDone == /\ Live /\ step = "mark" /\ done' = blk /\ blk' = blk + 1
            /\ cpc' = [c \in Cols |-> "todo"]
            /\ step' = IF blk < NF THEN "cols" ELSE IF Rotate THEN (IF Tree THEN "tree" ELSE "rotsfm") ELSE "end"
            /\ UNCHANGED <<csg, bsu, sst, sfm, strm, segmeta, crashed, visible, statsBlocks>>
TreeBegin == /\ Live /\ step = "tree" /\ strm' = (IF TreeAtomic THEN "absent" ELSE "partial") /\ step' = "treelev"
             /\ UNCHANGED <<blk, cpc, csg, bsu, sst, sfm, segmeta, done, crashed, visible, statsBlocks>>
TreeLev == /\ Live /\ step = "treelev" /\ step' = "treeend"
           /\ UNCHANGED <<blk, cpc, csg, bsu, sst, sfm, strm, segmeta, done, crashed, visible, statsBlocks>>
TreeEnd == /\ Live /\ step = "treeend" /\ strm' = "complete" /\ step' = "rotsfm"
           /\ UNCHANGED <<blk, cpc, csg, bsu, sst, sfm, segmeta, done, crashed, visible, statsBlocks>>
RotSfmWrite == /\ Live /\ step = "rotsfm"
               /\ IF SfmAtomic THEN sfm' = [st |-> "ok", n |-> NF] /\ step' = "segmeta"
                  ELSE sfm' = [st |-> "empty", n |-> 0] /\ step' = "rotsfmfill"
               /\ UNCHANGED <<blk, cpc, csg, bsu, sst, strm, segmeta, done, crashed, visible, statsBlocks>>
RotSfmFill == /\ Live /\ step = "rotsfmfill" /\ sfm' = [st |-> "ok", n |-> NF] /\ step' = "segmeta"
              /\ UNCHANGED <<blk, cpc, csg, bsu, sst, strm, segmeta, done, crashed, visible, statsBlocks>>
SegmetaAppend == /\ Live /\ step = "segmeta" /\ segmeta' = NF /\ step' = "rotdone"
                 /\ UNCHANGED <<blk, cpc, csg, bsu, sst, sfm, strm, done, crashed, visible, statsBlocks>>
RotDone == /\ Live /\ step = "rotdone" /\ step' = "end"
           /\ UNCHANGED <<blk, cpc, csg, bsu, sst, sfm, strm, segmeta, done, crashed, visible, statsBlocks>>

Readable(b) == \A c \in Cols : csg[c] >= b
Adopted == segmeta > 0 \/ sfm.st = "ok"
Crash == /\ ~crashed /\ crashed' = TRUE
         /\ visible' = IF ~Adopted THEN {} ELSE {b \in 1..bsu : Readable(b)}
         /\ statsBlocks' = IF segmeta > 0 THEN segmeta ELSE IF sfm.st = "ok" THEN sfm.n ELSE 0
         /\ UNCHANGED <<blk, step, cpc, csg, bsu, sst, sfm, strm, segmeta, done>>

Next == \/ \E c \in Cols : ColStart(c) \/ ColFinish(c)
        \/ ColsJoined \/ BsuAppend \/ SstTmp \/ SstRename \/ SfmWrite \/ SfmFill \/ MarkDone
        \/ TreeBegin \/ TreeLev \/ TreeEnd \/ RotSfmWrite \/ RotSfmFill \/ SegmetaAppend \/ RotDone \/ Crash
Spec == Init /\ [][Next]_vars
-----------------------------------------------------------------------------
\* every flush that had completed before the crash is searchable afterwards
Durable == crashed => \A b \in 1..done : b \in visible
\* the flush in progress is all-or-nothing and nothing else appears
NoInvent == crashed => visible \subseteq 1..(done + 1)
\* a block listed in .bsu never has a torn column chunk (.bsu is appended after the column goroutines joined)
BsuImpliesReadable == \A b \in 1..bsu : Readable(b)
\* what the segment's recorded counts cover = what is searchable (else count(*) and a record search disagree)
CountAgrees == (crashed /\ Adopted) => statsBlocks = Cardinality(visible)
\* after a crash a group-by query never finds a half-written agile tree (it would read it: wrong answer or process death)
TreeReadable == crashed => strm # "partial"
TypeOK == /\ step \in {"cols", "bsu", "ssttmp", "sstren", "sfm", "sfmfill", "mark", "tree", "treelev", "treeend", "rotsfm", "rotsfmfill", "segmeta", "rotdone", "end"}
          /\ strm \in {"absent", "partial", "complete"}
=============================================================================
