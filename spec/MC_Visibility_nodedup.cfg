SPECIFICATION Spec
CONSTANTS
  MaxEvents = 4
  MaxFlush = 2
  MaxRot = 2
  Dedup = FALSE
INVARIANTS NoDup NoLoss NoInvent NeverInNeither TypeOK
CHECK_DEADLOCK FALSE
