SPECIFICATION Spec
CONSTANTS
  MaxEvents = 4
  MaxFlush = 2
  MaxRot = 2
  Dedup = FALSE
  Recheck = TRUE
INVARIANTS NoDup NoLoss NoInvent NeverInNeither TypeOK
CHECK_DEADLOCK FALSE
