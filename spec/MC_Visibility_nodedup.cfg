SPECIFICATION Spec
CONSTANTS
  MaxEvents = 4
  MaxFlush = 2
  MaxRot = 2
  Dedup = FALSE
  Recheck = TRUE
  ReaderFallback = TRUE
INVARIANTS NoDup NoLoss NoInvent NoDamage NeverInNeither TypeOK
CHECK_DEADLOCK FALSE
