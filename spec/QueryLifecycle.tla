--------------------------- MODULE QueryLifecycle ---------------------------
(* Life cycle of a query in pkg/segment/query/querystatus.go together with the
   handler loop of pipesearch.RunQueryForNewPipeline, the executor goroutine
   (segment.ExecuteQueryInternalNewPipeline) and the timeout goroutine
   (setupTimeoutCancelFunc).  One action per critical section of the Go code;
   the three locks that matter are explicit:

     arq   arqMapLock        (RW; only the writer side can be held across a blocking
                              channel send: withLockRunQuery sends READY, RUNNING)
     wq    waitingQueriesLock (CancelQuery holds it across its CANCELLED send)
     chan[q]  RunningQueryState.StateChan, bounded FIFO of capacity CAP, blocking send

   Deliberate deviations of the code from an idealised design are kept as they are:
     * CancelQuery looks the query up in `running`, then (since the first "fix:" commit) in the waiting
       queue.  A query that the puller has already dequeued but not yet inserted into `running` was
       in neither and the cancel was lost (SeesAdmitting = FALSE, violates CancelTakesEffect).  Since the
       second "fix:" commit (SeesAdmitting = TRUE) the puller publishes the query it is admitting
       (admittingQuery, under the waiting-queue lock, cleared after RunQuery returned: PullClear), the
       waiting-queue look also checks it, and a cancel that misses both looks once more in `running`
       (CancelRelook), because the query may have been admitted between its two looks.
     * the sync handler returns on TIMEOUT; the async handler keeps looping until the
       CANCELLED that the timer's CancelQuery sends.
     * DeleteQuery of a cancelled query does not stop its timer.                      *)
EXTENDS Naturals, Sequences, FiniteSets, TLC

CONSTANTS Q,        \* query ids
          MAXRUN,   \* MAX_RUNNING_QUERIES
          CAP,      \* queryStateChanSize
          ASYNC,    \* websocket path (executor streams QUERY_UPDATE) or sync http path
          MAXUPD,   \* bound on QUERY_UPDATE messages per query (async)
          CANCELS,  \* how many client cancel calls may be issued per query
          TIMERS,   \* BOOLEAN: may the query timeout fire
          SeesAdmitting \* BOOLEAN: does CancelQuery see the query the puller is admitting (see above)

VARIABLES running,    \* allRunningQueries (set of qids)
          waiting,    \* waitingQueries (FIFO)
          cancelled,  \* qids with isCancelled = TRUE
          chan,       \* [Q -> Seq(msg)]
          arq,        \* "free" | "puller"      (write lock held across sends)
          wq,         \* "free" | "held"  (CancelQuery holds it across its CANCELLED send)
          hpc,        \* handler: "idle" | "loop" | "ret" (returned, deferred DeleteQuery pending) | "gone"
          outcome,    \* what the handler returned on: "none" | terminal state
          epc,        \* executor: "none" | "run" | "done"
          upd,        \* QUERY_UPDATEs sent
          tpc,        \* timer goroutine: "none" | "armed" | "fired" | "cancel" | "exit" | "stopped"
          ppc, pq,    \* puller pc and the query it is holding
          cpc,        \* [Q -> [who -> "none"|"mark"|"unq"|"send"|"wlook"|"wmark"|"wsend"|"relook"|"done"]]   CancelQuery invocations
          ncancel     \* client cancel calls issued so far
vars == <<running, waiting, cancelled, chan, arq, wq, hpc, outcome, epc, upd, tpc, ppc, pq, cpc, ncancel>>

Who == {"client", "timer"}
NoQ == "none"
TerminalMsgs == {"COMPLETE", "ERROR", "CANCELLED", "TIMEOUT"}
\* states on which the handler returns (sync returns on TIMEOUT, async does not)
ReturnsOn == IF ASYNC THEN {"COMPLETE", "ERROR", "CANCELLED"} ELSE TerminalMsgs

Init == /\ running = {} /\ waiting = <<>> /\ cancelled = {}
        /\ chan = [q \in Q |-> <<>>] /\ arq = "free" /\ wq = "free"
        /\ hpc = [q \in Q |-> "idle"] /\ outcome = [q \in Q |-> "none"]
        /\ epc = [q \in Q |-> "none"] /\ upd = [q \in Q |-> 0]
        /\ tpc = [q \in Q |-> "none"] /\ ppc = "check" /\ pq = NoQ
        /\ cpc = [q \in Q |-> [w \in Who |-> "none"]] /\ ncancel = [q \in Q |-> 0]

CanSend(q) == Len(chan[q]) < CAP
Send(q, m) == chan' = [chan EXCEPT ![q] = Append(@, m)]

(* ---- StartQueryAsCoordinator(forceRun = FALSE): under arq (write) and wq ---- *)
Enqueue(q) ==
  /\ hpc[q] = "idle" /\ arq = "free" /\ wq = "free"
  /\ waiting' = Append(waiting, q)
  /\ hpc' = [hpc EXCEPT ![q] = "loop"]
  /\ UNCHANGED <<running, cancelled, chan, arq, wq, outcome, epc, upd, tpc, ppc, pq, cpc, ncancel>>

(* ---- PullQueriesToRun: canRunQuery / getNextWaitStateData / RunQuery ---- *)
PullCheck ==      \* canRunQuery(): RLock
  /\ ppc = "check" /\ arq = "free" /\ Cardinality(running) < MAXRUN
  /\ ppc' = "deq"
  /\ UNCHANGED <<running, waiting, cancelled, chan, arq, wq, hpc, outcome, epc, upd, tpc, pq, cpc, ncancel>>
PullDequeue ==    \* getNextWaitStateData(): wq
  /\ ppc = "deq" /\ wq = "free"
  /\ IF waiting = <<>> THEN ppc' = "check" /\ UNCHANGED <<waiting, pq>>
     ELSE pq' = Head(waiting) /\ waiting' = Tail(waiting) /\ ppc' = "lock"
  /\ UNCHANGED <<running, cancelled, chan, arq, wq, hpc, outcome, epc, upd, tpc, cpc, ncancel>>
PullRun ==        \* RunQuery(): arq.Lock, withLockRunQuery up to the first send
  /\ ppc = "lock" /\ arq = "free"
  /\ IF pq \in cancelled
     THEN ppc' = (IF SeesAdmitting THEN "clear" ELSE "check") /\ UNCHANGED <<running, tpc, arq>>
     ELSE /\ running' = running \cup {pq}
          /\ tpc' = [tpc EXCEPT ![pq] = "armed"]
          /\ arq' = "puller" /\ ppc' = "ready"
  /\ UNCHANGED <<waiting, cancelled, chan, wq, hpc, outcome, epc, upd, pq, cpc, ncancel>>
PullSendReady ==
  /\ ppc = "ready" /\ CanSend(pq) /\ Send(pq, "READY") /\ ppc' = "runng"
  /\ UNCHANGED <<running, waiting, cancelled, arq, wq, hpc, outcome, epc, upd, tpc, pq, cpc, ncancel>>
PullSendRunning ==
  /\ ppc = "runng" /\ CanSend(pq) /\ Send(pq, "RUNNING") /\ ppc' = (IF SeesAdmitting THEN "clear" ELSE "check") /\ arq' = "free"
  /\ UNCHANGED <<running, waiting, cancelled, wq, hpc, outcome, epc, upd, tpc, pq, cpc, ncancel>>
PullClear ==      \* clearAdmittingQuery(): wq
  /\ ppc = "clear" /\ wq = "free" /\ ppc' = "check"
  /\ UNCHANGED <<running, waiting, cancelled, chan, arq, wq, hpc, outcome, epc, upd, tpc, pq, cpc, ncancel>>
\* the query the puller has dequeued and not yet given up (admittingQuery)
Admitting(q) == SeesAdmitting /\ ppc \in {"lock", "ready", "runng", "clear"} /\ pq = q

(* ---- DeleteQuery / withLockDeleteQuery (deferred by the handler on return) ---- *)
DeleteEff(q) ==
  IF q \in running
  THEN /\ running' = running \ {q}
       /\ tpc' = [tpc EXCEPT ![q] = IF q \notin cancelled /\ @ = "armed" THEN "stopped" ELSE @]
  ELSE UNCHANGED <<running, tpc>>

(* ---- handler loop: one receive per step; on a terminal state the handler returns and its
        deferred DeleteQuery runs as a separate critical section (arq write lock) ---- *)
Recv(q) ==
  /\ hpc[q] = "loop" /\ chan[q] # <<>>
  /\ LET m == Head(chan[q]) IN
     /\ chan' = [chan EXCEPT ![q] = Tail(@)]
     /\ epc' = IF m = "READY" THEN [epc EXCEPT ![q] = "run"] ELSE epc     \* go ExecuteQueryInternalNewPipeline
     /\ IF m \in ReturnsOn
        THEN /\ outcome' = [outcome EXCEPT ![q] = m]
             /\ hpc' = [hpc EXCEPT ![q] = "ret"]
        ELSE UNCHANGED <<outcome, hpc>>
  /\ UNCHANGED <<running, waiting, cancelled, arq, wq, upd, tpc, ppc, pq, cpc, ncancel>>
HandlerDelete(q) ==
  /\ hpc[q] = "ret" /\ arq = "free"
  /\ DeleteEff(q)
  /\ hpc' = [hpc EXCEPT ![q] = "gone"]
  /\ UNCHANGED <<waiting, cancelled, chan, arq, wq, outcome, epc, upd, ppc, pq, cpc, ncancel>>

(* ---- executor goroutine ---- *)
ExecUpdate(q) ==
  /\ ASYNC /\ epc[q] = "run" /\ upd[q] < MAXUPD /\ CanSend(q)
  /\ Send(q, "UPDATE") /\ upd' = [upd EXCEPT ![q] = @ + 1]
  /\ UNCHANGED <<running, waiting, cancelled, arq, wq, hpc, outcome, epc, tpc, ppc, pq, cpc, ncancel>>
ExecFinish(q) ==
  /\ epc[q] = "run" /\ CanSend(q)
  /\ \E m \in {"COMPLETE", "ERROR"} : Send(q, m)
  /\ epc' = [epc EXCEPT ![q] = "done"]
  /\ UNCHANGED <<running, waiting, cancelled, arq, wq, hpc, outcome, upd, tpc, ppc, pq, cpc, ncancel>>

(* ---- CancelQuery(q), invoked by the client (websocket cancel / connection closed)
        or by the timer goroutine ---- *)
CancelLookup(q, w) ==       \* RLock lookup
  /\ cpc[q][w] = "none" /\ arq = "free"
  /\ cpc' = [cpc EXCEPT ![q][w] = IF q \in running THEN "mark" ELSE "wlook"]
CancelWaitLook(q, w) ==     \* cancelWaitingQuery: under wq remove q from the queue (mark follows, nobody else can see q)
  /\ cpc[q][w] = "wlook" /\ wq = "free"
  /\ IF \E i \in 1..Len(waiting) : waiting[i] = q
     THEN /\ waiting' = SelectSeq(waiting, LAMBDA x : x # q)
          /\ cancelled' = cancelled \cup {q}
          /\ cpc' = [cpc EXCEPT ![q][w] = "wsend"]
     ELSE IF Admitting(q)       \* the puller can see q: the mark is a separate step (rqsLock, after wq was released)
     THEN /\ cpc' = [cpc EXCEPT ![q][w] = "wmark"] /\ UNCHANGED <<waiting, cancelled>>
     ELSE /\ cpc' = [cpc EXCEPT ![q][w] = IF SeesAdmitting THEN "relook" ELSE "done"] /\ UNCHANGED <<waiting, cancelled>>
  /\ UNCHANGED <<running, chan, arq, wq, hpc, outcome, epc, upd, tpc, ppc, pq, ncancel>>
CancelWaitMark(q, w) ==     \* isCancelled = TRUE for the query found with the puller
  /\ cpc[q][w] = "wmark"
  /\ cancelled' = cancelled \cup {q}
  /\ cpc' = [cpc EXCEPT ![q][w] = "wsend"]
  /\ UNCHANGED <<running, waiting, chan, arq, wq, hpc, outcome, epc, upd, tpc, ppc, pq, ncancel>>
CancelRelook(q, w) ==       \* second RLock lookup in `running`
  /\ cpc[q][w] = "relook" /\ arq = "free"
  /\ cpc' = [cpc EXCEPT ![q][w] = IF q \in running THEN "mark" ELSE "done"]
  /\ UNCHANGED <<running, waiting, cancelled, chan, arq, wq, hpc, outcome, epc, upd, tpc, ppc, pq, ncancel>>
CancelWaitSend(q, w) ==     \* CANCELLED to the listener, no lock held
  /\ cpc[q][w] = "wsend" /\ CanSend(q)
  /\ Send(q, "CANCELLED")
  /\ cpc' = [cpc EXCEPT ![q][w] = "done"]
  /\ UNCHANGED <<running, waiting, cancelled, arq, wq, hpc, outcome, epc, upd, tpc, ppc, pq, ncancel>>
CancelMark(q, w) ==         \* rqsLock: isCancelled = TRUE
  /\ cpc[q][w] = "mark"
  /\ cancelled' = cancelled \cup {q}
  /\ cpc' = [cpc EXCEPT ![q][w] = "unq"]
  /\ UNCHANGED <<running, waiting, chan, arq, wq, hpc, outcome, epc, upd, tpc, ppc, pq, ncancel>>
CancelUnqueue(q, w) ==      \* takes wq (and keeps it: defer Unlock), removes q from waiting
  /\ cpc[q][w] = "unq" /\ wq = "free"
  /\ wq' = "held"
  /\ waiting' = SelectSeq(waiting, LAMBDA x : x # q)
  /\ cpc' = [cpc EXCEPT ![q][w] = "send"]
  /\ UNCHANGED <<running, cancelled, chan, arq, hpc, outcome, epc, upd, tpc, ppc, pq, ncancel>>
CancelSend(q, w) ==         \* blocking send while holding wq
  /\ cpc[q][w] = "send" /\ CanSend(q)
  /\ Send(q, "CANCELLED") /\ wq' = "free"
  /\ cpc' = [cpc EXCEPT ![q][w] = "done"]
  /\ UNCHANGED <<running, waiting, cancelled, arq, hpc, outcome, epc, upd, tpc, ppc, pq, ncancel>>

ClientCancel(q) ==
  /\ hpc[q] = "loop" /\ ncancel[q] < CANCELS /\ cpc[q]["client"] \in {"none", "done"}
  /\ ncancel' = [ncancel EXCEPT ![q] = @ + 1]
  /\ LET c0 == [cpc EXCEPT ![q]["client"] = "none"] IN
       /\ arq = "free"
       /\ cpc' = [c0 EXCEPT ![q]["client"] = IF q \in running THEN "mark" ELSE "wlook"]
  /\ UNCHANGED <<running, waiting, cancelled, chan, arq, wq, hpc, outcome, epc, upd, tpc, ppc, pq>>

(* ---- timeout goroutine ---- *)
TimeoutFire(q) ==           \* ctx deadline; RLock lookup
  /\ TIMERS /\ tpc[q] = "armed" /\ arq = "free"
  /\ tpc' = [tpc EXCEPT ![q] = IF q \in running THEN "fired" ELSE "exit"]
  /\ UNCHANGED <<running, waiting, cancelled, chan, arq, wq, hpc, outcome, epc, upd, ppc, pq, cpc, ncancel>>
TimeoutSend(q) ==
  /\ tpc[q] = "fired" /\ CanSend(q) /\ Send(q, "TIMEOUT")
  /\ tpc' = [tpc EXCEPT ![q] = "cancel"]
  /\ UNCHANGED <<running, waiting, cancelled, arq, wq, hpc, outcome, epc, upd, ppc, pq, cpc, ncancel>>
TimeoutCancel(q) ==         \* CancelQuery(qid) from the timer: its lookup step
  /\ tpc[q] = "cancel" /\ cpc[q]["timer"] = "none"
  /\ CancelLookup(q, "timer")
  /\ tpc' = [tpc EXCEPT ![q] = "exit"]
  /\ UNCHANGED <<running, waiting, cancelled, chan, arq, wq, hpc, outcome, epc, upd, ppc, pq, ncancel>>

Next ==
  \/ PullCheck \/ PullDequeue \/ PullRun \/ PullSendReady \/ PullSendRunning \/ PullClear
  \/ \E q \in Q : \/ Enqueue(q) \/ Recv(q) \/ HandlerDelete(q) \/ ExecUpdate(q) \/ ExecFinish(q)
                  \/ ClientCancel(q) \/ TimeoutFire(q) \/ TimeoutSend(q) \/ TimeoutCancel(q)
                  \/ \E w \in Who : \/ CancelMark(q, w) \/ CancelUnqueue(q, w) \/ CancelSend(q, w)
                                     \/ CancelWaitLook(q, w) \/ CancelWaitMark(q, w) \/ CancelWaitSend(q, w) \/ CancelRelook(q, w)

Fairness == /\ WF_vars(PullCheck) /\ WF_vars(PullDequeue) /\ WF_vars(PullRun)
            /\ WF_vars(PullSendReady) /\ WF_vars(PullSendRunning) /\ WF_vars(PullClear)
            /\ \A q \in Q : /\ WF_vars(Recv(q)) /\ WF_vars(HandlerDelete(q)) /\ WF_vars(ExecFinish(q))
                            /\ WF_vars(TimeoutSend(q)) /\ WF_vars(TimeoutCancel(q))
                            /\ \A w \in Who : /\ WF_vars(CancelMark(q, w)) /\ WF_vars(CancelUnqueue(q, w)) /\ WF_vars(CancelSend(q, w))
                                            /\ WF_vars(CancelWaitLook(q, w)) /\ WF_vars(CancelWaitSend(q, w)) /\ WF_vars(CancelRelook(q, w)) /\ WF_vars(CancelWaitMark(q, w))
Spec == Init /\ [][Next]_vars
FairSpec == Spec /\ Fairness

-----------------------------------------------------------------------------
(* ---- properties (C17, life-cycle half) ---- *)
TypeOK == /\ running \subseteq Q /\ cancelled \subseteq Q
          /\ \A q \in Q : Len(chan[q]) <= CAP

\* admission limit is never exceeded (all starts here are non-forced)
Admission == Cardinality(running) <= MAXRUN

\* a query is never both waiting and running; never twice in the waiting queue
NoDoubleBooking == /\ \A i, j \in 1..Len(waiting) : i # j => waiting[i] # waiting[j]
                   /\ \A i \in 1..Len(waiting) : waiting[i] \notin running

\* every query whose handler returned did so on exactly one terminal state, and is then in no table
HandlerDone(q) == hpc[q] = "gone"
OneTerminal == \A q \in Q : HandlerDone(q) => outcome[q] \in TerminalMsgs
CleanAfterReturn == \A q \in Q : HandlerDone(q) =>
                       /\ q \notin running
                       /\ \A i \in 1..Len(waiting) : waiting[i] # q

\* no goroutine is blocked for ever: every reachable state has a successor unless everything is finished.
\* (checked as TLC deadlock freedom with Done as the only allowed terminal states)
AllQuiet == /\ \A q \in Q : /\ hpc[q] \in {"idle", "gone"} /\ epc[q] # "run"
                            /\ tpc[q] \notin {"fired", "cancel"}
                            /\ \A w \in Who : cpc[q][w] \in {"none", "done"}
            /\ ppc \in {"check", "deq"} /\ arq = "free" /\ wq = "free"
QuiescentClean == AllQuiet => running = {} /\ waiting = <<>>

\* a goroutine that can never proceed: channel full and the consumer gone
StuckSender(q) == /\ hpc[q] \in {"ret", "gone"} /\ Len(chan[q]) >= CAP
                  /\ \/ epc[q] = "run" \/ tpc[q] = "fired" \/ \E w \in Who : cpc[q][w] \in {"send", "wsend"}
                     \/ (ppc \in {"ready", "runng"} /\ pq = q)
NoStuckSender == \A q \in Q : ~StuckSender(q)
\* the dangerous special case: stuck while holding a lock that every other query needs
NoStuckWithLock == \A q \in Q : ~(StuckSender(q) /\ (wq # "free" \/ arq # "free"))

\* "cancellation at any moment stops it promptly": a finished client cancel of a live query has marked it.
\* Without SeesAdmitting violated in the window between the puller's dequeue and its insert into `running`.
CancelTakesEffect == \A q \in Q : (cpc[q]["client"] = "done" /\ ncancel[q] > 0 /\ hpc[q] = "loop")
                                    => (q \in cancelled \/ outcome[q] # "none")

\* liveness (under FairSpec): every started query's handler eventually returns
EventuallyAnswered == \A q \in Q : (hpc[q] = "loop") ~> (hpc[q] = "gone")

View == vars
=============================================================================
