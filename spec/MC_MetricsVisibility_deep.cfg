SPECIFICATION Spec
CONSTANTS
  MaxDp = 5
  MaxFlush = 4
  MaxSegRot = 3
  MaxPend = 1
  PutAtomic = TRUE
  AccountAtomic = TRUE
  ReaderHandlesEmpty = TRUE
  RefreshExempt = TRUE
  BlkCheckBySuffix = FALSE
INVARIANTS TypeOK NoDup NoInvent NoLoss NoQueryError QuiescentEq StoredOnce
CHECK_DEADLOCK FALSE
