----------------------------- MODULE Protocols -----------------------------
(* C16 - all ingest protocols preserve event content and time.

   THIN SPEC (said so in the manifest's level_note): it states the preservation law and enumerates
   the product  protocol x event class x time unit  that the harness concretises; there is no
   interesting state space.  The value of this check is the cross-protocol oracle on the real
   handlers, not state exploration.

   A logical event class is
     [proto, kind, level, ids, time, pos]
       kind   the kind of value of the probe field/attribute the event carries
       level  where the probe sits: record (field / label / attribute), resource, scope
       ids    does the event carry trace / span identifiers
       time   "none" or the unit its time stamp is expressed in
       pos    the shape of the request that carries the event: "single" (alone) or between two mates -
              other logical events of the same class with their own marker, body, ids, probe value, time
              and an attribute key nobody else has - in the same innermost container ("same_scope":
              same bulk body / HEC batch / Loki stream / OTLP scope / remote-write request), in sibling
              scopes (Loki streams, OTLP scopes of one resource, each with an attribute key of its own:
              "sibling_scopes") or in sibling OTLP resources ("sibling_resources").  EVERY event of the
              request is judged against ITS logical event
   Deliver(c, arrival) stores the event; the law:
       Stored keeps the probe (same value, same kind), the ids, the body, its own / its scope's / its
       resource's attributes and nothing of any other event, scope or resource of the request
       (metrics: series identity = exactly own datapoint + scope + resource attributes), and
       time(Stored) = IF c.time = "none" THEN arrival ELSE ToMillis(c.time)
   ToMillis is over abstract instants: every unit expresses the same instant EventMs (the harness
   writes EventMs in that unit); metrics stores keep seconds (Resolution). *)
EXTENDS Integers, FiniteSets, TLC

CONSTANTS LogProtocols, MetricProtocols,
          Kinds, MetricKinds, Levels, TimeUnits, Shapes,
          Accepts(_, _, _),      \* (protocol, feature class, feature) -> BOOLEAN: expressible in that protocol
          EventMs, ArrivalMs     \* two distinct abstract instants (ms)

VARIABLES cur,      \* the case being delivered ("none" record when idle)
          stored    \* what the store holds for it
vars == <<cur, stored>>

Protocols == LogProtocols \cup MetricProtocols
Idle == [proto |-> "none"]
Case(p, k, l, i, t, s) == [proto |-> p, kind |-> k, level |-> l, ids |-> i, time |-> t, pos |-> s]

Expressible(c) ==
  /\ Accepts(c.proto, "kind", c.kind)
  /\ Accepts(c.proto, "level", c.level)
  /\ Accepts(c.proto, "time", c.time)
  /\ Accepts(c.proto, "shape", c.pos)
  /\ (c.ids => Accepts(c.proto, "ids", "ids"))
  /\ (c.proto \in MetricProtocols => c.kind \in MetricKinds)

Cases == {c \in {Case(p, k, l, i, t, s) : p \in Protocols, k \in Kinds \cup MetricKinds, l \in Levels, i \in BOOLEAN,
                                          t \in TimeUnits \cup {"none"}, s \in Shapes} : Expressible(c)}

Resolution(p) == IF p \in MetricProtocols THEN 1000 ELSE 1
ToMillis(p, t) == (EventMs \div Resolution(p)) * Resolution(p)     \* the same instant whatever the unit

(* the law *)
Law(c, arrival) == [probe |-> [kind |-> c.kind, level |-> c.level, intact |-> TRUE],
                    ids |-> c.ids, body |-> TRUE, sibling |-> FALSE,
                    time |-> IF c.time = "none" THEN arrival ELSE ToMillis(c.proto, c.time)]

Init == cur = Idle /\ stored = Idle
Deliver(c) == /\ cur = Idle /\ cur' = c /\ stored' = Law(c, ArrivalMs)
Reset == /\ cur # Idle /\ cur' = Idle /\ stored' = Idle
Next == (\E c \in Cases : Deliver(c)) \/ Reset
Spec == Init /\ [][Next]_vars

Preserved == cur # Idle => /\ stored.probe.intact /\ stored.probe.kind = cur.kind /\ stored.probe.level = cur.level
                           /\ stored.ids = cur.ids /\ stored.body /\ ~stored.sibling
TimeLaw == cur # Idle => stored.time = IF cur.time = "none" THEN ArrivalMs ELSE ToMillis(cur.proto, cur.time)
ArrivalOnlyWithoutTime == cur # Idle /\ cur.time # "none" /\ EventMs \div Resolution(cur.proto) # ArrivalMs \div Resolution(cur.proto) => stored.time # ArrivalMs
(* the same logical event through two protocols of the same family is stored alike *)
CrossAgree == \A c1, c2 \in Cases : (c1.kind = c2.kind /\ c1.time # "none" /\ c2.time # "none" /\ Resolution(c1.proto) = Resolution(c2.proto))
                 => Law(c1, ArrivalMs).time = Law(c2, ArrivalMs).time
=============================================================================
