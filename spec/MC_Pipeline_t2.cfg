SPECIFICATION Spec
CONSTANTS
  Chains <- Pairs
  RowVals <- RowsSmall
  MaxRows = 3
  MaxEmpty = 1
  EofModes <- BoolBoth
  SSCarry = TRUE
INVARIANTS ChunkingInvariant PrefixOK SplitInvariant TypeOK
CHECK_DEADLOCK FALSE
