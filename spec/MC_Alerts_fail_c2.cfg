SPECIFICATION Spec
CONSTANTS
  N = 3
  Cool = 2
  SilLen = 2
  MaxEvals = 5
  MaxDt = 2
  MaxEdits = 0
  MaxSil = 0
  MaxFails = 2
  RowsDelta = 0
INVARIANTS StateLaw NotifLaw HistoryLaw Bookkeeping TypeOK
CHECK_DEADLOCK FALSE
