SPECIFICATION Spec
CONSTANTS
  Lang = "promql"
  NTok = 18
  MaxLen = 3
INVARIANT LenBound
CONSTRAINT Emit
CHECK_DEADLOCK FALSE
