SPECIFICATION Spec
CONSTANTS
  MaxDp = 3
  MaxFlush = 2
  MaxSegRot = 1
  MaxPend = 1
  PutAtomic = FALSE
  AccountAtomic = FALSE
  ReaderHandlesEmpty = FALSE
  RefreshExempt = TRUE
  BlkCheckBySuffix = FALSE
INVARIANTS NoLoss
CHECK_DEADLOCK FALSE
