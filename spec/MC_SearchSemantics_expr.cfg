SPECIFICATION Spec
CONSTANTS
  Defect = "none"
  Mode = "expr"
INVARIANTS InvMustMay InvAlgebra InvDeMorgan
CHECK_DEADLOCK FALSE
