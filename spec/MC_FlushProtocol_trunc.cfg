SPECIFICATION Spec
CONSTANTS
  c1 = c1
  c2 = c2
  c3 = c3
  NF = 3
  Cols <- Cols3
  SfmAtomic = FALSE
  Rotate = TRUE
  Tree = TRUE
  TreeAtomic = TRUE
INVARIANTS Durable NoInvent BsuImpliesReadable TypeOK
CHECK_DEADLOCK FALSE
