SPECIFICATION GenSpec
CONSTANTS
  Tenants <- T1
  Keys <- K2
  Ops <- OpsNoRename
  MaxOps = 4
  MaxRestarts = 1
  Strict = TRUE
  Policy <- PolLookup
  ReloadSkips <- NoTenants
  CleanFlush = "none"
CHECK_DEADLOCK FALSE
CONSTRAINT Emit
