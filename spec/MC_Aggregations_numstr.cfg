SPECIFICATION Spec
CONSTANTS
  Defect = "none"
  N = 3
  Datasets <- DatasetsNumStr3
  Spans <- SpansAll
  Origins <- OriginsAll
INVARIANTS InvMergeEqualsDirect InvFinal InvMergeCommutes InvKeysOnce InvRows InvRowsPartition TypeOK
CHECK_DEADLOCK FALSE
