--------------------------- MODULE LogStoreConsts ---------------------------
(* Constant tables for LogStore (records / negative numbers cannot be written in a .cfg).

   Event classes.  kinds: value kind per abstract column c1..c4 (the python binding maps
   each abstract column to a concrete, possibly nested / array path and each kind to
   seeded concrete values).  x: the queried number (<<>> = the event has no x).
   t: the queried text value, a sequence of words (<<>> = no t).
     num    numbers in c1/c2, text in c4
     mixed  text where num has an int (-> that column may come back as decimal text),
            an int where num has a float, a bool, an explicit null
     sparse only the late / rarely appearing columns: text in c3 and in c2 (where num has a
            float and mixed an int -> floats and ints may come back as decimal text); no x, no t
     numstr (C01 probe only) numeric-looking text in c1: mixing it with num's ints in one
            block is the case the statement does NOT relax *)
EXTENDS Integers, Sequences

Words == {"foo", "Foo", "bar", "BAR"}
LowerTab == [w \in Words |-> CASE w = "Foo" -> "foo" [] w = "BAR" -> "bar" [] OTHER -> w]

K(c1, c2, c3, c4) == [c1 |-> c1, c2 |-> c2, c3 |-> c3, c4 |-> c4]
ColsAll == {"c1", "c2", "c3", "c4"}

\* ---- C01 round-trip classes
ClassesRT == {"num", "mixed", "sparse"}
ClassesCap == {"num"}
ClassesRTProbe == {"num", "mixed", "sparse", "numstr"}
KindsTab == [c \in ClassesRTProbe |->
               CASE c = "num"    -> K("int", "flt", "absent", "str")
                 [] c = "mixed"  -> K("str", "int", "bool", "null")
                 [] c = "sparse" -> K("absent", "str", "str", "absent")
                 [] c = "numstr" -> K("numstr", "absent", "absent", "str")]
XTabRT == [c \in ClassesRTProbe |-> CASE c = "num" -> <<1>> [] c = "mixed" -> <<-1>> [] OTHER -> <<>>]
TTabRT == [c \in ClassesRTProbe |-> CASE c = "num" -> <<"foo">> [] c = "mixed" -> <<"Foo", "bar">> [] OTHER -> <<>>]

\* ---- C03 query / pruning classes: x in {-2..2} or missing, t over words with case and sub-words
ClassesQ == {"n2", "n1", "z", "p1", "p2", "nox"}
XTabQ == [c \in ClassesQ |-> CASE c = "n2" -> <<-2>> [] c = "n1" -> <<-1>> [] c = "z" -> <<0>>
                               [] c = "p1" -> <<1>> [] c = "p2" -> <<2>> [] OTHER -> <<>>]
TTabQ == [c \in ClassesQ |-> CASE c = "n2" -> <<"foo">> [] c = "n1" -> <<"Foo", "bar">> [] c = "z" -> <<"BAR">>
                               [] c = "p1" -> <<"bar", "Foo">> [] c = "p2" -> <<>> [] OTHER -> <<"foo", "BAR">>]
KindsTabQ == [c \in ClassesQ |-> K(IF XTabQ[c] = <<>> THEN "absent" ELSE "int", "absent", "absent",
                                   IF TTabQ[c] = <<>> THEN "absent" ELSE "str")]
ClassesQ3 == {"n1", "p1", "nox"}
ClassesQ4 == {"n1", "z", "p1", "nox"}

QNumsAll == {-1, 0, 1}
QNumsOne == {1}
QNumsZero == {0}
PromoNone == {}
PromoNe == {"ne"}
PromoSome == {"ne", "word"}
PromoAll == {"eq", "ne", "lt", "gt", "teq", "word"}
QWordsAll == {"foo", "Foo", "bar", "BAR"}
QWordsTwo == {"Foo", "bar"}
TsOne == {"inc"}
TsTwo == {"inc", "none"}
TsAll == {"inc", "same", "back", "far", "none"}
OneStream == {"ix"}
TwoStreams == {"ix", "iy"}
=============================================================================
