--------------------------- MODULE LogStoreConsts ---------------------------
(* Constant tables for LogStore (records / negative numbers cannot be written in a .cfg).

   Event classes.  kinds: value kind per abstract column c1..c4 (the python binding maps
   each abstract column to a concrete, possibly nested / array path and each kind to
   seeded concrete values).  x: the queried number (<<>> = the event has no x).
   t: the queried text value, a sequence of words (<<>> = no t).
     num    numbers in c1/c2, text in c4
     mixed  text where num has an int (-> that column may come back as decimal text),
            an int where num has a float, a bool, an explicit null
     sparse only the late / rarely appearing columns: text in c3 and in c2 (where num has a
            float and mixed an int -> floats and ints may come back as decimal text); no x, no t
     numstr (C01 probe only) numeric-looking text in c1: mixing it with num's ints in one
            block is the case the statement does NOT relax *)
EXTENDS Integers, Sequences

Words == {"foo", "Foo", "bar", "BAR"}
LowerTab == [w \in Words |-> CASE w = "Foo" -> "foo" [] w = "BAR" -> "bar" [] OTHER -> w]

K(c1, c2, c3, c4) == [c1 |-> c1, c2 |-> c2, c3 |-> c3, c4 |-> c4]
ColsAll == {"c1", "c2", "c3", "c4"}

\* ---- C01 round-trip classes
ClassesRT == {"num", "mixed", "sparse"}
ClassesCap == {"num"}
ClassesRTProbe == {"num", "mixed", "sparse", "numstr"}
\* "bare": the field-less record - a document with nothing but its timestamp (heartbeats, `{"timestamp":T}`, `{}`)
ClassesBare == {"num", "bare"}
ClassesRTSim == {"num", "mixed", "sparse", "bare"}
ClassesRTAll == ClassesRTProbe \cup {"bare"}
KindsTab == [c \in ClassesRTAll |->
               CASE c = "num"    -> K("int", "flt", "absent", "str")
                 [] c = "mixed"  -> K("str", "int", "bool", "null")
                 [] c = "sparse" -> K("absent", "str", "str", "absent")
                 [] c = "numstr" -> K("numstr", "absent", "absent", "str")
                 [] c = "bare"   -> K("absent", "absent", "absent", "absent")]
XTabRT == [c \in ClassesRTAll |-> CASE c = "num" -> <<1>> [] c = "mixed" -> <<-1>> [] OTHER -> <<>>]
TTabRT == [c \in ClassesRTAll |-> CASE c = "num" -> <<"foo">> [] c = "mixed" -> <<"Foo", "bar">> [] OTHER -> <<>>]

MI(n) == [f |-> FALSE, v |-> 2 * n]          \* the integer n
MF(h) == [f |-> TRUE, v |-> h]               \* the float h/2 (h odd)
MTabRT == [c \in ClassesRTAll |-> CASE c = "num" -> MI(3) [] c = "mixed" -> MF(5) [] OTHER -> MI(-1)]

\* ---- C01 late / sparse column classes (6 abstract columns).  Every class has one column it shares with
\* some other class and one column only it has, so a block that holds several different classes has several
\* columns that first appear at a record > 0 (back-filled), go missing again at later records, and further
\* columns appearing after that - all inside dictionary-encoded blocks.
K6(c1, c2, c3, c4, c5, c6) == [c1 |-> c1, c2 |-> c2, c3 |-> c3, c4 |-> c4, c5 |-> c5, c6 |-> c6]
ColsLate == {"c1", "c2", "c3", "c4", "c5", "c6"}
ClassesLate == {"base", "la", "lb", "lc", "ld"}
KindsTabLate == [c \in ClassesLate |->
                   CASE c = "base" -> K6("int", "str", "absent", "absent", "absent", "absent")
                     [] c = "la"   -> K6("int", "absent", "str", "absent", "absent", "absent")
                     [] c = "lb"   -> K6("absent", "str", "absent", "int", "absent", "absent")
                     [] c = "lc"   -> K6("int", "absent", "absent", "absent", "str", "absent")
                     [] c = "ld"   -> K6("absent", "str", "absent", "absent", "absent", "flt")]
\* ---- C01 text classes: several string columns in ONE event (escapes / unicode in different columns and nesting
\* positions of the same document)
ClassesText == {"txt6", "txt3", "num6"}
KindsTabText == [c \in ClassesText |->
                   CASE c = "txt6" -> K6("str", "str", "str", "str", "str", "str")
                     [] c = "txt3" -> K6("str", "int", "str", "absent", "str", "null")
                     [] c = "num6" -> K6("int", "flt", "absent", "str", "absent", "bool")]
XTabText == [c \in ClassesText |-> <<>>]
TTabText == [c \in ClassesText |-> <<>>]
MTabText == [c \in ClassesText |-> MI(1)]
ClassesOne == {"num"}
TsOoo == {"inc", "back", "far"}

XTabLate == [c \in ClassesLate |-> <<>>]
TTabLate == [c \in ClassesLate |-> <<>>]
MTabLate == [c \in ClassesLate |-> IF c \in {"la", "ld"} THEN MF(3) ELSE MI(2)]

\* ---- C03 query / pruning classes: x in {-2..2} or missing, t over words with case and sub-words
ClassesQ == {"n2", "n1", "z", "p1", "p2", "nox"}
XTabQ == [c \in ClassesQ |-> CASE c = "n2" -> <<-2>> [] c = "n1" -> <<-1>> [] c = "z" -> <<0>>
                               [] c = "p1" -> <<1>> [] c = "p2" -> <<2>> [] OTHER -> <<>>]
TTabQ == [c \in ClassesQ |-> CASE c = "n2" -> <<"foo">> [] c = "n1" -> <<"Foo", "bar">> [] c = "z" -> <<"BAR">>
                               [] c = "p1" -> <<"bar", "Foo">> [] c = "p2" -> <<>> [] OTHER -> <<"foo", "BAR">>]
KindsTabQ == [c \in ClassesQ |-> K(IF XTabQ[c] = <<>> THEN "absent" ELSE "int", "absent", "absent",
                                   IF TTabQ[c] = <<>> THEN "absent" ELSE "str")]
\* x written as a numeric string: in a block together with number-born x the flush converts and re-indexes them
XSTabQ == [c \in ClassesQ |-> c \in {"n1", "p2", "z"}]
\* the measure m: integers and floats mixed, so that integers arrive after the first float of a segment
MTabQ == [c \in ClassesQ |-> CASE c = "n2" -> MI(-2) [] c = "n1" -> MF(-3) [] c = "z" -> MI(0)
                               [] c = "p1" -> MF(5) [] c = "p2" -> MI(2) [] OTHER -> MI(10)]
ClassesQ3 == {"n1", "p1", "nox"}
ClassesQ4 == {"n1", "z", "p1", "nox"}

QNumsAll == {-1, 0, 1}
QNumsOne == {1}
QNumsTwo == {-1, 1}
QNumsZero == {0}
PromoNone == {}
PromoNe == {"ne"}
PromoSome == {"ne", "word"}
PromoAll == {"eq", "ne", "lt", "gt", "teq", "word"}
QWordsAll == {"foo", "Foo", "bar", "BAR"}
QWordsTwo == {"Foo", "bar"}
TsOne == {"inc"}
TsTwo == {"inc", "none"}
TsAll == {"inc", "same", "back", "far", "none"}
XSNone == [c \in ClassesRTAll \cup ClassesLate \cup ClassesText |-> FALSE]
OneStream == {"ix"}
TwoStreams == {"ix", "iy"}
=============================================================================
