SPECIFICATION Spec
CONSTANTS
  NSEG = 2
  NBLK = 2
  R = 2
  T = 3
  MAXB = 1
  RF = FALSE
INVARIANTS Sorted NoDupOut NoInvent Complete PrefixFinal HeadOK PagesPartition TypeOK
VIEW View
