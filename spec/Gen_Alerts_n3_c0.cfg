SPECIFICATION GenSpec
CONSTANTS
  N = 3
  Cool = 0
  SilLen = 2
  MaxEvals = 7
  MaxDt = 0
  MaxEdits = 0
  MaxSil = 0
  MaxFails = 0
  RowsDelta = 0
CONSTRAINT Emit
CHECK_DEADLOCK FALSE
