SPECIFICATION Spec
CONSTANTS
  MaxDp = 11
  MaxIdx = 10
  MaxBlk = 0
  MaxCrash = 1
  Faults = FALSE
  LexListing = TRUE
  CrcChecked = TRUE
  FlushBeforeDelete = FALSE
  KeepFlushedBlock = FALSE
  MetaAtomic = FALSE
  StartupIngest = FALSE
  MetaSkipsEmptyBlock = FALSE
  MaxMeta = 0
  NpDp = 0
INVARIANTS InOrder
CONSTRAINT OneBlockPerFile
CHECK_DEADLOCK FALSE
