--------------------------- MODULE ProtocolsConsts --------------------------
(* What each ingest protocol can express (from the protocol definitions, not from siglens). *)
LogP == {"es_bulk", "es_doc", "splunk_hec", "loki_json", "loki_pb", "otlp_logs", "otlp_traces"}
MetP == {"otsdb", "prom_rw", "otlp_metrics"}
\* "reserved": a nested object whose members are named like the reserved top-level keys of the store / of the protocols
\* (timestamp, _index, _id, _type, time, index, host, source) at depth 2 and 3: they are ordinary attributes there
KindsAll == {"str", "unicode", "nansub", "int", "neg", "float", "bool", "bigint", "nested", "array", "reserved"}
MetricKindsAll == {"m_int", "m_frac", "m_neg", "m_big", "m_small", "m_tagnan", "m_tagunicode", "m_tagescapes"}
LevelsAll == {"record", "resource", "scope"}
\* the same instant in every encoding a protocol accepts: numbers and their quoted (string) forms
UnitsAll == {"s", "s_frac", "ms", "ns", "s_str", "s_frac_str", "ms_str", "ns_str", "rfc3339"}
ShapesAll == {"single", "same_scope", "sibling_scopes", "sibling_resources"}
StringKinds == {"str", "unicode", "nansub"}
Acc(p, cls, f) ==
  CASE cls = "kind" ->
         IF p \in MetP THEN f \in MetricKindsAll /\ (p = "otlp_metrics" \/ f \in MetricKindsAll)
         ELSE IF p \in {"loki_json", "loki_pb"} THEN f \in StringKinds          \* labels / structured metadata are strings
         ELSE f \in KindsAll
    [] cls = "level" -> IF p \in {"otlp_logs", "otlp_traces", "otlp_metrics"} THEN f \in LevelsAll ELSE f = "record"
    [] cls = "ids" -> p \in LogP
    [] cls = "shape" ->
         CASE f = "single" -> TRUE
           [] f = "same_scope" -> p \notin {"es_doc", "loki_pb"}     \* one document per request / no per-entry attributes
           [] f = "sibling_scopes" -> p \in {"otlp_logs", "otlp_traces", "otlp_metrics", "loki_json", "loki_pb"}
           [] f = "sibling_resources" -> p \in {"otlp_logs", "otlp_traces", "otlp_metrics"}
           [] OTHER -> FALSE
    [] cls = "time" ->
         CASE p \in {"es_bulk", "es_doc"} -> f \in {"none", "s", "ms", "s_str", "ms_str", "rfc3339"}   \* epoch_second / epoch_millis also as strings
           [] p = "splunk_hec" -> f \in {"none", "s", "s_frac", "s_str", "s_frac_str"}            \* HEC: "time" may be quoted
           [] p = "loki_json" -> f = "ns_str"
           [] p = "loki_pb" -> f = "ns"
           [] p = "otlp_logs" -> f \in {"none", "ns"}
           [] p = "otlp_traces" -> f = "ns"
           [] p = "otsdb" -> f \in {"s", "ms", "s_str", "ms_str"}
           [] p = "prom_rw" -> f = "ms"
           [] p = "otlp_metrics" -> f = "ns"
    [] OTHER -> FALSE
=============================================================================
