------------------------------ MODULE LogStore ------------------------------
(* Abstract log store of siglens: what was ingested (events), where it physically
   lives (open buffer / flushed blocks / segments, open or rotated, per stream =
   index), and what a query answers.  Used as the oracle of C01 (round trip) and
   C03 (layout / accelerator independence).

   Code correspondence (pkg/segment/writer):
     Ingest(s, batch)   es/writer.HandleBulkBody -> SegStore.AddEntry: one record per
                        event appended to the WIP block of stream s; AddEntry cuts the
                        block by itself (AppendWipToSegfile) when the WIP is full
                        (MAX_RECS_PER_WIP / WIP_SIZE) - modelled by BlockCap.
     Flush              writer.FlushWipBufferToFile: every non-empty WIP block becomes
                        a block of the stream's current segment (.csg chunks, .bsu
                        summary, bloom / range micro index entries, pqmr bitsets of the
                        persistent queries).  Also what the 5 s idle timer does.
     Rotate             writer.ForceRotateSegmentsForTest = AppendWipToSegfile(onTimeRotate):
                        flush, then the segment moves from the unrotated table to
                        segmeta.json / rotated metadata; the next ingest opens a new one.
     Restart            new process on the same directory: the WIP (unflushed buffer) is
                        gone; segments left unrotated are adopted as rotated ones.
     Promote(q)         querytracker: a repeated query becomes persistent; segments opened
                        afterwards evaluate it at ingest (applyStreamingSearchToRecord)
                        and store one bitset per block (pqmr).
   A query never changes the store; it is the pure operator EngineAnswer below.

   Events are [id, s, cls, ts].  cls is a row of the constant class table: the value
   kinds of the abstract columns (ClassKinds, for the round-trip oracle) and the two
   queried fields x (number or Absent) and t (text value = sequence of words, or
   Absent) used by the query / pruning part. *)
EXTENDS Integers, Sequences, FiniteSets, TLC

CONSTANTS Streams, Classes, TsClasses,
          Cols, ClassKinds,    \* [Classes -> [Cols -> Kinds]]
          ClassX, ClassT,      \* [Classes -> Seq(Int)] (<<>> = absent, <<n>>), [Classes -> Seq(Words)] (<<>> = absent)
          ClassXS,             \* [Classes -> BOOLEAN]: x is written as a numeric string ("7") instead of a JSON number
          ClassM,              \* [Classes -> [f: BOOLEAN, v: Int]]  the measure field m every event carries: v = its
                               \*   value in HALVES (so 2.5 is 5), f = written as a JSON float (v odd) or as an integer
          LowerOf,             \* [Words -> Words]  (lower-casing of a word)
          QNums, QWords,       \* literals of the query family
          MaxEvents, MaxBatch, MaxFlush, MaxRotate, MaxRestart, MaxPromote,
          PromoteOps,          \* query operators eligible for promotion (bounds the model)
          BlockCap,            \* records after which the engine cuts the WIP block itself
          CardLimit,           \* a block column with fewer distinct values is dictionary encoded
          NeSkipsConstBlock,   \* BOOLEAN: '!=' range check drops a block whose min = max = literal
                               \*   (TRUE = what metacheckers.go does)
          LowerOnInsert        \* BOOLEAN: bloom insertion adds the lower-cased forms
                               \*   (TRUE = what addToBlockBloomBothCasesWithBuf does)

Absent == <<>>     \* a missing x / t (TLC cannot compare an integer with a string, so both are sequences)
Kinds == {"int", "flt", "str", "numstr", "bool", "null", "absent"}

VARIABLES events,    \* set of accepted events [id, s, cls, ts, at]  (at = abstract event time, see AtOf)
          open,      \* [Streams -> Seq(id)]   the WIP block (accepted, not flushed)
          segs,      \* [Streams -> Seq([blocks: Seq(block), st: {"open","rotated"}, pq: SUBSET Queries])]
                     \*   block = [ids: Seq(id), pqm: [pq -> SUBSET id]]
          lost,      \* ids accepted but dropped with the WIP by a restart
          persist,   \* set of persistent queries
          nF, nR, nRS, nP,     \* action budgets
          last       \* last action (exported / used by the action property)
vars == <<events, open, segs, lost, persist, nF, nR, nRS, nP, last>>

-----------------------------------------------------------------------------
(* ---- values, queries and their reference semantics ---- *)
Range(f) == {f[i] : i \in DOMAIN f}
EvIn(evs, id) == CHOOSE e \in evs : e.id = id
XIn(evs, id) == ClassX[EvIn(evs, id).cls]
TIn(evs, id) == ClassT[EvIn(evs, id).cls]
XOf(id) == XIn(events, id)
TOf(id) == TIn(events, id)

Queries == {[op |-> "all"]}
           \cup {[op |-> o, c |-> c] : o \in {"eq", "ne", "lt", "gt"}, c \in QNums}
           \cup {[op |-> "teq", v |-> <<w>>] : w \in QWords}     \* t = w   (whole value, case-insensitive)
           \cup {[op |-> "word", v |-> <<w>>] : w \in QWords}    \* free-text word w in t

LowerV(v) == [i \in DOMAIN v |-> LowerOf[v[i]]]
HasUpper(v) == LowerV(v) # v

EvalX(q, x) == CASE q.op = "eq" -> x # Absent /\ x[1] = q.c
                 [] q.op = "ne" -> x = Absent \/ x[1] # q.c     \* a missing value is "not equal" (observed engine semantics)
                 [] q.op = "lt" -> x # Absent /\ x[1] < q.c
                 [] q.op = "gt" -> x # Absent /\ x[1] > q.c
EvalT(q, t) == CASE q.op = "teq"  -> t # Absent /\ LowerV(t) = LowerV(q.v)
                 [] q.op = "word" -> t # Absent /\ \E i \in DOMAIN t : LowerOf[t[i]] = LowerOf[q.v[1]]
Eval(q, x, t) == CASE q.op = "all" -> TRUE
                   [] q.op \in {"eq", "ne", "lt", "gt"} -> EvalX(q, x)
                   [] OTHER -> EvalT(q, t)
EvalIn(evs, q, id) == Eval(q, XIn(evs, id), TIn(evs, id))
EvalId(q, id) == EvalIn(events, q, id)

-----------------------------------------------------------------------------
(* ---- block metadata: what the micro indexes hold, and the skip decisions ---- *)
(* addToBlockBloomBothCasesWithBuf: the full value; every space separated sub-word;
   the lower-cased sub-words (non-last ones only when the value has an upper-case
   letter, the last one always); the lower-cased full value when it has upper case. *)
Inserted(v) ==
  LET n == Len(v)
      sub == IF n > 1 THEN {<<v[i]>> : i \in 1..n} ELSE {}
      lowsub == IF n > 1 /\ LowerOnInsert
                THEN {<<LowerOf[v[i]]>> : i \in {j \in 1..n : HasUpper(v) \/ j = n}} ELSE {}
      lowfull == IF HasUpper(v) /\ LowerOnInsert THEN {LowerV(v)} ELSE {}
  IN {v} \cup sub \cup lowsub \cup lowfull
(* query side (SearchExpression/MatchFilter.GetAllBlockBloomKeysToSearch): the lower-cased
   literal, and the literal as typed when the filter is case-insensitive *)
Probe(q) == {LowerV(q.v), q.v}

BlockXs(b) == {XOf(b.ids[i])[1] : i \in {j \in DOMAIN b.ids : XOf(b.ids[j]) # Absent}}
BlockTs(b) == {TOf(b.ids[i]) : i \in DOMAIN b.ids} \ {Absent}
Bloom(b) == UNION {Inserted(v) : v \in BlockTs(b)}
MinOf(S) == CHOOSE m \in S : \A y \in S : m <= y
MaxOf(S) == CHOOSE m \in S : \A y \in S : m >= y

(* metacheckers.doesIntPassRangeFilter / blockmeta.doRangeCheckForCol *)
RangeMayMatch(S, q) ==
  IF S = {} THEN q.op = "ne"                       \* no range index for the column in this block
  ELSE LET lo == MinOf(S)  hi == MaxOf(S) IN
       CASE q.op = "eq" -> lo <= q.c /\ q.c <= hi
         [] q.op = "ne" -> ~(NeSkipsConstBlock /\ lo = hi /\ lo = q.c)
         [] q.op = "gt" -> q.c < hi
         [] q.op = "lt" -> q.c > lo
(* Numbers that arrive as numeric strings.  A block whose x values all arrived as strings keeps a text column
   (bloom, no range index; compared by value at search time): a numeric comparison never excludes it.  As soon as
   one x of the block arrived as a JSON number, the flush re-encodes the strings as numbers
   (consolidateColumnTypes -> convertColumnToNumbers) and has to widen the block's range index with every
   converted value: the index then covers number-born and string-born values alike. *)
XSOf(id) == ClassXS[EvIn(events, id).cls]
BlockNumBorn(b) == {XOf(b.ids[i])[1] : i \in {j \in DOMAIN b.ids : XOf(b.ids[j]) # Absent /\ ~XSOf(b.ids[j])}}
BlockStrBorn(b) == {XOf(b.ids[i])[1] : i \in {j \in DOMAIN b.ids : XOf(b.ids[j]) # Absent /\ XSOf(b.ids[j])}}
RangeIndexOf(b) == IF BlockNumBorn(b) = {} THEN {} ELSE BlockNumBorn(b) \cup BlockStrBorn(b)
NumMayMatch(b, q) == IF BlockNumBorn(b) = {} /\ BlockStrBorn(b) # {} THEN TRUE ELSE RangeMayMatch(RangeIndexOf(b), q)
MayMatch(b, q) == CASE q.op = "all" -> TRUE
                    [] q.op \in {"eq", "ne", "lt", "gt"} -> NumMayMatch(b, q)
                    [] OTHER -> Probe(q) \cap Bloom(b) # {}

(* the no-false-negative obligation of every skip decision *)
PruneSoundBlock(b) == \A q \in Queries : (\E i \in DOMAIN b.ids : EvalId(q, b.ids[i])) => MayMatch(b, q)

Dict(b, what) == Cardinality(IF what = "x" THEN BlockXs(b) ELSE BlockTs(b)) < CardLimit

-----------------------------------------------------------------------------
(* ---- the store ---- *)
SeqIds(sq) == Range(sq)
BlocksOf(s) == [k \in 1..Len(segs[s]) |-> segs[s][k].blocks]
FlushedSeq(s) ==  \* every id of every block of every segment of s, with multiplicity
  LET cat[k \in 0..Len(segs[s])] ==
        IF k = 0 THEN <<>>
        ELSE LET bl == segs[s][k].blocks
                 inner[j \in 0..Len(bl)] == IF j = 0 THEN <<>> ELSE inner[j - 1] \o bl[j].ids
             IN cat[k - 1] \o inner[Len(bl)]
  IN cat[Len(segs[s])]
Flushed(s) == SeqIds(FlushedSeq(s))
OpenIds(s) == SeqIds(open[s])
IdsOf(s) == {e.id : e \in {x \in events : x.s = s}}
NextId == Cardinality(events) + 1

Init == /\ events = {} /\ open = [s \in Streams |-> <<>>] /\ segs = [s \in Streams |-> <<>>]
        /\ lost = {} /\ persist = {} /\ nF = 0 /\ nR = 0 /\ nRS = 0 /\ nP = 0
        /\ last = [a |-> "init"]

(* append the WIP of stream s as one block of the current (last, open) segment; a new
   segment is opened when there is none.  The pqmr bitsets are evaluated here, from the
   events themselves, for the queries the segment tracks. *)
NewBlock(ids, pq, evs) == [ids |-> ids, pqm |-> [q \in pq |-> {ids[i] : i \in {j \in DOMAIN ids : EvalIn(evs, q, ids[j])}}]]
CutBlock(sg, ids, evs) ==
  \* evs: the event set the pq bitsets are evaluated against (events, or events' inside Ingest)
  IF Len(sg) > 0 /\ sg[Len(sg)].st = "open"
  THEN [sg EXCEPT ![Len(sg)].blocks = Append(@, NewBlock(ids, sg[Len(sg)].pq, evs))]
  ELSE Append(sg, [blocks |-> <<NewBlock(ids, persist, evs)>>, st |-> "open", pq |-> persist])

(* Abstract event time.  The timestamp class of a batch says how each of its events moves the clock of
   its stream (the time of the stream's last event that carried a timestamp): inc +1, same +0, back -3,
   far +4; an event without timestamp ("none") gets its arrival time, which is later than every sent
   time and grows with the ingest order.  Times are therefore NOT monotone in ingest order: blocks and
   segments get time ranges [lo, hi] that may be disjoint, nested or partially overlapping - what the
   searcher's recent-first rounds (cut-off = start of the newest-ending segment) have to cope with.
   A match-all over a covering range does not depend on them (RoundTrip). *)
NowBase == 1000
TsStep(ts) == CASE ts = "inc" -> 1 [] ts = "same" -> 0 [] ts = "back" -> -3 [] ts = "far" -> 4 [] OTHER -> 0
Clock(s) == LET T == {e \in events : e.s = s /\ e.ts # "none"}
            IN IF T = {} THEN 0 ELSE (CHOOSE e \in T : \A f \in T : f.id <= e.id).at
AtOf(s, ts, i) == IF ts = "none" THEN NowBase + NextId + i - 1 ELSE Clock(s) + i * TsStep(ts)
AtIn(evs, id) == EvIn(evs, id).at
BlockLo(b) == MinOf({AtIn(events, b.ids[i]) : i \in DOMAIN b.ids})
BlockHi(b) == MaxOf({AtIn(events, b.ids[i]) : i \in DOMAIN b.ids})

Ingest(s, n, cls, ts) ==
  /\ n \in 1..MaxBatch /\ Cardinality(events) + n <= MaxEvents
  /\ LET new == [i \in 1..n |-> [id |-> NextId + i - 1, s |-> s, cls |-> cls, ts |-> ts, at |-> AtOf(s, ts, i)]]
         ids == [i \in 1..n |-> NextId + i - 1]
     IN /\ events' = events \cup Range(new)
        \* AddEntry: record by record; the block is cut before the record that would overflow it
        /\ LET all == open[s] \o ids
               nfull == Len(all) \div BlockCap
               full == IF Len(all) % BlockCap = 0 /\ nfull > 0 THEN nfull - 1 ELSE nfull
               cut[k \in 0..full] == IF k = 0 THEN segs[s]
                                     ELSE CutBlock(cut[k - 1], SubSeq(all, (k - 1) * BlockCap + 1, k * BlockCap), events')
           IN /\ segs' = [segs EXCEPT ![s] = cut[full]]
              /\ open' = [open EXCEPT ![s] = SubSeq(all, full * BlockCap + 1, Len(all))]
        /\ last' = [a |-> "ingest", s |-> s, ids |-> ids, cls |-> cls, ts |-> ts, ats |-> [i \in 1..n |-> new[i].at]]
  /\ UNCHANGED <<lost, persist, nF, nR, nRS, nP>>

FlushAll(sg, op) == [s \in Streams |-> IF op[s] = <<>> THEN sg[s] ELSE CutBlock(sg[s], op[s], events)]

Flush == /\ nF < MaxFlush
         /\ segs' = FlushAll(segs, open)
         /\ open' = [s \in Streams |-> <<>>]
         /\ nF' = nF + 1 /\ last' = [a |-> "flush"]
         /\ UNCHANGED <<events, lost, persist, nR, nRS, nP>>

RotateAll(sg) == [s \in Streams |-> [k \in DOMAIN sg[s] |-> [sg[s][k] EXCEPT !.st = "rotated"]]]

Rotate == /\ nR < MaxRotate
          /\ segs' = RotateAll(FlushAll(segs, open))
          /\ open' = [s \in Streams |-> <<>>]
          /\ nR' = nR + 1 /\ last' = [a |-> "rotate"]
          /\ UNCHANGED <<events, lost, persist, nF, nRS, nP>>

Restart == /\ nRS < MaxRestart
           /\ lost' = lost \cup UNION {OpenIds(s) : s \in Streams}
           /\ open' = [s \in Streams |-> <<>>]
           /\ segs' = RotateAll(segs)
           /\ nRS' = nRS + 1 /\ last' = [a |-> "restart"]
           /\ UNCHANGED <<events, persist, nF, nR, nP>>

Promote(q) == /\ nP < MaxPromote /\ q \notin persist /\ q.op \in PromoteOps
              /\ persist' = persist \cup {q}
              /\ nP' = nP + 1 /\ last' = [a |-> "promote", q |-> q]
              /\ UNCHANGED <<events, open, segs, lost, nF, nR, nRS>>

Next == \/ \E s \in Streams, n \in 1..MaxBatch, c \in Classes, ts \in TsClasses : Ingest(s, n, c, ts)
        \/ Flush \/ Rotate \/ Restart
        \/ \E q \in Queries : Promote(q)
Spec == Init /\ [][Next]_vars

-----------------------------------------------------------------------------
(* ---- what a query answers ---- *)
(* reference: a function of the events that are flushed, nothing else *)
RefAnswer(s, q) == {id \in Flushed(s) : EvalId(q, id)}

(* engine: per segment the micro index may be consulted (useCmi) or unavailable, the pqmr
   bitset may be used when the segment tracked the query (usePq); both only skip work *)
BlockAnswer(sg, b, q, useCmi, usePq) ==
  IF usePq /\ q \in sg.pq THEN b.pqm[q]
  ELSE IF useCmi /\ ~MayMatch(b, q) THEN {}
  ELSE {b.ids[i] : i \in {j \in DOMAIN b.ids : EvalId(q, b.ids[j])}}
EngineAnswer(s, q, useCmi, usePq) ==
  UNION {BlockAnswer(segs[s][k], segs[s][k].blocks[j], q, useCmi[k], usePq[k]) :
           <<k, j>> \in {p \in (DOMAIN segs[s]) \X (1..MaxEvents) : p[2] \in DOMAIN segs[s][p[1]].blocks}}

-----------------------------------------------------------------------------
(* ---- pre-aggregated segment statistics (.sst) vs aggregation of the raw records ----
   Every record updates the running statistics of its column at ingest (addSegStatsNums ->
   processStats, packer.go); AppendWipToSegfile writes them per segment (FlushSegStats) and a
   match-all `stats` over a fully enclosed segment is answered from them (canUseSSTForStats)
   instead of reading the records.  The running sum keeps an integer and a float accumulator and
   a type tag - the case analysis of processStats, transcribed:
       incoming float, stored float : f += v          incoming float, stored int : f = i + v, tag = float
       incoming int,   stored float : f += v          incoming int,   stored int : i += v
   The statistics a segment holds are those of its records in ingest order. *)
MOf(id) == ClassM[EvIn(events, id).cls]
StatInit == [cnt |-> 0, nt |-> "int", i |-> 0, f |-> 0, mn |-> 0, mx |-> 0]
AddStat(S, m) ==
  LET sum == IF m.f THEN (IF S.nt = "flt" THEN [nt |-> "flt", i |-> S.i, f |-> S.f + m.v]
                          ELSE [nt |-> "flt", i |-> S.i, f |-> S.i + m.v])
             ELSE (IF S.nt = "flt" THEN [nt |-> "flt", i |-> S.i, f |-> S.f + m.v]
                   ELSE [nt |-> "int", i |-> S.i + m.v, f |-> S.f])
  IN [cnt |-> S.cnt + 1, nt |-> sum.nt, i |-> sum.i, f |-> sum.f,
      mn |-> IF S.cnt = 0 \/ m.v < S.mn THEN m.v ELSE S.mn,
      mx |-> IF S.cnt = 0 \/ m.v > S.mx THEN m.v ELSE S.mx]
StatValue(S) == [cnt |-> S.cnt, sum |-> IF S.nt = "flt" THEN S.f ELSE S.i, mn |-> S.mn, mx |-> S.mx]
SegIdSeq(sg) == LET inner[j \in 0..Len(sg.blocks)] == IF j = 0 THEN <<>> ELSE inner[j - 1] \o sg.blocks[j].ids
                IN inner[Len(sg.blocks)]
FoldStat(ids) == LET acc[n \in 0..Len(ids)] == IF n = 0 THEN StatInit ELSE AddStat(acc[n - 1], MOf(ids[n]))
                 IN acc[Len(ids)]
SstOf(sg) == StatValue(FoldStat(SegIdSeq(sg)))             \* what the segment's .sst holds
(* aggregation of the raw records: plain arithmetic over the values, no accumulator types *)
RawStat(ids) ==
  LET sm[n \in 0..Len(ids)] == IF n = 0 THEN 0 ELSE sm[n - 1] + MOf(ids[n]).v
      vals == {MOf(ids[n]).v : n \in DOMAIN ids}
  IN [cnt |-> Len(ids), sum |-> sm[Len(ids)],
      mn |-> IF ids = <<>> THEN 0 ELSE MinOf(vals), mx |-> IF ids = <<>> THEN 0 ELSE MaxOf(vals)]
MergeStat(a, b) == IF a.cnt = 0 THEN b ELSE IF b.cnt = 0 THEN a
                   ELSE [cnt |-> a.cnt + b.cnt, sum |-> a.sum + b.sum,
                         mn |-> IF a.mn < b.mn THEN a.mn ELSE b.mn, mx |-> IF a.mx > b.mx THEN a.mx ELSE b.mx]
EngineStats(s, useSst) ==
  LET acc[k \in 0..Len(segs[s])] ==
        IF k = 0 THEN RawStat(<<>>)
        ELSE MergeStat(acc[k - 1], IF useSst[k] THEN SstOf(segs[s][k]) ELSE RawStat(SegIdSeq(segs[s][k])))
  IN acc[Len(segs[s])]
RefStats(s) == RawStat(FlushedSeq(s))

-----------------------------------------------------------------------------
(* ---- properties ---- *)
(* C01: the match-all answer is exactly the flushed events, each once; nothing invented;
   unflushed events are not required (they may already be visible: timers / auto cut) *)
RoundTrip ==
  \A s \in Streams :
     /\ Len(FlushedSeq(s)) = Cardinality(Flushed(s))                 \* exactly once
     /\ Flushed(s) \subseteq IdsOf(s)                                \* nothing invented, no migration between streams
     /\ Flushed(s) \cap OpenIds(s) = {} /\ Flushed(s) \cap lost = {}
     /\ IdsOf(s) = Flushed(s) \cup OpenIds(s) \cup (lost \cap IdsOf(s))   \* nothing dropped
     /\ EngineAnswer(s, [op |-> "all"], [k \in DOMAIN segs[s] |-> TRUE], [k \in DOMAIN segs[s] |-> TRUE]) = Flushed(s)
OnlyIngestGrows == [][events' # events => (last'.a = "ingest" /\ events \subseteq events')]_vars
FlushedStays == [][\A s \in Streams : Flushed(s) \subseteq Flushed(s)']_vars

(* C03: whatever the layout and whichever accelerators are used, the answer is RefAnswer *)
LayoutIrrelevant ==
  \A s \in Streams : \A q \in Queries :
    \A useCmi \in [DOMAIN segs[s] -> BOOLEAN] : \A usePq \in [DOMAIN segs[s] -> BOOLEAN] :
       EngineAnswer(s, q, useCmi, usePq) = RefAnswer(s, q)
(* C03: count / sum / min / max of the measure are the same whether each segment is answered from its
   pre-aggregated statistics or from its records, for every layout and ingest order *)
StatsIrrelevant ==
  \A s \in Streams : \A useSst \in [DOMAIN segs[s] -> BOOLEAN] : EngineStats(s, useSst) = RefStats(s)
PruneSound == \A s \in Streams : \A k \in DOMAIN segs[s] : \A j \in DOMAIN segs[s][k].blocks :
                 PruneSoundBlock(segs[s][k].blocks[j])

(* the last action is output only *)
View == <<events, open, segs, lost, persist, nF, nR, nRS, nP>>

TypeOK == /\ \A e \in events : e.cls \in Classes /\ e.s \in Streams /\ e.ts \in TsClasses
          /\ \A c \in Classes : \A col \in Cols : ClassKinds[c][col] \in Kinds
          /\ Cardinality(events) <= MaxEvents
          /\ \A s \in Streams : \A k \in DOMAIN segs[s] : segs[s][k].st \in {"open", "rotated"}
          /\ \A s \in Streams : \A k \in DOMAIN segs[s] : k < Len(segs[s]) => segs[s][k].st = "rotated" \/ segs[s][k + 1].st = "open"

-----------------------------------------------------------------------------
(* ---- round-trip oracle at field level (exported with the behaviours) ----
   A number may come back as its decimal text when its column also holds a non-numeric
   string somewhere in the stream; explicit null equals absent; everything else exact. *)
ColHasText(s, col) == \E e \in events : e.s = s /\ ClassKinds[e.cls][col] = "str"
Forms(s, cls, col) ==
  LET k == ClassKinds[cls][col] IN
  CASE k \in {"null", "absent"} -> {"absent"}
    [] k \in {"int", "flt"} -> IF ColHasText(s, col) THEN {"exact", "dectext"} ELSE {"exact"}
    [] OTHER -> {"exact"}
=============================================================================
