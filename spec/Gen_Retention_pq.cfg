SPECIFICATION GenSpec
CONSTANTS
  MaxSegs = 2
  Kinds <- KindsLog
  Times <- TimesBindable
  Weights <- W1
  DistinctHi = FALSE
  Straddle = FALSE
  PassKinds <- PassTime
  Limits <- Limit0
  OpenWs <- Open0
  WithPq = TRUE
  MaxCrash = 1
  MaxRepeat = 0
  DetOrder = TRUE
  Mults <- M1
  Orgs <- Org0
  RewriteScratch = FALSE
  SortedDel = "scan"
  MetKeyWraps = TRUE
  SkipTooBig = TRUE
  PqIdsLoaded = FALSE
  InodeCleansDangling = FALSE
CONSTRAINT Emit
CHECK_DEADLOCK FALSE
