SPECIFICATION Spec
CONSTANTS
  Streams <- OneStream
  Classes <- ClassesQ4
  TsClasses <- TsOne
  Cols <- ColsAll
  ClassKinds <- KindsTabQ
  ClassX <- XTabQ
  ClassXS <- XSTabQ
  ClassT <- TTabQ
  ClassM <- MTabQ
  LowerOf <- LowerTab
  QNums <- QNumsAll
  QWords <- QWordsAll
  MaxEvents = 3
  MaxBatch = 2
  MaxFlush = 2
  MaxRotate = 1
  MaxRestart = 0
  MaxPromote = 0
  PromoteOps <- PromoSome
  BlockCap = 3
  CardLimit = 2
  NeSkipsConstBlock = FALSE
  LowerOnInsert = FALSE
INVARIANTS PruneSound

CHECK_DEADLOCK FALSE
VIEW View
