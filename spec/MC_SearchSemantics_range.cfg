SPECIFICATION Spec
CONSTANTS
  Defect = "none"
  Mode = "range"
INVARIANTS InvRangeInclusive InvPruneSound
CHECK_DEADLOCK FALSE
