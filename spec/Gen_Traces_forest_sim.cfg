SPECIFICATION Spec
CONSTANTS
  MaxSpans = 7
  MaxTraces = 3
  Services <- SvcABC
  MaxErrors = 3
  Malformations <- AllMal
  Mode = "forest"
  Orders = {"fwd"}
  PageSize = 50
  MinSpans = 5
  MinEntries = 0
  ResolveInTrace = TRUE
CONSTRAINT EmitForest
CHECK_DEADLOCK FALSE
