SPECIFICATION GenSpec
CONSTANTS
  Defect = "none"
  Mode = "leaf"
CONSTRAINT Emit
CHECK_DEADLOCK FALSE
