SPECIFICATION Spec
CONSTANTS
  MaxEvents = 4
  MaxFlush = 2
  MaxRot = 2
  Dedup = TRUE
  Recheck = TRUE
  UseTree = TRUE
  TreeAtomic = FALSE
  ReaderFallback = TRUE
INVARIANTS NoPartialTree
CHECK_DEADLOCK FALSE
