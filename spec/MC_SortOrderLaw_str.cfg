SPECIFICATION Spec
CONSTANTS
  Vals <- ValsStr
  Ops <- OpsAll
  Tol = 0
  MaxRows = 0
  NKeys = 1
  RankByLooks = FALSE

CHECK_DEADLOCK FALSE
