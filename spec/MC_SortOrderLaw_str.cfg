SPECIFICATION Spec
CONSTANTS
  Vals <- ValsStr
  Ops <- OpsAll
  Tol = 0
  MaxRows = 0
  NKeys = 1

CHECK_DEADLOCK FALSE
