----------------------------- MODULE AlertsLaw -----------------------------
(* The REQUIRED law of property C20 (alert part), as pure operators, so that the
   same definitions judge (a) the transcription of the code in Alerts.tla (TLC
   lists the histories where code and law differ - candidates) and (b) traces
   recorded from the real alertsHandler package (Judge_Alerts.tla - verdicts).

   Statement: "After each evaluation an alert's state depends only on the last N
   evaluation outcomes (N = evaluation window / interval): Firing iff the condition
   held in all N, Pending iff it held in the latest but not all N, Normal otherwise
   [...]; a notification is sent on entering Firing, repeated only after the
   cool-down, and once on return to Normal."

   Time is counted in ticks (1 tick = 1 minute of the code's clock).

   Where the statement leaves the outcome open the law admits every outcome:
     - entering Firing while the cool-down of an earlier notification is still
       running: sending and not sending are both admitted; but the episode must be
       notified at the first evaluation in Firing at which the cool-down is over;
     - a repeated Firing notification after the cool-down MAY be sent (never before);
     - the Normal notification is owed iff the last notification sent was a Firing
       one; it MUST be sent at the first Normal evaluation at which the cool-down is
       over and MAY be sent earlier; it is sent at most once;
     - nothing is ever sent for Pending;
     - delivery may FAIL (contact point unreachable): that is an input, not something the
       alert decides.  State and history never depend on it.  At an evaluation whose delivery
       fails nothing can arrive, so "none" is admitted (an owed notification must have been
       ATTEMPTED, judged separately); the ghost only records what was really delivered, so
       the obligation stays open and must be met at the next evaluation that allows it (retry);
     - the statement says nothing about silencing: while a silence setting is in
       place every owed notification may be withheld (MUST becomes MAY); MUST-NOTs
       are unaffected and so is the state rule. *)
EXTENDS Integers, Sequences, FiniteSets

LastN(s, n) == SubSeq(s, Len(s) - n + 1, Len(s))
AllTrue(s) == \A i \in 1..Len(s) : s[i]

(* the state the alert must be in after the evaluations cs (oldest first), window n *)
LawState(cs, n) ==
  IF Len(cs) = 0 THEN "Inactive"
  ELSE IF ~cs[Len(cs)] THEN "Normal"
  ELSE IF Len(cs) >= n /\ AllTrue(LastN(cs, n)) THEN "Firing"
  ELSE "Pending"

(* ghost record the law keeps about what REALLY happened so far:
     cs         evaluation outcomes, oldest first
     now        current tick
     lastSent   tick of the last notification that was really sent (-1: none yet)
     lastKind   its kind: "none" | "Firing" | "Normal"
     epNotified a Firing notification was sent in the current Firing episode
     silenced   a silence setting is in place *)
Ghost0 == [cs |-> <<>>, now |-> 0, lastSent |-> -1, lastKind |-> "none", epNotified |-> FALSE, silenced |-> FALSE]

CooldownOver(g, cool) == g.lastSent = -1 \/ g.now - g.lastSent >= cool

(* is the current Firing episode already notified, seen from the evaluation that
   makes the law state L (prevL = law state before it) *)
Ep0(g, prevL, L) == IF L = "Firing" /\ prevL = "Firing" THEN g.epNotified ELSE FALSE

(* admissible notifications at an evaluation that makes the law state L *)
Adm(L, ep0, g, cool) ==
  LET co == CooldownOver(g, cool)
      base == CASE L = "Firing" -> IF co THEN (IF ep0 THEN {"Firing", "none"} ELSE {"Firing"})
                                         ELSE (IF ep0 THEN {"none"} ELSE {"Firing", "none"})
                [] L = "Normal" -> IF g.lastKind = "Firing"
                                   THEN (IF co THEN {"Normal"} ELSE {"Normal", "none"})
                                   ELSE {"none"}
                [] OTHER -> {"none"}
  IN IF g.silenced THEN base \cup {"none"} ELSE base

(* one evaluation with outcome c at which the notification `sent` was really emitted:
   returns the new ghost, the law state and the admissible set *)
LawEval(g, c, sent, n, cool, fail) ==
  LET prevL == LawState(g.cs, n)
      cs2 == Append(g.cs, c)
      L == LawState(cs2, n)
      ep0 == Ep0(g, prevL, L)
      base == Adm(L, ep0, g, cool)
      adm == IF fail THEN base \cup {"none"} ELSE base
      g2 == [g EXCEPT !.cs = cs2,
                      !.lastSent = IF sent # "none" THEN g.now ELSE g.lastSent,
                      !.lastKind = IF sent # "none" THEN sent ELSE g.lastKind,
                      !.epNotified = IF L = "Firing" THEN (ep0 \/ sent = "Firing") ELSE FALSE]
  IN [g |-> g2, law |-> L, adm |-> adm, owed |-> "none" \notin base]

LawTick(g) == [g EXCEPT !.now = g.now + 1]
LawSilence(g, on) == [g EXCEPT !.silenced = on]
=============================================================================
