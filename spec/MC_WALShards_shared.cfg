SPECIFICATION Spec
CONSTANTS
  Shards <- Two
  MaxDp = 2
  SharedEncoder = TRUE
INVARIANTS TypeOK OwnPrefix OwnComplete NoForeign
CHECK_DEADLOCK FALSE
