-------------------------- MODULE MetricsLifecycle --------------------------
(* C08, storage side: where an accepted datapoint lives during the life of the metrics store and what a selector query
   over a time window must return at every moment.  Sequential (one client; the concurrent refinement of the same steps is
   MetricsVisibility.tla, C11).  A datapoint is (series, time); values do not matter here (their encoding is Gorilla.tla).

     Put(s, t)     EncodeDatapoint: appended to the series' stream in the OPEN in-memory block (per series, times increase)
     BlockFlush    timeBasedMetricsFlush: the open block becomes block `nblk` of the open segment on disk, series objects
                   are dropped, the next Put of a series starts a fresh stream (first-value encoding again)
     SegRotate     CheckAndRotate over both thresholds: the open block is flushed, the segment is closed and listed as
                   rotated (the harness waits for the query side's metadata refresh, which C11 models as its own step)
     Restart       shutdown rotation (ForceFlushMetricsBlock) + a new process that loads every rotated segment;
                   afterwards the same series may be put again (new segment, same series id)
     Query(S, a, b) selector over the series set S (one series: name + all tags; all series of a metric name, selected by
                   the literal name or by a regular expression on the name) and the
                   window [a, b]: the answer is exactly the accepted datapoints of S inside the window, series without a
                   datapoint in the window are absent.  The expected answer is computed here and exported with the
                   behaviour, so the replay's oracle is this module's `Answer`.

   How a query finds the series of a selector (pkg/segment/query/metricsquery.go applyMetricsOperatorOnSegments): the
   segments of one tags tree HOLDER (a directory that lives for a day or until a restart) are searched with one tags
   search.  While the holder is open its complete tags tree is in memory (`tmem`); the copy on disk (`tdisk`) is written
   by TagsFlush (timer, every 60 s), by a segment rotation and at shutdown.  The search uses the in-memory tree if the
   request it looks at carries the shard id - only the request of the OPEN segment does, and rotated requests are listed
   first.  UseMemWhenOpen = TRUE is the rule after repair 5b5e30d (any request of the group may carry the id); FALSE is
   the pinned rule (first request only): as soon as the holder has a rotated segment the disk copy is used and a series
   first put after the last tags flush is invisible.  For a regular expression on the metric name the candidate names
   come from the segments' name lists: NamesFromAll = TRUE after repair e7a279d, FALSE = the names of the holder's OLDEST
   segment only.  EngineAnswer applies these rules; AnswerComplete (EngineAnswer = Answer for every selector form and
   window) holds for the repaired rules and is violated by either pinned rule (MC_MetricsLifecycle_tthfirst.cfg,
   MC_MetricsLifecycle_namesfirst.cfg).

   The design statement TLC checks is NothingMoves: the three places partition the accepted datapoints at every step
   (no datapoint is in two places, none is dropped by a flush / rotation / restart), and a block never holds two
   streams of one series.  LoseOpenOnRestart = TRUE (a restart that forgets the open block: what a crash without the
   WAL would do) must violate it (MC_MetricsLifecycle_loseopen.cfg). *)
EXTENDS Naturals, FiniteSets, Sequences, Json, IOUtils
CONSTANTS Series,            \* model series
          Groups,            \* sets of series that share a metric name (the name-only selector returns the whole group)
          MaxT,              \* times 1..MaxT
          MaxOps, MaxPuts, MaxRestarts,
          LoseOpenOnRestart,
          UseMemWhenOpen,    \* tags search uses the in-memory tree whenever the holder is open (repaired) / only if no segment of it is rotated
          NamesFromAll       \* regex on the metric name: candidate names from all segments of the holder (repaired) / the oldest only
VARIABLES open,      \* series -> set of times in the open in-memory block
          blocks,    \* sequence of flushed blocks of the open segment: each a function series -> set of times
          rotated,   \* set of <<s, t>> in rotated segments
          acc,       \* every accepted <<s, t>>
          last,      \* series -> last accepted time (per series, times increase)
          tmem,      \* series in the in-memory tags tree of the current holder
          tdisk,     \* series in the holder's tags tree files
          hrot,      \* datapoints of the current holder's rotated segments
          firstseg,  \* series that have a datapoint in the holder's oldest segment (rotated, else the open one)
          nops, nputs, nrestarts, hist
vars == <<open, blocks, rotated, acc, last, tmem, tdisk, hrot, firstseg, nops, nputs, nrestarts, hist>>
Empty == [s \in Series |-> {}]
Init == /\ open = Empty /\ blocks = <<>> /\ rotated = {} /\ acc = {} /\ last = [s \in Series |-> 0]
        /\ tmem = {} /\ tdisk = {} /\ hrot = {} /\ firstseg = {}
        /\ nops = 0 /\ nputs = 0 /\ nrestarts = 0 /\ hist = <<>>
Pts(f) == {<<s, t>> : s \in Series, t \in 1..MaxT} \cap {p \in Series \X (1..MaxT) : p[2] \in f[p[1]]}
InBlocks == UNION {Pts(blocks[i]) : i \in 1..Len(blocks)}
Step(e) == /\ nops < MaxOps /\ nops' = nops + 1 /\ hist' = Append(hist, e)
Put(s, t) == /\ nputs < MaxPuts /\ t > last[s]
             /\ open' = [open EXCEPT ![s] = @ \cup {t}] /\ acc' = acc \cup {<<s, t>>} /\ last' = [last EXCEPT ![s] = t]
             /\ nputs' = nputs + 1 /\ Step([op |-> "put", s |-> s, t |-> t])
             /\ tmem' = tmem \cup {s}
             /\ firstseg' = IF hrot = {} THEN firstseg \cup {s} ELSE firstseg
             /\ UNCHANGED <<blocks, rotated, nrestarts, tdisk, hrot>>
BlockFlush == /\ Pts(open) # {}
              /\ blocks' = Append(blocks, open) /\ open' = Empty
              /\ Step([op |-> "blockflush"]) /\ UNCHANGED <<rotated, acc, last, nputs, nrestarts, tmem, tdisk, hrot, firstseg>>
SegRotate == /\ Pts(open) \cup InBlocks # {}
             /\ rotated' = rotated \cup Pts(open) \cup InBlocks /\ open' = Empty /\ blocks' = <<>>
             /\ hrot' = hrot \cup Pts(open) \cup InBlocks /\ tdisk' = tmem       \* the rotation writes the tags tree
             /\ Step([op |-> "segrotate"]) /\ UNCHANGED <<acc, last, nputs, nrestarts, tmem, firstseg>>
Restart == /\ nrestarts < MaxRestarts
           /\ rotated' = rotated \cup InBlocks \cup (IF LoseOpenOnRestart THEN {} ELSE Pts(open))
           /\ open' = Empty /\ blocks' = <<>> /\ nrestarts' = nrestarts + 1
           /\ tmem' = {} /\ tdisk' = {} /\ hrot' = {} /\ firstseg' = {}    \* a new process opens a new holder; the old ones are complete on disk
           /\ Step([op |-> "restart"]) /\ UNCHANGED <<acc, last, nputs>>
TagsFlush == /\ tdisk # tmem /\ tdisk' = tmem
             /\ Step([op |-> "tagsflush"]) /\ UNCHANGED <<open, blocks, rotated, acc, last, nputs, nrestarts, tmem, hrot, firstseg>>
Answer(S, a, b) == {p \in acc : p[1] \in S /\ a <= p[2] /\ p[2] <= b}
\* what the engine's search rules return: datapoints of earlier holders are always found (their trees are complete on disk);
\* datapoints of the current holder only for the series its tags search finds
InHolder == Pts(open) \cup InBlocks \cup hrot
TagsFound == IF UseMemWhenOpen \/ hrot = {} THEN tmem ELSE tdisk
EngineAnswer(S, a, b) == {p \in Answer(S, a, b) : p \in InHolder => p[1] \in TagsFound}
\* regex on the metric name over the group G: candidate names = groups with a series in the segments consulted
NameKnown(G) == IF NamesFromAll THEN TRUE ELSE G \cap firstseg # {}
EngineRegexAnswer(G, a, b) == {p \in EngineAnswer(G, a, b) : p \in InHolder => NameKnown(G)}
Query(S, a, b) == /\ acc # {} /\ a <= b
                  /\ Step([op |-> "query", sel |-> S, a |-> a, b |-> b, expect |-> Answer(S, a, b)])
                  /\ UNCHANGED <<open, blocks, rotated, acc, last, nputs, nrestarts, tmem, tdisk, hrot, firstseg>>
Selectors == {{s} : s \in Series} \cup Groups
Next == \/ \E s \in Series, t \in 1..MaxT : Put(s, t)
        \/ BlockFlush \/ SegRotate \/ Restart \/ TagsFlush
        \/ \E S \in Selectors, a, b \in 0..(MaxT + 1) : Query(S, a, b)
Spec == Init /\ [][Next]_vars
Stored == Pts(open) \cup InBlocks \cup rotated
NothingMoves == /\ Stored = acc
                /\ Pts(open) \cap InBlocks = {} /\ Pts(open) \cap rotated = {} /\ InBlocks \cap rotated = {}
                /\ \A i, j \in 1..Len(blocks) : i # j => Pts(blocks[i]) \cap Pts(blocks[j]) = {}
AnswerIsStored == \A S \in Selectors, a, b \in 0..(MaxT + 1) : Answer(S, a, b) \subseteq Stored
AnswerComplete == /\ \A S \in Selectors : EngineAnswer(S, 0, MaxT + 1) = Answer(S, 0, MaxT + 1)
                  /\ \A G \in Groups : EngineRegexAnswer(G, 0, MaxT + 1) = Answer(G, 0, MaxT + 1)
=============================================================================
