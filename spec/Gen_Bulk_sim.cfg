SPECIFICATION Spec
CONSTANTS
  MaxLines = 6
  Classes <- ClassesAll
  FixSticky = FALSE
  FixErrFlag = FALSE
  FixTrailing = FALSE
  FixStore = FALSE
CONSTRAINT Emit
CHECK_DEADLOCK FALSE
