SPECIFICATION Spec
CONSTANTS
  MaxDp = 4
  MaxFlush = 3
  MaxSegRot = 2
  MaxPend = 1
  PutAtomic = TRUE
  AccountAtomic = TRUE
  ReaderHandlesEmpty = TRUE
  RefreshExempt = TRUE
  BlkCheckBySuffix = FALSE
INVARIANTS TypeOK NoDup NoInvent NoLoss NoQueryError QuiescentEq StoredOnce
CHECK_DEADLOCK FALSE
