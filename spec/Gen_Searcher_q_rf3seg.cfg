SPECIFICATION GenSpec
CONSTANTS
  NSEG = 3
  NBLK = 2
  R = 1
  T = 3
  MAXB = 2
  RF = TRUE
CONSTRAINT Emit
CHECK_DEADLOCK FALSE
