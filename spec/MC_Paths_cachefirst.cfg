SPECIFICATION Spec
CONSTANTS
  MaxLen = 3
  GuardMode = "all"
  CacheBeforeGuard <- AllApiNames
  NormAfterGuard <- NoApis
  Classes <- CoreClasses
INVARIANTS Confined
CHECK_DEADLOCK FALSE
