SPECIFICATION GenSpec
CONSTANTS
  Orgs <- Orgs2
  Indexes <- IndexNamesPrefix
  Aliases <- AliasNames
  Exprs <- ExprsAll
  DelExprs <- DelExprsPrefix
  TermsOf <- Terms
  Matches <- Match
  IsWild <- Wild
  GenMode = "plain"
  MaxOps = 4
  FixDelete = FALSE
  FixRegistry = FALSE
CONSTRAINT Emit
CHECK_DEADLOCK FALSE
