SPECIFICATION Spec
CONSTANTS
  Defect = "none"
  N = 4
  Datasets <- DatasetsAgg4
  Spans <- SpansAll
  Origins <- OriginsAll
INVARIANTS InvMergeEqualsDirect InvFinal InvMergeCommutes InvKeysOnce InvRows InvRowsPartition TypeOK
CHECK_DEADLOCK FALSE
