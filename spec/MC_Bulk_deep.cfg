SPECIFICATION Spec
CONSTANTS
  MaxLines = 5
  Classes <- ClassesAll
  FixSticky = FALSE
  FixErrFlag = FALSE
  FixTrailing = FALSE
  FixStore = FALSE
INVARIANTS Characterised TypeOK
CHECK_DEADLOCK FALSE
