SPECIFICATION Spec
CONSTANTS
  MaxSegs = 3
  Kinds <- KindsBoth
  Times <- TimesHorizon
  Weights <- W1
  DistinctHi = FALSE
  Straddle = TRUE
  PassKinds <- PassTime
  Limits <- Limit0
  OpenWs <- Open0
  WithPq = FALSE
  MaxCrash = 0
  MaxRepeat = 0
  DetOrder = FALSE
  Mults <- M1
  Orgs <- Org0
  RewriteScratch = FALSE
  SortedDel = "bsearch"
  MetKeyWraps = TRUE
  SkipTooBig = TRUE
  PqIdsLoaded = FALSE
  InodeCleansDangling = FALSE
INVARIANTS TypeOK Consistent TimeExact OldestFirst Idempotent NoNeedlessDeletion
CHECK_DEADLOCK FALSE
