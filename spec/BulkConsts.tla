----------------------------- MODULE BulkConsts -----------------------------
(* Class sets for the Bulk configurations. *)
ClassesAll == {"IDX", "IDXB", "IDXL", "CRE", "UPD", "DEL", "UNK", "NJ", "DOC", "NOC", "BAD", "BIG", "EMP"}
\* the classes the loop's case analysis distinguishes, one representative each (used for the longer bodies)
ClassesCore == {"IDX", "IDXL", "UPD", "DEL", "NJ", "DOC", "NOC", "BAD", "BIG", "EMP"}
=============================================================================
