SPECIFICATION Spec
CONSTANTS
  MaxEvents = 4
  MaxFlush = 2
  MaxRot = 2
  Dedup = TRUE
  Recheck = TRUE
  UseTree = FALSE
  TreeAtomic = TRUE
  ReaderFallback = TRUE
INVARIANTS NoDup NoLoss NoInvent NoDamage NoPartialTree NeverInNeither TypeOK
CHECK_DEADLOCK FALSE
