SPECIFICATION Spec
CONSTANTS
  MaxDp = 1
  MaxIdx = 0
  MaxBlk = 0
  MaxCrash = 1
  Faults = FALSE
  LexListing = TRUE
  CrcChecked = TRUE
  FlushBeforeDelete = FALSE
  KeepFlushedBlock = FALSE
  MetaAtomic = FALSE
  StartupIngest = TRUE
  MetaSkipsEmptyBlock = FALSE
  MaxMeta = 1
  NpDp = 1
INVARIANTS MetaDurable
CHECK_DEADLOCK FALSE
