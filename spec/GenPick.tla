------------------------------ MODULE GenPick ------------------------------
(* Indices of the seeded sample.  This default is replaced at run time: the
   check writes a GenPick.tla with numbers drawn from VERIF_SEED into TLC's
   staging directory (python's RNG is the only source of randomness, so a
   run is reproducible from the seed). *)
PickIdx == {0, 7, 19, 23, 42, 57, 64, 71, 88, 93, 101, 117, 133, 150, 171, 190, 211, 230, 257, 301}
=============================================================================
