SPECIFICATION Spec
CONSTANTS
  Cols = {"x", "z"}
  MaxCols = 1
  MaxClauses = 2
  Searches = {"*", "x=1"}
  CmdsWithCols = {"fields", "dedup", "dedup 2", "sort", "sort 0", "sort 2", "sort -", "top", "top 0", "top 1", "rare", "rare 0", "rare 1"}
  CmdsWithBy = {"stats count", "stats sum(x)", "timechart count", "streamstats count", "eventstats count"}
INVARIANT Bound
CONSTRAINT Emit
CHECK_DEADLOCK FALSE
