----------------------------- MODULE WALShards -----------------------------
(* Multi-shard composition of the datapoint write-ahead logs (C10): every metrics segment (shard) has its OWN log file,
   its own buffer and its own lock; appends of different shards run concurrently (size-triggered appends from the ingest
   goroutines in appendToWALBuffer, the 1 s flusher timeBasedWalDPSFlush) and must share nothing.
   Code: pkg/segment/writer/metrics/metricssegment.go (appendToWALBuffer / timeBasedWalDPSFlush under dpWalState.lock,
   initNewDpWal: one wal.DataPointEncoder per log file), pkg/segment/writer/metrics/wal/wal.go (Wal.Append =
   DataPointEncoder.PrepareEncode [raw buffer filled, then compressed into the encoder's output buffer under encoderLock;
   Wal.encodedBuf ALIASES that output buffer] + writeBlockToFile [checksum over encodedBuf, then three writes]).

   One action per step of Append, per shard; the steps of different shards interleave freely (each shard's own steps
   are serialised by its lock).  A datapoint is <<shard, n>>: the n-th datapoint shard ingested.

   SharedEncoder = FALSE : code as it is - every log owns its encoder (raw and output buffer).
   SharedEncoder = TRUE  : one encoder object for all logs (what a "reuse the buffers" change does): the per-file state
                           machines are no longer independent.                                                     *)
EXTENDS Naturals, Sequences, FiniteSets, TLC

CONSTANTS Shards,         \* set of shard ids
          MaxDp,          \* datapoints ingested per shard
          SharedEncoder   \* BOOLEAN, see above

VARIABLES buf,       \* [shard -> datapoints buffered for the next append]
          pc,        \* [shard -> "idle" | "fill" | "zip" | "sum" | "len" | "crc" | "pay"]
          next,      \* [shard -> next n]
          raw,       \* [encoder -> content of the raw buffer]
          out,       \* [encoder -> content of the compressed output buffer]
          sum,       \* [shard -> content the checksum was computed over]
          inflight,  \* [shard -> datapoints of the append in progress]
          file,      \* [shard -> sequence of blocks [len, crc (content it covers), pay (content written)]]
          appended,  \* history: [shard -> sequence of datapoint sequences whose append completed]
          crashed
vars == <<buf, pc, next, raw, out, sum, inflight, file, appended, crashed>>

Enc(s) == IF SharedEncoder THEN 0 ELSE s          \* which encoder object shard s's log uses
Encoders == IF SharedEncoder THEN {0} ELSE Shards
None == <<>>

Init == /\ buf = [s \in Shards |-> <<>>] /\ pc = [s \in Shards |-> "idle"] /\ next = [s \in Shards |-> 1]
        /\ raw = [e \in Encoders |-> None] /\ out = [e \in Encoders |-> None]
        /\ sum = [s \in Shards |-> None] /\ inflight = [s \in Shards |-> <<>>]
        /\ file = [s \in Shards |-> <<>>] /\ appended = [s \in Shards |-> <<>>] /\ crashed = FALSE

Live == ~crashed
\* EncodeDatapoint -> appendToWALBuffer (the shard's lock is free: no append of this shard in progress)
Buffer(s) == /\ Live /\ pc[s] = "idle" /\ next[s] <= MaxDp
             /\ buf' = [buf EXCEPT ![s] = Append(@, <<s, next[s]>>)] /\ next' = [next EXCEPT ![s] = @ + 1]
             /\ UNCHANGED <<pc, raw, out, sum, inflight, file, appended, crashed>>
\* Append begins (size trigger or timer), under the shard's lock
Begin(s) == /\ Live /\ pc[s] = "idle" /\ buf[s] # <<>>
            /\ inflight' = [inflight EXCEPT ![s] = buf[s]] /\ pc' = [pc EXCEPT ![s] = "fill"]
            /\ UNCHANGED <<buf, next, raw, out, sum, file, appended, crashed>>
\* PrepareEncode: rawBlockBuf.Reset(); count, timestamps, values, tsids written
Fill(s) == /\ Live /\ pc[s] = "fill" /\ raw' = [raw EXCEPT ![Enc(s)] = inflight[s]] /\ pc' = [pc EXCEPT ![s] = "zip"]
           /\ UNCHANGED <<buf, next, out, sum, inflight, file, appended, crashed>>
\* encoder.EncodeAll(raw, out[:0]) under encoderLock; Wal.encodedBuf now aliases the encoder's output buffer
Zip(s) == /\ Live /\ pc[s] = "zip" /\ out' = [out EXCEPT ![Enc(s)] = raw[Enc(s)]] /\ pc' = [pc EXCEPT ![s] = "sum"]
          /\ UNCHANGED <<buf, next, raw, sum, inflight, file, appended, crashed>>
\* writeBlockToFile: checksum over w.encodedBuf
Checksum(s) == /\ Live /\ pc[s] = "sum" /\ sum' = [sum EXCEPT ![s] = out[Enc(s)]] /\ pc' = [pc EXCEPT ![s] = "len"]
               /\ UNCHANGED <<buf, next, raw, out, inflight, file, appended, crashed>>
WriteLen(s) == /\ Live /\ pc[s] = "len"
               /\ file' = [file EXCEPT ![s] = Append(@, [len |-> TRUE, crc |-> None, hasCrc |-> FALSE, pay |-> None, hasPay |-> FALSE])]
               /\ pc' = [pc EXCEPT ![s] = "crc"]
               /\ UNCHANGED <<buf, next, raw, out, sum, inflight, appended, crashed>>
WriteCrc(s) == /\ Live /\ pc[s] = "crc"
               /\ file' = [file EXCEPT ![s][Len(file[s])] = [@ EXCEPT !.crc = sum[s], !.hasCrc = TRUE]]
               /\ pc' = [pc EXCEPT ![s] = "pay"]
               /\ UNCHANGED <<buf, next, raw, out, sum, inflight, appended, crashed>>
\* the payload written is what the aliased buffer holds NOW; the append has completed; dpIdx = 0
WritePayload(s) == /\ Live /\ pc[s] = "pay"
                   /\ file' = [file EXCEPT ![s][Len(file[s])] = [@ EXCEPT !.pay = out[Enc(s)], !.hasPay = TRUE]]
                   /\ appended' = [appended EXCEPT ![s] = Append(@, inflight[s])]
                   /\ buf' = [buf EXCEPT ![s] = <<>>] /\ inflight' = [inflight EXCEPT ![s] = <<>>]
                   /\ pc' = [pc EXCEPT ![s] = "idle"]
                   /\ UNCHANGED <<next, raw, out, sum, crashed>>
Crash == /\ Live /\ crashed' = TRUE /\ UNCHANGED <<buf, pc, next, raw, out, sum, inflight, file, appended>>

Next == \/ \E s \in Shards : Buffer(s) \/ Begin(s) \/ Fill(s) \/ Zip(s) \/ Checksum(s) \/ WriteLen(s) \/ WriteCrc(s) \/ WritePayload(s)
        \/ Crash
Spec == Init /\ [][Next]_vars
-----------------------------------------------------------------------------
\* DPWalIterator over shard s's file: blocks until the first incomplete one or the first whose checksum does not cover its payload
Good(b) == b.hasCrc /\ b.hasPay /\ b.crc = b.pay
RECURSIVE Replay(_)
Replay(bs) == IF bs = <<>> \/ ~Good(Head(bs)) THEN <<>> ELSE <<Head(bs).pay>> \o Replay(Tail(bs))
IsPrefix(a, b) == Len(a) <= Len(b) /\ a = SubSeq(b, 1, Len(a))

\* what is replayed from a shard's log is a prefix of the blocks THAT shard appended (nothing foreign, nothing invented, in order)
OwnPrefix == \A s \in Shards : IsPrefix(Replay(file[s]), appended[s])
\* every append of the shard that completed is replayed
OwnComplete == \A s \in Shards : Len(Replay(file[s])) = Len(appended[s])
\* a datapoint is replayed from the log of the shard it was ingested into only
NoForeign == \A s \in Shards : \A i \in DOMAIN file[s] : file[s][i].hasPay => \A j \in DOMAIN file[s][i].pay : file[s][i].pay[j][1] = s
TypeOK == \A s \in Shards : pc[s] \in {"idle", "fill", "zip", "sum", "len", "crc", "pay"}
=============================================================================
