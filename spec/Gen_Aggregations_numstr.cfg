SPECIFICATION Spec
CONSTANTS
  Defect = "none"
  N = 3
  Datasets <- DatasetsNumStr3
  Spans <- SpansNone
  Origins <- OriginsAll
CONSTRAINT Emit
CHECK_DEADLOCK FALSE
