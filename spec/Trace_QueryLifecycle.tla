------------------------ MODULE Trace_QueryLifecycle ------------------------
(* Trace validation of the real query life cycle (sync HTTP path) against
   QueryLifecycle.  The trace is the verifhook event log of a stress run:
     q.enqueue q.dequeue q.run q.run.sent q.run.skip q.delete q.pull.cleared q.cancel.admitting
                                                                    (logged under arqMapLock / waitingQueriesLock)
     q.cancel.miss q.cancel.mark q.cancel.sent q.timeout.fire q.timeout.sent
     h.recv h.done x.start x.done                                   (handler / executor goroutines)
   plus "reset" between runs and "quiesce" (tables measured after the run).

   Events logged under the lock that protects the state they report are bound
   strictly (queue lengths, table sizes, FIFO order, admission).  Events logged
   outside a lock only advance their own goroutine's pc and are used as causes:
   a message may be received only after the event that precedes its send
   (channel contents are therefore an unordered bag here, sends are performed at
   the causing event).  All invariants of QueryLifecycle are evaluated in every
   state of the trace.                                                          *)
EXTENDS QueryLifecycle, Json, IOUtils, TLCExt

TraceLog == ndJsonDeserialize("trace.ndjson")
TraceQ == {TraceLog[i].kv.qid : i \in {j \in 1..Len(TraceLog) : "qid" \in DOMAIN TraceLog[j].kv}}

VARIABLE l
tvars == <<vars, l>>

Ev == TraceLog[l]
IsEvent(e) == l <= Len(TraceLog) /\ TraceLog[l].ev = e /\ l' = l + 1
Qid == Ev.kv.qid

TInit == Init /\ l = 1

Put(q, m) == chan' = [chan EXCEPT ![q] = Append(@, m)]
Has(q, m) == \E i \in 1..Len(chan[q]) : chan[q][i] = m
RemoveOne(sq, m) == LET i == CHOOSE k \in 1..Len(sq) : sq[k] = m
                    IN SubSeq(sq, 1, i - 1) \o SubSeq(sq, i + 1, Len(sq))

TEnqueue ==
  /\ IsEvent("q.enqueue")
  /\ Enqueue(Qid)
  /\ Len(waiting') = Ev.kv.nwait

TDequeue ==       \* canRunQuery (checked earlier; running can only have shrunk since) + getNextWaitStateData
  /\ IsEvent("q.dequeue")
  /\ ppc = "check" /\ Cardinality(running) < MAXRUN
  /\ waiting # <<>> /\ Head(waiting) = Qid
  /\ pq' = Qid /\ waiting' = Tail(waiting) /\ ppc' = "lock"
  /\ Len(waiting') = Ev.kv.nwait
  /\ UNCHANGED <<running, cancelled, chan, arq, wq, hpc, outcome, epc, upd, tpc, cpc, ncancel>>

TPullGot ==       \* puller holds the dequeued query, no lock held
  /\ IsEvent("q.pull.got")
  /\ ppc = "lock" /\ pq = Qid
  /\ UNCHANGED vars

TRun ==           \* RunQuery: write lock, insert, arm timer; READY and RUNNING follow before the lock is released
  /\ IsEvent("q.run")
  /\ ppc = "lock" /\ pq = Qid /\ arq = "free"
  \* (no requirement on `cancelled`: a cancel that found the query with the puller is logged under the waiting-queue lock,
  \*  its mark follows under another lock and may come after the puller's look at isCancelled)
  /\ running' = running \cup {Qid}
  /\ Cardinality(running') = Ev.kv.nrun
  /\ Ev.kv.max = MAXRUN
  /\ tpc' = [tpc EXCEPT ![Qid] = "armed"]
  /\ arq' = "puller" /\ ppc' = "ready"
  /\ chan' = [chan EXCEPT ![Qid] = Append(Append(@, "READY"), "RUNNING")]
  /\ UNCHANGED <<waiting, cancelled, wq, hpc, outcome, epc, upd, pq, cpc, ncancel>>

TRunSent ==
  /\ IsEvent("q.run.sent")
  /\ ppc = "ready" /\ pq = Qid
  /\ ppc' = "clear" /\ arq' = "free"
  /\ UNCHANGED <<running, waiting, cancelled, chan, wq, hpc, outcome, epc, upd, tpc, pq, cpc, ncancel>>

TRunSkip ==
  /\ IsEvent("q.run.skip")
  /\ ppc = "lock" /\ pq = Qid /\ Qid \in cancelled
  /\ ppc' = "clear"
  /\ UNCHANGED <<running, waiting, cancelled, chan, arq, wq, hpc, outcome, epc, upd, tpc, pq, cpc, ncancel>>

TPullCleared ==   \* clearAdmittingQuery under the waiting-queue lock
  /\ IsEvent("q.pull.cleared")
  /\ ppc = "clear" /\ ppc' = "check"
  /\ UNCHANGED <<running, waiting, cancelled, chan, arq, wq, hpc, outcome, epc, upd, tpc, pq, cpc, ncancel>>

Matches(m, state) == IF m = "FINISH" THEN state \in {"COMPLETE", "ERROR"} ELSE m = state

TRecv ==
  /\ IsEvent("h.recv")
  /\ hpc[Qid] = "loop"
  /\ \E m \in {"READY", "RUNNING", "FINISH", "TIMEOUT", "CANCELLED"} :
       /\ Matches(m, Ev.kv.state) /\ Has(Qid, m)
       /\ chan' = [chan EXCEPT ![Qid] = RemoveOne(@, m)]
  /\ (Ev.kv.state = "RUNNING") => ~Has(Qid, "READY")        \* RUNNING never overtakes READY (one sender, FIFO)
  /\ epc' = IF Ev.kv.state = "READY" THEN [epc EXCEPT ![Qid] = "run"] ELSE epc
  /\ IF Ev.kv.state \in ReturnsOn
     THEN /\ outcome' = [outcome EXCEPT ![Qid] = Ev.kv.state]
          /\ hpc' = [hpc EXCEPT ![Qid] = "ret"]
     ELSE UNCHANGED <<outcome, hpc>>
  /\ UNCHANGED <<running, waiting, cancelled, arq, wq, upd, tpc, ppc, pq, cpc, ncancel>>

TDelete ==        \* withLockDeleteQuery under the write lock, reached through the handler's deferred DeleteQuery
  /\ IsEvent("q.delete")
  /\ hpc[Qid] = "ret" /\ arq = "free" /\ Qid \in running
  /\ DeleteEff(Qid)
  /\ Cardinality(running') = Ev.kv.nrun
  /\ hpc' = [hpc EXCEPT ![Qid] = "gone"]
  /\ UNCHANGED <<waiting, cancelled, chan, arq, wq, outcome, epc, upd, ppc, pq, cpc, ncancel>>

THDone ==         \* RunQueryForNewPipeline returned (after its deferred calls)
  /\ IsEvent("h.done")
  /\ hpc[Qid] \in {"idle", "ret", "gone"}
  /\ hpc' = [hpc EXCEPT ![Qid] = "gone"]
  /\ UNCHANGED <<running, waiting, cancelled, chan, arq, wq, outcome, epc, upd, tpc, ppc, pq, cpc, ncancel>>

TXStart ==        \* executor goroutine started: its COMPLETE/ERROR send is performed here (bag semantics)
  /\ IsEvent("x.start")
  /\ epc[Qid] = "run"
  /\ epc' = [epc EXCEPT ![Qid] = "done"]
  /\ Put(Qid, "FINISH")
  /\ UNCHANGED <<running, waiting, cancelled, arq, wq, hpc, outcome, upd, tpc, ppc, pq, cpc, ncancel>>

TXDone ==
  /\ IsEvent("x.done")
  /\ epc[Qid] = "done"
  /\ UNCHANGED vars

TCancelMiss ==    \* lookup failed (logged outside the lock: no precondition on `running`)
  /\ IsEvent("q.cancel.miss")
  /\ UNCHANGED vars

TCancelMark ==    \* isCancelled := TRUE; the CANCELLED send follows
  /\ IsEvent("q.cancel.mark")
  /\ cancelled' = cancelled \cup {Qid}
  /\ Put(Qid, "CANCELLED")
  /\ UNCHANGED <<running, waiting, arq, wq, hpc, outcome, epc, upd, tpc, ppc, pq, cpc, ncancel>>

TCancelUnqueued == \* cancel of a query that was still waiting (after the fix): removed from the queue under wq
  /\ IsEvent("q.cancel.unqueued")
  /\ \E i \in 1..Len(waiting) : waiting[i] = Qid
  /\ waiting' = SelectSeq(waiting, LAMBDA x : x # Qid)
  /\ Len(waiting') = Ev.kv.nwait
  /\ cancelled' = cancelled \cup {Qid}
  /\ Put(Qid, "CANCELLED")
  /\ UNCHANGED <<running, arq, wq, hpc, outcome, epc, upd, tpc, ppc, pq, cpc, ncancel>>

TCancelAdmitting == \* cancel of the query the puller holds (logged under the waiting-queue lock; mark and CANCELLED follow)
  /\ IsEvent("q.cancel.admitting")
  /\ ppc \in {"lock", "ready", "clear"} /\ pq = Qid
  /\ cancelled' = cancelled \cup {Qid}
  /\ Put(Qid, "CANCELLED")
  /\ UNCHANGED <<running, waiting, arq, wq, hpc, outcome, epc, upd, tpc, ppc, pq, cpc, ncancel>>

TCancelCall ==    \* harness-side marker: a CancelQuery call is about to start / has returned
  /\ (IsEvent("t.cancel.call") \/ IsEvent("t.cancel.ret"))
  /\ UNCHANGED vars

TCancelSent ==
  /\ IsEvent("q.cancel.sent")
  /\ Qid \in cancelled
  /\ UNCHANGED vars

TTimeoutFire ==
  /\ IsEvent("q.timeout.fire")
  /\ tpc[Qid] \in {"armed", "stopped"}
  /\ IF Ev.kv.found /\ Ev.kv.deadline
     THEN /\ tpc' = [tpc EXCEPT ![Qid] = "cancel"] /\ Put(Qid, "TIMEOUT")
     ELSE /\ tpc' = [tpc EXCEPT ![Qid] = "exit"] /\ UNCHANGED chan
  /\ UNCHANGED <<running, waiting, cancelled, arq, wq, hpc, outcome, epc, upd, ppc, pq, cpc, ncancel>>

TTimeoutSent ==
  /\ IsEvent("q.timeout.sent")
  /\ tpc[Qid] = "cancel"
  /\ UNCHANGED vars

TQuiesce ==       \* tables as measured on the real engine after the run
  /\ IsEvent("quiesce")
  /\ Cardinality(running) = Ev.kv.running
  /\ Len(waiting) = Ev.kv.waiting
  /\ UNCHANGED vars

TReset ==
  /\ IsEvent("reset")
  /\ running' = {} /\ waiting' = <<>> /\ cancelled' = {}
  /\ chan' = [q \in Q |-> <<>>] /\ arq' = "free" /\ wq' = "free"
  /\ hpc' = [q \in Q |-> "idle"] /\ outcome' = [q \in Q |-> "none"]
  /\ epc' = [q \in Q |-> "none"] /\ upd' = [q \in Q |-> 0]
  /\ tpc' = [q \in Q |-> "none"] /\ ppc' = "check" /\ pq' = NoQ
  /\ cpc' = [q \in Q |-> [w \in Who |-> "none"]] /\ ncancel' = [q \in Q |-> 0]

TNext == \/ TEnqueue \/ TDequeue \/ TPullGot \/ TRun \/ TRunSent \/ TRunSkip \/ TRecv \/ TDelete \/ THDone
         \/ TXStart \/ TXDone \/ TCancelCall \/ TCancelMiss \/ TCancelMark \/ TCancelUnqueued \/ TCancelAdmitting \/ TCancelSent \/ TPullCleared
         \/ TTimeoutFire \/ TTimeoutSent \/ TQuiesce \/ TReset
TSpec == TInit /\ [][TNext]_tvars

\* every line of the trace was consumed
TraceAccepted == TLCGet("stats").diameter - 1 = Len(TraceLog)
\* where validation stopped (printed on rejection)
TraceProgress == TLCGet("stats").diameter - 1

\* handler-visible safety, evaluated in every state of the trace
TAdmission == Cardinality(running) <= MAXRUN
TClean == \A q \in Q : hpc[q] = "gone" => (q \notin running /\ \A i \in 1..Len(waiting) : waiting[i] # q)
TOneTerminal == \A q \in Q : hpc[q] \in {"ret"} => outcome[q] \in TerminalMsgs
=============================================================================
