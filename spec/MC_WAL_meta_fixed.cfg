SPECIFICATION Spec
CONSTANTS
  MaxDp = 0
  MaxIdx = 0
  MaxBlk = 0
  MaxCrash = 2
  Faults = TRUE
  LexListing = TRUE
  CrcChecked = TRUE
  FlushBeforeDelete = FALSE
  KeepFlushedBlock = FALSE
  MetaAtomic = TRUE
  StartupIngest = FALSE
  MetaSkipsEmptyBlock = FALSE
  MaxMeta = 2
  NpDp = 0
INVARIANTS TypeOK MetaNoInvent MetaDurable
CHECK_DEADLOCK FALSE
