SPECIFICATION Spec
CONSTANTS
  MaxSpans = 5
  MaxTraces = 3
  Services <- SvcABC
  MaxErrors = 2
  Malformations <- AllMal
  Mode = "forest"
  Orders = {"fwd", "rev", "rot"}
  PageSize = 2
  MinSpans = 1
  MinEntries = 0
  ResolveInTrace = TRUE
INVARIANTS TypeOK BuildIsWellFormed MalformationBreaksOneTrace TreeCoversTrace TraceListOnce WindowExcludes PagesPartition DepGraphExact REDEntries IngestPlanInvariance
CHECK_DEADLOCK FALSE
