------------------------------ MODULE Grammar ------------------------------
(* Token-level generative grammar for the C17 parser half: a query text is any
   sequence of at most MaxLen tokens of one language (well-formed or not:
   unbalanced parentheses, misplaced pipes and operators are the point).
   TLC enumerates every sequence (exhaustive configs) or samples longer ones
   (-simulate); each state is exported as one JSON line [lang, toks] where
   toks are indexes into the language's token table (tools side maps them to
   text: checks/c17_grammar.py TOKENS, same order).                          *)
EXTENDS Naturals, Sequences, Json, IOUtils
CONSTANTS Lang,     \* "spl" | "sql" | "promql"
          NTok,     \* number of tokens of that language
          MaxLen
VARIABLE s
Init == s = <<>>
Next == Len(s) < MaxLen /\ \E t \in 1..NTok : s' = Append(s, t)
Spec == Init /\ [][Next]_s
\* balanced-ness etc. are NOT required; the only structural fact the model states is the length bound
LenBound == Len(s) <= MaxLen
Emit == IF Len(s) >= 1
        THEN Serialize(ToJson([lang |-> Lang, toks |-> s]) \o "\n", "behaviours.ndjson",
                 [format |-> "TXT", charset |-> "UTF-8", openOptions |-> <<"WRITE", "CREATE", "APPEND">>]).exitValue = 0
        ELSE TRUE
\* simulation mode (-simulate): emission happens inside the next-state relation
NextSim == /\ Next
           /\ Serialize(ToJson([lang |-> Lang, toks |-> s']) \o "\n", "behaviours.ndjson",
                 [format |-> "TXT", charset |-> "UTF-8", openOptions |-> <<"WRITE", "CREATE", "APPEND">>]).exitValue = 0
SpecSim == Init /\ [][NextSim]_s
=============================================================================
