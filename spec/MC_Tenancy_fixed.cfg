SPECIFICATION Spec
CONSTANTS
  Orgs <- Orgs2
  Indexes <- IndexNames
  Aliases <- AliasNames
  Exprs <- ExprsAll
  DelExprs <- DelExprsAll
  TermsOf <- Terms
  Matches <- Match
  IsWild <- Wild
  MaxOps = 4
  FixDelete = TRUE
  FixRegistry = TRUE
INVARIANTS NoLeak ExactByName Exact TypeOK
CHECK_DEADLOCK FALSE
VIEW View
