------------------------- MODULE MC_QueryLifecycle -------------------------
EXTENDS QueryLifecycle
CONSTANTS q1, q2, q3
Q2 == {q1, q2}
Q3 == {q1, q2, q3}
Sym2 == Permutations(Q2)
Sym3 == Permutations(Q3)
=============================================================================
