SPECIFICATION GenSpec
CONSTANTS
  Chains <- Singles
  RowVals <- RowsSmall
  MaxRows = 3
  MaxEmpty = 1
  EofModes <- BoolBoth
  SSCarry = TRUE
CONSTRAINT Emit
CHECK_DEADLOCK FALSE
