SPECIFICATION Spec
CONSTANTS
  MaxSpans = 8
  MaxTraces = 3
  Services <- SvcAB
  MaxErrors = 2
  Malformations <- NoMalformations
  Mode = "forest"
  Orders = {"fwd"}
  PageSize = 50
  MinSpans = 6
  MinEntries = 5
  ResolveInTrace = TRUE
CONSTRAINT EmitForest
CHECK_DEADLOCK FALSE
