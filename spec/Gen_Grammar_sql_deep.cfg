SPECIFICATION Spec
CONSTANTS
  Lang = "sql"
  NTok = 20
  MaxLen = 4
INVARIANT LenBound
CONSTRAINT Emit
CHECK_DEADLOCK FALSE
