SPECIFICATION Spec
CONSTANTS
  N = 3
  Cool = 0
  SilLen = 2
  MaxEvals = 6
  MaxDt = 1
  MaxEdits = 0
  MaxSil = 2
  MaxFails = 0
  RowsDelta = 0
INVARIANTS StateLaw NotifLaw Bookkeeping TypeOK
CHECK_DEADLOCK FALSE
