SPECIFICATION Spec
CONSTANTS
  NSEG = 2
  NBLK = 2
  R = 2
  T = 4
  MAXB = 2
  RF = FALSE
INVARIANTS Sorted NoDupOut NoInvent Complete PrefixFinal HeadOK PagesPartition TypeOK
VIEW View
