SPECIFICATION GenSpec
CONSTANTS
  Tenants <- T2
  Keys <- K3
  Ops <- OpsCD
  MaxOps = 3
  MaxRestarts = 1
  Strict = TRUE
  Policy <- PolAlias
  ReloadSkips <- NoTenants
  CleanFlush = "none"
CHECK_DEADLOCK FALSE
CONSTRAINT Emit
