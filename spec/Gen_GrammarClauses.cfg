SPECIFICATION Spec
CONSTANTS
  Cols = {"x", "y", "z"}
  MaxCols = 3
  MaxClauses = 1
  Searches = {"*", "x=1"}
  CmdsWithCols = {"fields", "dedup", "sort", "top", "rare"}
  CmdsWithBy = {"stats count", "stats sum(x)", "timechart count", "streamstats count", "eventstats count"}
INVARIANT Bound
CONSTRAINT Emit
CHECK_DEADLOCK FALSE
