---------------------------- MODULE KVStoreConsts ----------------------------
(* Records cannot be written in a .cfg.  Policy = the admissible branch each real
   store was SEEN to take (calibrated by exploration; only used to generate replay
   behaviours - a store that takes another admissible branch is reported as policy
   drift, not as a violation). *)
T2 == {"t0", "t1"}
T1 == {"t0"}
K2 == {"k1", "k2"}
K3 == {"k1", "k2", "k3"}
OpsAll == {"create", "update", "rename", "delete"}
OpsNoRename == {"create", "update", "delete"}
OpsCRD == {"create", "rename", "delete"}
OpsCD == {"create", "delete"}
\* dashboards / folders / alerts / contacts: names are unique, ids are generated
PolUnique == [createExisting |-> FALSE, updateMissing |-> FALSE, renameMissing |-> FALSE, renameOnto |-> FALSE, deleteMissing |-> FALSE]
\* saved queries: save = upsert
PolUpsert == [createExisting |-> TRUE, updateMissing |-> TRUE, renameMissing |-> FALSE, renameOnto |-> FALSE, deleteMissing |-> FALSE]
\* lookup files: upload without overwrite rejects an existing name; with overwrite it upserts
PolLookup == [createExisting |-> FALSE, updateMissing |-> TRUE, renameMissing |-> FALSE, renameOnto |-> FALSE, deleteMissing |-> FALSE]
\* index aliases: add is idempotent, remove of a missing pair is accepted
PolAlias == [createExisting |-> TRUE, updateMissing |-> TRUE, renameMissing |-> FALSE, renameOnto |-> FALSE, deleteMissing |-> TRUE]
NoTenants == {}
SkipT0 == {"t0"}
=============================================================================
