--------------------------- MODULE RetentionConsts --------------------------
(* Model-checking / generation constants for Retention (negative numbers and
   sets of strings cannot be written in a .cfg). *)
EXTENDS Integers
KindsBoth == {"log", "met"}
KindsLog == {"log"}
\* relative to the horizon: older / exactly at / newer
TimesHorizon == {-1, 0, 1}
\* what the binding can pin down (the pass reads the clock itself: "exactly at" cannot be hit)
TimesBindable == {-1, 1}
\* volume / inode passes: only the order of the latest times matters
\* two ranks for up to three segments: ties in the latest time are unavoidable (a victim and a survivor, or two
\* victims, end on the same millisecond; sort.Slice may order them either way)
TimesRank2 == {1, 2}
TimesRank3 == {1, 2, 3}
TimesRank4 == {1, 2, 3, 4}
W1 == {1}
W12 == {1, 2}
PassTime == {"time"}
PassVolume == {"volume"}
PassInode == {"inode"}
PassAll == {"time", "volume", "inode"}
PassVolInode == {"volume", "inode"}
Limit0 == {0}
Limits03 == {0, 1, 2, 3}
Limits05 == {0, 1, 2, 3, 4, 5}
Limits07 == {0, 1, 2, 3, 4, 5, 6, 7}
Org0 == {0}
\* the default organisation and one other tenant
Org07 == {0, 7}
M1 == {1}
\* 12 tied victims: more than one bucket of the Go map the pass iterates (deletion order differs from list order)
M1_12 == {1, 12}
Open0 == {0}
Open01 == {0, 1}
=============================================================================
