SPECIFICATION GenSpec
CONSTANTS
  Tenants <- T1
  Keys <- K2
  Ops <- OpsNoRename
  MaxOps = 6
  MaxRestarts = 2
  Strict = TRUE
  Policy <- PolLookup
  ReloadSkips <- NoTenants
  CleanFlush = "none"
CHECK_DEADLOCK FALSE
CONSTRAINT Emit
