SPECIFICATION Spec
CONSTANTS
  MaxLines = 4
  Classes <- ClassesAll
  FixSticky = FALSE
  FixErrFlag = FALSE
  FixTrailing = FALSE
  FixStore = FALSE
INVARIANTS Conforms TypeOK
CHECK_DEADLOCK FALSE
