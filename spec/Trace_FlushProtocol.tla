------------------------ MODULE Trace_FlushProtocol ------------------------
(* Trace validation of the REAL writer's file operations against FlushProtocol (conformance: the exhaustive result
   on the model transfers to the code only if the code performs its file operations in the order the spec assumes).

   The trace is the strace-recorded operation list of ONE segment of a real run, projected by checks/c07.py onto the
   spec's action names (one line per action):
     ColStart c / ColFinish c   first / last operation on column file c within a flush
     ColsJoined                 (inserted before the first BsuAppend of a flush: the join itself is not a system call)
     BsuAppend                  write to .bsu
     SstTmp / SstRename         creation of .sst.tmp / rename over .sst
     SfmWrite / SfmFill         rename of .sfm.tmp over .sfm (SfmAtomic) or O_TRUNC open of .sfm / write to it
     MarkDone                   the harness's "flush.done" marker (its own write system call)
     TreeBegin / TreeLev / TreeEnd   creation of .strm(.tmp) / first operation on .strl / rename to .strm (TreeAtomic) or
                                last write to .strm
     RotSfmWrite / RotSfmFill   the same two operations on .sfm inside the rotation
     SegmetaAppend              write to segmeta.json
     RotDone                    the harness's "rot.done" marker
   Every line must be explained by the spec action of that name in the state reached so far; TypeOK and
   BsuImpliesReadable are evaluated in every state of the trace. *)
EXTENDS FlushProtocol, Json, IOUtils, TLCExt

TraceLog == ndJsonDeserialize("trace.ndjson")
VARIABLE l
tvars == <<vars, l>>
Ev == TraceLog[l]
IsEvent(e) == l <= Len(TraceLog) /\ TraceLog[l].ev = e /\ l' = l + 1

TInit == Init /\ l = 1
TNext == \/ IsEvent("ColStart") /\ \E c \in Cols : c = Ev.c /\ ColStart(c)
         \/ IsEvent("ColFinish") /\ \E c \in Cols : c = Ev.c /\ ColFinish(c)
         \/ IsEvent("ColsJoined") /\ ColsJoined
         \/ IsEvent("BsuAppend") /\ BsuAppend
         \/ IsEvent("SstTmp") /\ SstTmp
         \/ IsEvent("SstRename") /\ SstRename
         \/ IsEvent("SfmWrite") /\ SfmWrite
         \/ IsEvent("SfmFill") /\ SfmFill
         \/ IsEvent("MarkDone") /\ MarkDone
         \/ IsEvent("TreeBegin") /\ TreeBegin
         \/ IsEvent("TreeLev") /\ TreeLev
         \/ IsEvent("TreeEnd") /\ TreeEnd
         \/ IsEvent("RotSfmWrite") /\ RotSfmWrite
         \/ IsEvent("RotSfmFill") /\ RotSfmFill
         \/ IsEvent("SegmetaAppend") /\ SegmetaAppend
         \/ IsEvent("RotDone") /\ RotDone
TSpec == TInit /\ [][TNext]_tvars
TraceAccepted == TLCGet("stats").diameter - 1 = Len(TraceLog)
=============================================================================
