--------------------------- MODULE MetricsQueryPick ---------------------------
(* Which scenarios the generator emits: those whose hash is 0 modulo PickMod.  The check
   overwrites this module in its staging directory with VERIF_SEED-derived values. *)
PickSeed == 1
PickMod == 40
PickModL == 20      \* layout histories of the long-series family: every PickModL-th (by hash) is emitted
=============================================================================
