------------------------------ MODULE Tenancy ------------------------------
(* C13 - searches see only the requested indexes of the requesting tenant;
   deleting an index removes all of its data and nothing else.

   Two layers, compared by TLC in every reachable state:

   (a) the abstract store the statement talks about:
         ev[o][i]   events ingested into index i of organisation o and not deleted
         vis[o][i]  those of them that are searchable (flushed)
         tab[o]     indexes of o that exist
         al[o]      alias -> index pairs of o
       Expand(o, e) = the indexes of o an index expression names (directly, through a
       wildcard, through an alias); Query(o, e) = UNION of vis[o][i] over them.

   (b) a transcription of how siglens keeps and finds the same data:
         vtFile[o] / vtMem[o]  virtualtablenames file and in-memory map (virtualtable.go)
         aliasMem[o], aliasKeys[o]   aliasToIndexNames[org][alias][index]
         open[o][i], un[o][i]  the segstore of stream (i, o): unflushed / flushed-unrotated records
         rot                   rotated segments [org, idx, ids]  (segmeta.json = allSegmentMicroIndex)
         tbl[i]                tableSortedMetadata[i]: the rotated segments listed under TABLE NAME i
       QueryI(o, e) = what the query path returns: ExpandAndReturnIndexNames against vtFile[o]
       and aliasMem[o], then unrotated segments with (TableName, orgid) and rotated segments of
       tbl[name] filtered by OrgId.
       DeleteIndexI is esBulkHandler.go deleteIndex: DeleteVirtualTable (file only),
       DeleteSegmentsForIndex / DeleteVirtualTableSegStore (by index NAME), metadata.deleteTable
       (segments of that org, then drops the whole tbl[name] list).  FixDelete / FixRegistry switch
       on the candidate patches (docs/patches/C13-*.patch).

   Invariants: NoLeak (the property's "only"), ExactByName / Exact (nothing else is lost),
   NoDeleteExact (every deviation of the transcription involves a DeleteIndex).
   Whether the real code deviates is decided only by the replay (checks/c13.py). *)
EXTENDS Integers, Sequences, FiniteSets, TLC

CONSTANTS Orgs, Indexes, Aliases,     \* Indexes contains names that extend each other (a, ab, abc): inner / leading wildcards must not take the longer name
          Exprs,                      \* index expressions queried (strings as sent)
          DelExprs,                   \* index expressions deleted (direct names, wildcards matching no alias)
          TermsOf(_),                 \* expression -> set of comma separated terms
          Matches(_, _),              \* wildcard term x name -> BOOLEAN
          IsWild(_),                  \* term contains '*' (and is not just "*")
          MaxOps,
          FixDelete,                  \* deletion keyed by (index, org) at every layer
          FixRegistry                 \* DeleteVirtualTable also forgets the index in the in-memory registry

VARIABLES ev, vis, tab, al,                      \* (a)
          vtFile, vtMem, aliasMem, aliasKeys, open, un, rot, tbl,   \* (b)
          nops, deleted,                          \* number of operations so far / has a DeleteIndex run
          last                                    \* the last operation (for the exported history)
avars == <<ev, vis, tab, al>>
ivars == <<vtFile, vtMem, aliasMem, aliasKeys, open, un, rot, tbl>>
vars == <<ev, vis, tab, al, vtFile, vtMem, aliasMem, aliasKeys, open, un, rot, tbl, nops, deleted, last>>

Empty == [o \in Orgs |-> [i \in Indexes |-> {}]]

Init == /\ ev = Empty /\ vis = Empty /\ tab = [o \in Orgs |-> {}] /\ al = [o \in Orgs |-> {}]
        /\ vtFile = [o \in Orgs |-> {}] /\ vtMem = [o \in Orgs |-> {}]
        /\ aliasMem = [o \in Orgs |-> {}] /\ aliasKeys = [o \in Orgs |-> {}]
        /\ open = Empty /\ un = Empty /\ rot = {} /\ tbl = [i \in Indexes |-> {}]
        /\ nops = 0 /\ deleted = FALSE /\ last = [op |-> "init"]

-----------------------------------------------------------------------------
(* ---- (a) abstract ---- *)
TermA(o, t) ==
  IF t = "*" THEN tab[o]
  ELSE IF IsWild(t) THEN {i \in tab[o] : Matches(t, i)} \cup {p[2] : p \in {q \in al[o] : Matches(t, q[1])}}
  ELSE IF \E q \in al[o] : q[1] = t THEN {q[2] : q \in {r \in al[o] : r[1] = t}}
  ELSE {t} \cap Indexes
Expand(o, e) == UNION {TermA(o, t) : t \in TermsOf(e)}
Query(o, e) == UNION {vis[o][i] : i \in Expand(o, e)}
Allowed(o, e) == UNION {ev[o][i] : i \in Expand(o, e)}

(* ---- (b) transcription ---- *)
TermI(o, t) ==
  IF t = "*" THEN vtFile[o]
  ELSE IF IsWild(t) THEN {i \in vtFile[o] : Matches(t, i)} \cup {p[2] : p \in {q \in aliasMem[o] : Matches(t, q[1])}}
  ELSE IF t \in aliasKeys[o] THEN {q[2] : q \in {r \in aliasMem[o] : r[1] = t}}
  ELSE {t} \cap Indexes
ExpandI(o, e) == UNION {TermI(o, t) : t \in TermsOf(e)}     \* (no match at all: the expression itself is used as a table name - no data)
Found(o, i) == un[o][i] \cup UNION {r.ids : r \in {s \in tbl[i] : s.org = o}}
QueryI(o, e) == UNION {Found(o, i) : i \in ExpandI(o, e)}

-----------------------------------------------------------------------------
Step(rec) == nops < MaxOps /\ nops' = nops + 1 /\ last' = rec

(* one event, id = ordinal of the operation (unique) *)
Ingest(o, i) ==
  /\ Step([op |-> "ingest", org |-> o, idx |-> i, id |-> nops + 1])
  /\ ev' = [ev EXCEPT ![o][i] = @ \cup {nops + 1}]
  /\ tab' = [tab EXCEPT ![o] = @ \cup {i}]
  \* AddAndGetRealIndexName -> AddVirtualTable: appended to the file only if the in-memory map does not know it
  /\ vtFile' = IF i \in vtMem[o] THEN vtFile ELSE [vtFile EXCEPT ![o] = @ \cup {i}]
  /\ vtMem' = [vtMem EXCEPT ![o] = @ \cup {i}]
  /\ open' = [open EXCEPT ![o][i] = @ \cup {nops + 1}]
  /\ UNCHANGED <<vis, al, aliasMem, aliasKeys, un, rot, tbl, deleted>>

Flush ==
  /\ Step([op |-> "flush"])
  /\ vis' = ev
  /\ un' = [o \in Orgs |-> [i \in Indexes |-> un[o][i] \cup open[o][i]]]
  /\ open' = Empty
  /\ UNCHANGED <<ev, tab, al, vtFile, vtMem, aliasMem, aliasKeys, rot, tbl, deleted>>

(* ForceRotateSegmentsForTest: every segstore with records is flushed and rotated *)
Rotate ==
  /\ Step([op |-> "rotate"])
  /\ vis' = ev
  /\ LET new == {[org |-> o, idx |-> i, ids |-> un[o][i] \cup open[o][i]] : <<o, i>> \in {p \in Orgs \X Indexes : un[p[1]][p[2]] \cup open[p[1]][p[2]] # {}}}
     IN /\ rot' = rot \cup new
        /\ tbl' = [i \in Indexes |-> tbl[i] \cup {r \in new : r.idx = i}]
  /\ un' = Empty /\ open' = Empty
  /\ UNCHANGED <<ev, tab, al, vtFile, vtMem, aliasMem, aliasKeys, deleted>>

(* Ingest(o, i) immediately followed by Rotate, as ONE step of a generated history (the harness executes both).
   Not part of Next: it adds no reachable state, it only lets the generators reach states in which one
   (organisation, index) owns several rotated segments within the operation bound. *)
IngestRotate(o, i) ==
  /\ Step([op |-> "ingest_rotate", org |-> o, idx |-> i, id |-> nops + 1])
  /\ ev' = [ev EXCEPT ![o][i] = @ \cup {nops + 1}]
  /\ tab' = [tab EXCEPT ![o] = @ \cup {i}]
  /\ vtFile' = IF i \in vtMem[o] THEN vtFile ELSE [vtFile EXCEPT ![o] = @ \cup {i}]
  /\ vtMem' = [vtMem EXCEPT ![o] = @ \cup {i}]
  /\ vis' = ev'
  /\ LET buf == [p \in Orgs |-> [j \in Indexes |-> un[p][j] \cup open[p][j] \cup (IF p = o /\ j = i THEN {nops + 1} ELSE {})]]
         new == {[org |-> p[1], idx |-> p[2], ids |-> buf[p[1]][p[2]]] : p \in {q \in Orgs \X Indexes : buf[q[1]][q[2]] # {}}}
     IN /\ rot' = rot \cup new
        /\ tbl' = [j \in Indexes |-> tbl[j] \cup {r \in new : r.idx = j}]
  /\ un' = Empty /\ open' = Empty
  /\ UNCHANGED <<al, aliasMem, aliasKeys, deleted>>

AddAlias(o, a, i) ==
  /\ Step([op |-> "alias_add", org |-> o, alias |-> a, idx |-> i])
  /\ al' = [al EXCEPT ![o] = @ \cup {<<a, i>>}]
  /\ aliasMem' = [aliasMem EXCEPT ![o] = @ \cup {<<a, i>>}]
  /\ aliasKeys' = [aliasKeys EXCEPT ![o] = @ \cup {a}]
  /\ UNCHANGED <<ev, vis, tab, vtFile, vtMem, open, un, rot, tbl, deleted>>

RemoveAlias(o, a, i) ==
  /\ <<a, i>> \in al[o]
  /\ Step([op |-> "alias_remove", org |-> o, alias |-> a, idx |-> i])
  /\ al' = [al EXCEPT ![o] = @ \ {<<a, i>>}]
  /\ aliasMem' = [aliasMem EXCEPT ![o] = @ \ {<<a, i>>}]     \* the key stays in aliasToIndexNames[org] with an empty map
  /\ UNCHANGED <<ev, vis, tab, vtFile, vtMem, aliasKeys, open, un, rot, tbl, deleted>>

(* DELETE /elastic/<e> issued by organisation o; e is a direct name or a wildcard expression that matches no
   alias name (deleteIndex expands it with ExpandAndReturnIndexNames like a search) *)
DeleteIndex(o, e) ==
  LET del == Expand(o, e) \cap tab[o]            \* what the statement says is deleted
      delI == ExpandI(o, e) \cap vtFile[o]        \* IsVirtualTablePresent reads the file
  IN
  /\ Step([op |-> "delete", org |-> o, idx |-> e, names |-> del, present |-> del # {}])
  /\ deleted' = TRUE
  /\ ev' = [ev EXCEPT ![o] = [i \in Indexes |-> IF i \in del THEN {} ELSE @[i]]]
  /\ vis' = [vis EXCEPT ![o] = [i \in Indexes |-> IF i \in del THEN {} ELSE @[i]]]
  /\ tab' = [tab EXCEPT ![o] = @ \ del]
  /\ vtFile' = [vtFile EXCEPT ![o] = @ \ delI]
  /\ vtMem' = IF FixRegistry THEN [vtMem EXCEPT ![o] = @ \ delI] ELSE vtMem
  /\ IF FixDelete
     THEN /\ open' = [open EXCEPT ![o] = [i \in Indexes |-> IF i \in delI THEN {} ELSE @[i]]]
          /\ un' = [un EXCEPT ![o] = [i \in Indexes |-> IF i \in delI THEN {} ELSE @[i]]]
          /\ rot' = {r \in rot : ~(r.idx \in delI /\ r.org = o)}
          /\ tbl' = [i \in Indexes |-> IF i \in delI THEN {r \in tbl[i] : r.org # o} ELSE tbl[i]]
     ELSE /\ open' = [p \in Orgs |-> [i \in Indexes |-> IF i \in delI THEN {} ELSE open[p][i]]]   \* DeleteVirtualTableSegStore(name)
          /\ un' = [p \in Orgs |-> [i \in Indexes |-> IF i \in delI THEN {} ELSE un[p][i]]]
          /\ rot' = {r \in rot : r.idx \notin delI}                          \* removeSegmetas(nil, name) + RemoveAll(dirs)
          /\ tbl' = [i \in Indexes |-> IF i \in delI THEN {} ELSE tbl[i]]    \* delete(hm.tableSortedMetadata, table)
  /\ UNCHANGED <<al, aliasMem, aliasKeys>>

Next == \/ \E o \in Orgs, i \in Indexes : Ingest(o, i)
        \/ \E o \in Orgs, e \in DelExprs : DeleteIndex(o, e)
        \/ \E o \in Orgs, a \in Aliases, i \in Indexes : AddAlias(o, a, i) \/ RemoveAlias(o, a, i)
        \/ Flush \/ Rotate
Spec == Init /\ [][Next]_vars

-----------------------------------------------------------------------------
(* The property: a query of organisation o over expression e returns only events of o in indexes
   e names - for every query issued in every reachable state. *)
NoLeak == \A o \in Orgs, e \in Exprs : QueryI(o, e) \subseteq Allowed(o, e)
(* ... and deleting an index removes nothing else: everything that should be searchable still is *)
ExactByName == \A o \in Orgs, i \in Indexes : Found(o, i) = vis[o][i]
Exact == \A o \in Orgs, e \in Exprs : QueryI(o, e) = Query(o, e)
(* all deviations of the transcription involve a DeleteIndex *)
NoDeleteExact == ~deleted => (Exact /\ ExactByName)
TypeOK == /\ nops \in 0..MaxOps
          /\ \A o \in Orgs : tab[o] \subseteq Indexes /\ vtFile[o] \subseteq Indexes /\ aliasMem[o] \subseteq Aliases \X Indexes
          /\ \A r \in rot : r.org \in Orgs /\ r.idx \in Indexes
(* the exported history is output only *)
View == <<ev, vis, tab, al, vtFile, vtMem, aliasMem, aliasKeys, open, un, rot, tbl, nops, deleted>>
=============================================================================
