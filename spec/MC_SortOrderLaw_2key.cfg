SPECIFICATION Spec
CONSTANTS
  Vals <- ValsSmall
  Ops <- OpsAuto
  Tol = 0
  MaxRows = 0
  NKeys = 2
  RankByLooks = FALSE

CHECK_DEADLOCK FALSE
