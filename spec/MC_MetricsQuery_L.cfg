SPECIFICATION Spec
CONSTANTS
  USeq <- UH
  Scenarios <- ScenLSmall
  Grids = {"pow"}
  Orders = {"time", "series"}
  NT = 12
  MaxOps = 2
  Tails <- TailsH
  Queries <- QueriesLMC
  RegisterPerSegment = TRUE
INVARIANTS TypeOK NoLossNoDup TagsCover LayoutInvarianceSel LayoutInvariance
CHECK_DEADLOCK FALSE
VIEW View
