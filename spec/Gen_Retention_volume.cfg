SPECIFICATION GenSpec
CONSTANTS
  MaxSegs = 3
  Kinds <- KindsBoth
  Times <- TimesRank3
  Weights <- W12
  DistinctHi = TRUE
  Straddle = FALSE
  PassKinds <- PassVolume
  Limits <- Limit0
  OpenWs <- Open01
  WithPq = FALSE
  MaxCrash = 1
  MaxRepeat = 0
  DetOrder = TRUE
  Mults <- M1
  Orgs <- Org0
  RewriteScratch = FALSE
  SortedDel = "scan"
  MetKeyWraps = TRUE
  SkipTooBig = TRUE
  PqIdsLoaded = FALSE
  InodeCleansDangling = FALSE
CONSTRAINT Emit
CHECK_DEADLOCK FALSE
