SPECIFICATION GenSpec
CONSTANTS
  NSEG = 3
  NBLK = 1
  R = 2
  T = 4
  MAXB = 2
  RF = TRUE
CONSTRAINT Emit
CHECK_DEADLOCK FALSE
