----------------------------- MODULE Visibility -----------------------------
(* Which events a search sees while ingest, block flushes and segment rotation run concurrently
   (pkg/segment/writer/segstore.go AppendWipToSegfile / checkAndRotateColFiles / CleanupUnrotatedSegment,
   pkg/segment/writer/unrotatedquery.go, pkg/segment/metadata, pkg/segment/query/segquery.go
   getAllSegmentsInQuery / getAllSegmentsInAggs / GetSSRsFromQSR).

   Writer (one stream; the steps are those of the code, in its order):
     Ingest(n)    events go to the in-memory block (not searchable)
     FlushVis     the block's files are written and updateUnrotatedBlockInfo makes it searchable as part of the
                  open ("unrotated") segment                                             [hook flush.unrotated.visible]
     FlushEnd     .sst / .sfm / pqmr written, buffer reset                                [hook flush.end]
     RotMeta      (flushes a non-empty buffer first) segmeta.json entry + AddSegMetaToMetadata: the segment is now ALSO
                  in the rotated metadata                                                [hook rot.metadata.visible]
     RotRemove    removeSegKeyFromUnrotatedInfo: no longer in the unrotated info         [hook rot.unrotated.removed]
     RotEnd       segstore reset, next segment                                            [hook rot.end]
   Query (one at a time is enough: queries do not interact):
     QSnapU       list of unrotated segments                                              [hook snap(agg).unrotated]
     QSnapR       list of rotated segments; since the "fix:" commit an unrotated entry whose key is also in the
                  rotated list is dropped (Dedup = TRUE); before it both were searched (Dedup = FALSE) [hook snap(agg).rotated]
     QSearch      every listed entry is searched; an entry from the unrotated list whose segment has meanwhile left
                  the unrotated info is read through the rotated metadata (GetSSRsFromQSR)

   The order "RotMeta before RotRemove" means a segment is never in neither list (no loss) but is briefly in both.  *)
EXTENDS Naturals, Sequences, FiniteSets, TLC

CONSTANTS MaxEvents,   \* total events that may be ingested
          MaxFlush,    \* block flushes (explicit ones; a rotation's implicit flush not counted)
          MaxRot,      \* rotations
          Dedup        \* BOOLEAN: does the query drop unrotated entries that are also listed as rotated

VARIABLES nextId,      \* next event id (events are 1..nextId-1)
          wip,         \* set of event ids in the in-memory block
          segs,        \* sequence of segments: [ev |-> set of searchable event ids, inU |-> BOOLEAN, inR |-> BOOLEAN]
          wpc,         \* writer pc: "idle" | "fvis" | "rmeta" | "rrem"
          nflush, nrot,
          qpc,         \* "none" | "snapU" | "snapR" | "done"
          snapU, snapR,\* sets of segment indexes
          visAtStart,  \* events searchable when the query took its first snapshot
          result       \* sequence (bag) of event ids returned
vars == <<nextId, wip, segs, wpc, nflush, nrot, qpc, snapU, snapR, visAtStart, result>>

Cur == Len(segs)
NewSeg == [ev |-> {}, inU |-> FALSE, inR |-> FALSE]
Searchable == UNION {segs[i].ev : i \in {j \in 1..Len(segs) : segs[j].inU \/ segs[j].inR}}

Init == /\ nextId = 1 /\ wip = {} /\ segs = <<NewSeg>> /\ wpc = "idle" /\ nflush = 0 /\ nrot = 0
        /\ qpc = "none" /\ snapU = {} /\ snapR = {} /\ visAtStart = {} /\ result = <<>>

Ingest(n) == /\ wpc = "idle" /\ nextId + n - 1 <= MaxEvents
             /\ wip' = wip \cup (nextId..(nextId + n - 1)) /\ nextId' = nextId + n
             /\ UNCHANGED <<segs, wpc, nflush, nrot, qpc, snapU, snapR, visAtStart, result>>

MakeVisible == segs' = [segs EXCEPT ![Cur] = [@ EXCEPT !.ev = @ \cup wip, !.inU = TRUE]]

FlushVis == /\ wpc = "idle" /\ wip # {} /\ nflush < MaxFlush
            /\ MakeVisible /\ wip' = {} /\ wpc' = "fvis" /\ nflush' = nflush + 1
            /\ UNCHANGED <<nextId, nrot, qpc, snapU, snapR, visAtStart, result>>
FlushEnd == /\ wpc = "fvis" /\ wpc' = "idle"
            /\ UNCHANGED <<nextId, wip, segs, nflush, nrot, qpc, snapU, snapR, visAtStart, result>>

\* rotation of the current segment (needs at least one block, possibly the one it flushes itself)
RotMeta == /\ wpc = "idle" /\ nrot < MaxRot /\ (segs[Cur].ev # {} \/ wip # {})
           /\ segs' = [segs EXCEPT ![Cur] = [ev |-> @.ev \cup wip, inU |-> TRUE, inR |-> TRUE]]
           /\ wip' = {} /\ wpc' = "rmeta" /\ nrot' = nrot + 1
           /\ UNCHANGED <<nextId, nflush, qpc, snapU, snapR, visAtStart, result>>
RotRemove == /\ wpc = "rmeta"
             /\ segs' = [segs EXCEPT ![Cur] = [@ EXCEPT !.inU = FALSE]]
             /\ wpc' = "rrem"
             /\ UNCHANGED <<nextId, wip, nflush, nrot, qpc, snapU, snapR, visAtStart, result>>
RotEnd == /\ wpc = "rrem" /\ segs' = Append(segs, NewSeg) /\ wpc' = "idle"
          /\ UNCHANGED <<nextId, wip, nflush, nrot, qpc, snapU, snapR, visAtStart, result>>

QSnapU == /\ qpc = "none"
          /\ snapU' = {i \in 1..Len(segs) : segs[i].inU}
          /\ visAtStart' = Searchable
          /\ qpc' = "snapU"
          /\ UNCHANGED <<nextId, wip, segs, wpc, nflush, nrot, snapR, result>>
QSnapR == /\ qpc = "snapU"
          /\ snapR' = {i \in 1..Len(segs) : segs[i].inR}
          /\ qpc' = "snapR"
          /\ UNCHANGED <<nextId, wip, segs, wpc, nflush, nrot, snapU, visAtStart, result>>

RECURSIVE Concat(_)
Concat(ss) == IF ss = <<>> THEN <<>> ELSE Head(ss) \o Concat(Tail(ss))
SetToSeq(S) == CHOOSE f \in [1..Cardinality(S) -> S] : \A i, j \in 1..Cardinality(S) : i # j => f[i] # f[j]
\* what searching segment i returns now: everything searchable in it (it is listed, so it is in U or R)
SegEvents(i) == SetToSeq(segs[i].ev)
QSearch == /\ qpc = "snapR"
           /\ LET uList == IF Dedup THEN snapU \ snapR ELSE snapU
                  entries == SetToSeq(uList) \o SetToSeq(snapR)      \* one search per listed entry
              IN result' = Concat([k \in 1..Len(entries) |-> SegEvents(entries[k])])
           /\ qpc' = "done"
           /\ UNCHANGED <<nextId, wip, segs, wpc, nflush, nrot, snapU, snapR, visAtStart>>

Next == \/ \E n \in 1..2 : Ingest(n)
        \/ FlushVis \/ FlushEnd \/ RotMeta \/ RotRemove \/ RotEnd
        \/ QSnapU \/ QSnapR \/ QSearch
Spec == Init /\ [][Next]_vars
-----------------------------------------------------------------------------
Range(s) == {s[i] : i \in 1..Len(s)}
\* every event at most once
NoDup == \A i, j \in 1..Len(result) : i # j => result[i] # result[j]
\* every event whose flush completed (was searchable) before the search began is returned
NoLoss == qpc = "done" => visAtStart \subseteq Range(result)
\* nothing that was never ingested / never flushed
NoInvent == Range(result) \subseteq Searchable
\* a segment is never in neither list while it has searchable events
NeverInNeither == \A i \in 1..Len(segs) : segs[i].ev # {} => (segs[i].inU \/ segs[i].inR)
TypeOK == /\ wpc \in {"idle", "fvis", "rmeta", "rrem"} /\ qpc \in {"none", "snapU", "snapR", "done"}
=============================================================================
