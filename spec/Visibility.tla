----------------------------- MODULE Visibility -----------------------------
(* Which events a search sees while ingest, block flushes and segment rotation run concurrently
   (pkg/segment/writer/segstore.go AppendWipToSegfile / checkAndRotateColFiles / CleanupUnrotatedSegment,
   pkg/segment/writer/unrotatedquery.go, pkg/segment/metadata, pkg/segment/query/segquery.go
   getAllSegmentsInQuery / getAllSegmentsInAggs / GetSSRsFromQSR).

   Writer (one stream; the steps are those of the code, in its order):
     Ingest(n)    events go to the in-memory block (not searchable)
     FlushVis     the block's files are written and updateUnrotatedBlockInfo makes it searchable as part of the
                  open ("unrotated") segment                                             [hook flush.unrotated.visible]
     FlushEnd     .sst / .sfm / pqmr written, buffer reset                                [hook flush.end]
     RotTree      (only when the segment carries an agile tree, UseTree = TRUE) the rotation flushes a non-empty buffer and
                  then writes the tree files (EncodeStarTree).  Queries take the existence of the tree's meta file as
                  "this segment has a tree" and read it at once; the pinned code created the file under its final name
                  and filled it afterwards (TreeAtomic = FALSE: the tree is visible while partial); since the "fix:"
                  commit it is written under a temporary name and renamed when complete (TreeAtomic = TRUE)
                                                                                         [hook rot.tree.created]
     RotSegmeta   (flushes a non-empty buffer first; completes the tree) the segment's line is appended to segmeta.json;
                  nothing a query looks at has changed yet: the segment must still be found through the unrotated
                  info until RotMeta has happened                                        [hook rot.metadata.begin]
     RotMeta      AddSegMetaToMetadata: the segment is now ALSO in the rotated metadata  [hook rot.metadata.visible]
     RotRemove    removeSegKeyFromUnrotatedInfo: no longer in the unrotated info         [hook rot.unrotated.removed]
     RotEnd       segstore reset, next segment                                            [hook rot.end]
   Query (one at a time is enough: queries do not interact):
     QSnapU       list of unrotated segments                                              [hook snap(agg).unrotated]
     QSnapR       list of rotated segments; since the "fix:" commit an unrotated entry whose key is also in the
                  rotated list is dropped (Dedup = TRUE); before it both were searched (Dedup = FALSE) [hook snap(agg).rotated]
     QTree        group-by queries look, for every listed segment, whether it has an agile tree and read the tree's meta
                  data (canUseAgileTree before any segment is searched); reading a partial tree is a crash
     QCheck       for the entries taken from the unrotated list the search decides whether the segment is (still)
                  unrotated (IsSegKeyUnrotated in GetSSRsFromQSR)                          [hook search.unrotated]
     QPlan        the per-segment search requests are built.  An entry that QCheck found unrotated is planned from the
                  unrotated info; if the segment has left it in between the read finds nothing, and - since the "fix:"
                  commit (Recheck = TRUE) - it is then planned through the rotated metadata; before, the segment was
                  silently skipped (Recheck = FALSE).  An entry QCheck found rotated is planned through the rotated
                  metadata.  The plan fixes the blocks (events) that will be searched.        [hook search.planned]
     QOpenCheck   the column readers of a planned segment decide AGAIN whether the segment is unrotated
                  (IsSegKeyUnrotated in initNewMultiColumnReader)                          [hook read.unrotated.checked]
     QOpenGet     ... and then fetch its block table from the unrotated info (GetBlockSearchInfoForKey).  If the segment
                  has left the unrotated info between the two, the pinned code failed to open the readers and treated
                  the segment as matching nothing (ReaderFallback = FALSE); since the "fix:" commit the readers fall
                  back to the rotated metadata (ReaderFallback = TRUE).
     QFetchCheck  record queries only: the matched records' columns are read by a second set of readers, which again
                  first ask whether the segment is unrotated (readUserDefinedColForRRCs)   [hook fetch.unrotated.checked]
     QFetchGet    ... and then fetch the block summaries from the unrotated info (GetBlockSummaryForKey); a segment that
                  left in between made the column unreadable - the records came back without that column
                  (ReaderFallback = FALSE) - now the rotated metadata is used (ReaderFallback = TRUE).

   The order "RotMeta before RotRemove" means a segment is never in neither list (no loss) but is briefly in both.  *)
EXTENDS Naturals, Sequences, FiniteSets, TLC

CONSTANTS MaxEvents,   \* total events that may be ingested
          MaxFlush,    \* block flushes (explicit ones; a rotation's implicit flush not counted)
          MaxRot,      \* rotations
          Dedup,       \* BOOLEAN: does the query drop unrotated entries that are also listed as rotated
          Recheck,     \* BOOLEAN: does an empty unrotated read of a meanwhile-rotated segment fall back to the rotated metadata
          UseTree,     \* BOOLEAN: do rotations write an agile tree (group-by columns tracked by the persistent-query machinery)
          TreeAtomic,  \* BOOLEAN: does the tree become visible only when complete
          ReaderFallback \* BOOLEAN: do column readers whose unrotated lookup fails (segment rotated after their own check) use the rotated metadata

VARIABLES nextId,      \* next event id (events are 1..nextId-1)
          wip,         \* set of event ids in the in-memory block
          segs,        \* sequence of segments: [ev |-> set of searchable event ids, inU |-> BOOLEAN, inR |-> BOOLEAN,
                       \*                        tree |-> "none" | "partial" | "complete" (what a reader of the tree file finds)]
          wpc,         \* writer pc: "idle" | "fvis" | "rtree" | "rsegmeta" | "rmeta" | "rrem"
          nflush, nrot,
          qpc,         \* "none" | "snapU" | "snapR" | "checked" | "planned" | "ochecked" | "opened" | "fchecked" | "done"
          snapU, snapR,\* sets of segment indexes
          asU,         \* entries of the unrotated list that QCheck found still unrotated
          visAtStart,  \* events searchable when the query took its first snapshot
          plan,        \* sequence of [seg |-> segment index, ev |-> events of the blocks the request covers]
          openU,       \* planned segments whose readers found them unrotated (QOpenCheck) / (QFetchCheck)
          opened,      \* planned segments whose readers could be opened (the others are searched as "matches nothing")
          result,      \* sequence (bag) of event ids returned
          damaged,     \* ids returned without (some of) their columns
          badTree      \* the query read a tree that was still being written
vars == <<nextId, wip, segs, wpc, nflush, nrot, qpc, snapU, snapR, asU, visAtStart, plan, openU, opened, result, damaged, badTree>>
qvars == <<snapU, snapR, asU, visAtStart, plan, openU, opened, result, damaged, badTree>>

Cur == Len(segs)
NewSeg == [ev |-> {}, inU |-> FALSE, inR |-> FALSE, tree |-> "none"]
Searchable == UNION {segs[i].ev : i \in {j \in 1..Len(segs) : segs[j].inU \/ segs[j].inR}}

Init == /\ nextId = 1 /\ wip = {} /\ segs = <<NewSeg>> /\ wpc = "idle" /\ nflush = 0 /\ nrot = 0
        /\ qpc = "none" /\ snapU = {} /\ snapR = {} /\ asU = {} /\ visAtStart = {} /\ result = <<>>
        /\ plan = <<>> /\ openU = {} /\ opened = {} /\ damaged = {} /\ badTree = FALSE

Ingest(n) == /\ wpc = "idle" /\ nextId + n - 1 <= MaxEvents
             /\ wip' = wip \cup (nextId..(nextId + n - 1)) /\ nextId' = nextId + n
             /\ UNCHANGED <<segs, wpc, nflush, nrot, qpc, qvars>>

MakeVisible == segs' = [segs EXCEPT ![Cur] = [@ EXCEPT !.ev = @ \cup wip, !.inU = TRUE]]

FlushVis == /\ wpc = "idle" /\ wip # {} /\ nflush < MaxFlush
            /\ MakeVisible /\ wip' = {} /\ wpc' = "fvis" /\ nflush' = nflush + 1
            /\ UNCHANGED <<nextId, nrot, qpc, qvars>>
FlushEnd == /\ wpc = "fvis" /\ wpc' = "idle"
            /\ UNCHANGED <<nextId, wip, segs, nflush, nrot, qpc, qvars>>

\* rotation of the current segment (needs at least one block, possibly the one it flushes itself)
RotTree == /\ UseTree /\ wpc = "idle" /\ nrot < MaxRot /\ (segs[Cur].ev # {} \/ wip # {})
           /\ segs' = [segs EXCEPT ![Cur] = [@ EXCEPT !.ev = @ \cup wip, !.inU = TRUE,
                                                         !.tree = IF TreeAtomic THEN "none" ELSE "partial"]]
           /\ wip' = {} /\ wpc' = "rtree" /\ nrot' = nrot + 1
           /\ UNCHANGED <<nextId, nflush, qpc, qvars>>
RotSegmeta == /\ \/ ~UseTree /\ wpc = "idle" /\ nrot < MaxRot /\ (segs[Cur].ev # {} \/ wip # {}) /\ nrot' = nrot + 1
                 \/ UseTree /\ wpc = "rtree" /\ nrot' = nrot
              /\ segs' = [segs EXCEPT ![Cur] = [ev |-> @.ev \cup wip, inU |-> TRUE, inR |-> @.inR,
                                                tree |-> IF UseTree THEN "complete" ELSE "none"]]
              /\ wip' = {} /\ wpc' = "rsegmeta"
              /\ UNCHANGED <<nextId, nflush, qpc, qvars>>
RotMeta == /\ wpc = "rsegmeta"
           /\ segs' = [segs EXCEPT ![Cur] = [@ EXCEPT !.inR = TRUE]]
           /\ wpc' = "rmeta"
           /\ UNCHANGED <<nextId, wip, nflush, nrot, qpc, qvars>>
RotRemove == /\ wpc = "rmeta"
             /\ segs' = [segs EXCEPT ![Cur] = [@ EXCEPT !.inU = FALSE]]
             /\ wpc' = "rrem"
             /\ UNCHANGED <<nextId, wip, nflush, nrot, qpc, qvars>>
RotEnd == /\ wpc = "rrem" /\ segs' = Append(segs, NewSeg) /\ wpc' = "idle"
          /\ UNCHANGED <<nextId, wip, nflush, nrot, qpc, qvars>>

QSnapU == /\ qpc = "none"
          /\ snapU' = {i \in 1..Len(segs) : segs[i].inU}
          /\ visAtStart' = Searchable
          /\ qpc' = "snapU"
          /\ UNCHANGED <<nextId, wip, segs, wpc, nflush, nrot, snapR, asU, plan, openU, opened, result, damaged, badTree>>
QSnapR == /\ qpc = "snapU"
          /\ snapR' = {i \in 1..Len(segs) : segs[i].inR}
          /\ qpc' = "snapR"
          /\ UNCHANGED <<nextId, wip, segs, wpc, nflush, nrot, snapU, asU, visAtStart, plan, openU, opened, result, damaged, badTree>>

Range0(sq) == {sq[i] : i \in 1..Len(sq)}
\* group-by queries read the tree meta data of every listed segment that shows a tree
QTree == /\ qpc = "snapR"
         /\ badTree' = \E i \in snapU \cup snapR : segs[i].tree = "partial"
         /\ qpc' = "tree"
         /\ UNCHANGED <<nextId, wip, segs, wpc, nflush, nrot, snapU, snapR, asU, visAtStart, plan, openU, opened, result, damaged>>

RECURSIVE Concat(_)
Concat(ss) == IF ss = <<>> THEN <<>> ELSE Head(ss) \o Concat(Tail(ss))
SetToSeq(S) == CHOOSE f \in [1..Cardinality(S) -> S] : \A i, j \in 1..Cardinality(S) : i # j => f[i] # f[j]
UList == IF Dedup THEN snapU \ snapR ELSE snapU
QCheck == /\ qpc = "tree"
          /\ asU' = {i \in UList : segs[i].inU}
          /\ qpc' = "checked"
          /\ UNCHANGED <<nextId, wip, segs, wpc, nflush, nrot, snapU, snapR, visAtStart, plan, openU, opened, result, damaged, badTree>>
\* the events of segment i's searchable blocks, now
SegEvents(i) == SetToSeq(segs[i].ev)
Req(i) == <<[seg |-> i, ev |-> SegEvents(i)]>>
\* an entry of the unrotated list: planned as decided by QCheck
PlanU(i) == IF i \in asU
            THEN IF segs[i].inU THEN Req(i)                       \* still in the unrotated info
                 ELSE IF Recheck THEN Req(i) ELSE <<>>            \* left it after the check: empty read (+ fallback)
            ELSE Req(i)                                           \* found rotated by QCheck: rotated metadata
QPlan == /\ qpc = "checked"
         /\ LET us == SetToSeq(UList)
                rs == SetToSeq(snapR)
            IN plan' = Concat([k \in 1..Len(us) |-> PlanU(us[k])]) \o Concat([k \in 1..Len(rs) |-> Req(rs[k])])
         /\ qpc' = "planned"
         /\ UNCHANGED <<nextId, wip, segs, wpc, nflush, nrot, snapU, snapR, asU, visAtStart, openU, opened, result, damaged, badTree>>
PlannedSegs == {plan[k].seg : k \in 1..Len(plan)}
StillU(S) == {i \in S : segs[i].inU}
\* readers of segment i (which they found unrotated iff i \in chk) can get at its block table
CanOpen(i, chk) == i \notin chk \/ segs[i].inU \/ ReaderFallback
QOpenCheck == /\ qpc = "planned"
              /\ openU' = StillU(PlannedSegs) /\ qpc' = "ochecked"
              /\ UNCHANGED <<nextId, wip, segs, wpc, nflush, nrot, snapU, snapR, asU, visAtStart, plan, opened, result, damaged, badTree>>
QOpenGet == /\ qpc = "ochecked"
            /\ opened' = {i \in PlannedSegs : CanOpen(i, openU)} /\ qpc' = "opened"
            /\ UNCHANGED <<nextId, wip, segs, wpc, nflush, nrot, snapU, snapR, asU, visAtStart, plan, openU, result, damaged, badTree>>
QFetchCheck == /\ qpc = "opened"
               /\ openU' = StillU(opened) /\ qpc' = "fchecked"
               /\ UNCHANGED <<nextId, wip, segs, wpc, nflush, nrot, snapU, snapR, asU, visAtStart, plan, opened, result, damaged, badTree>>
\* the two middle steps as one (the harness can park the real query only at the two checks)
QOpenGetFetchCheck == /\ qpc = "ochecked"
                      /\ opened' = {i \in PlannedSegs : CanOpen(i, openU)}
                      /\ openU' = StillU(opened') /\ qpc' = "fchecked"
                      /\ UNCHANGED <<nextId, wip, segs, wpc, nflush, nrot, snapU, snapR, asU, visAtStart, plan, result, damaged, badTree>>
Found(k) == IF plan[k].seg \in opened THEN plan[k].ev ELSE <<>>
QFetchGet == /\ qpc = "fchecked"
             /\ result' = Concat([k \in 1..Len(plan) |-> Found(k)])
             /\ damaged' = UNION {Range0(plan[k].ev) : k \in {n \in 1..Len(plan) : plan[n].seg \in opened /\ ~CanOpen(plan[n].seg, openU)}}
             /\ qpc' = "done"
             /\ UNCHANGED <<nextId, wip, segs, wpc, nflush, nrot, snapU, snapR, asU, visAtStart, plan, openU, opened, badTree>>

Next == \/ \E n \in 1..2 : Ingest(n)
        \/ FlushVis \/ FlushEnd \/ RotTree \/ RotSegmeta \/ RotMeta \/ RotRemove \/ RotEnd
        \/ QSnapU \/ QSnapR \/ QTree \/ QCheck \/ QPlan \/ QOpenCheck \/ QOpenGet \/ QFetchCheck \/ QFetchGet
Spec == Init /\ [][Next]_vars
-----------------------------------------------------------------------------
Range(s) == {s[i] : i \in 1..Len(s)}
\* every event at most once
NoDup == \A i, j \in 1..Len(result) : i # j => result[i] # result[j]
\* every event whose flush completed (was searchable) before the search began is returned
NoLoss == qpc = "done" => visAtStart \subseteq Range(result)
\* nothing that was never ingested / never flushed
NoInvent == Range(result) \subseteq Searchable
\* a tree is read only when it is complete (reading a partial one ends the process)
NoPartialTree == ~badTree
\* every record comes back whole
NoDamage == damaged = {}
\* a segment is never in neither list while it has searchable events
NeverInNeither == \A i \in 1..Len(segs) : segs[i].ev # {} => (segs[i].inU \/ segs[i].inR)
TypeOK == /\ wpc \in {"idle", "fvis", "rtree", "rsegmeta", "rmeta", "rrem"} /\ qpc \in {"none", "snapU", "snapR", "tree", "checked", "planned", "ochecked", "opened", "fchecked", "done"}
=============================================================================
