SPECIFICATION GenSpec
CONSTANTS
  N = 1
  Cool = 2
  SilLen = 2
  MaxEvals = 6
  MaxDt = 2
  MaxEdits = 0
  MaxSil = 0
  MaxFails = 0
  RowsDelta = 0
CONSTRAINT Emit
CHECK_DEADLOCK FALSE
