SPECIFICATION Spec
CONSTANTS
  Chains <- SinglesSS
  RowVals <- RowsSmall
  MaxRows = 3
  MaxEmpty = 0
  EofModes <- BoolF
  SSCarry = FALSE
INVARIANTS ChunkingInvariant PrefixOK TypeOK
CHECK_DEADLOCK FALSE
