SPECIFICATION Spec
CONSTANTS
  USeq <- UH
  Scenarios <- ScenHSmall2
  Grids = {"pow", "neg"}
  Orders = {"time", "series"}
  NT = 2
  MaxOps = 2
  Tails <- TailsH
  Queries <- QueriesMC
  RegisterPerSegment = TRUE
INVARIANTS TypeOK NoLossNoDup TagsCover LayoutInvarianceSel LayoutInvariance AvgIsSumOverCount MinLeAvgLeMax ByAllIsIdentity WithoutIsByComplement SelectExact BinaryMatchesLabelSets
CHECK_DEADLOCK FALSE
VIEW View
