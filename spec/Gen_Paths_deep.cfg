SPECIFICATION Spec
CONSTANTS
  MaxLen = 4
  Guard = FALSE
CONSTRAINT Emit
CHECK_DEADLOCK FALSE
