---------------------------- MODULE Gen_LogStore ----------------------------
(* Behaviour generator for LogStore.  A history variable carries every action together
   with what the spec says is observable after it:
     must[s]  ids a match-all query over stream s has to return (flushed), exactly once
     may[s]   ids it may additionally return (accepted, still in the WIP)
     text[s]  abstract columns of s that hold a non-numeric string (numbers in them may
              come back as decimal text)
     lay[s]   the physical layout: per segment its state, tracked persistent queries and
              blocks (ids + which of x / t would be dictionary encoded)
   Every history of exactly MaxSteps actions is written as one JSON line (budgets are
   chosen so that every shorter history is a prefix of an emitted one).  The harness
   replays the actions on the real engine and compares after every step. *)
EXTENDS LogStore, LogStoreConsts, Json, IOUtils
CONSTANT MaxSteps
VARIABLE hist

Lay(s) == [k \in DOMAIN segs[s] |->
             [st |-> segs[s][k].st, pq |-> segs[s][k].pq,
              blocks |-> [j \in DOMAIN segs[s][k].blocks |->
                            [ids |-> segs[s][k].blocks[j].ids,
                             lo |-> BlockLo(segs[s][k].blocks[j]), hi |-> BlockHi(segs[s][k].blocks[j]),
                             dx |-> Dict(segs[s][k].blocks[j], "x"),
                             dt |-> Dict(segs[s][k].blocks[j], "t")]]]]
Obs == [s \in Streams |-> [must |-> Flushed(s), may |-> OpenIds(s),
                           text |-> {c \in Cols : ColHasText(s, c)}, lay |-> Lay(s)]]

GenInit == Init /\ hist = <<>>
GenNext == /\ Len(hist) < MaxSteps
           /\ Next
           /\ hist' = Append(hist, [act |-> last', obs |-> Obs'])
GenSpec == GenInit /\ [][GenNext]_<<vars, hist>>

Emit == IF Len(hist) = MaxSteps
        THEN Serialize(ToJson([steps |-> hist,
                               kinds |-> [c \in Classes |-> ClassKinds[c]],
                               x |-> [c \in Classes |-> ClassX[c]],
                               t |-> [c \in Classes |-> ClassT[c]],
                               xs |-> [c \in Classes |-> ClassXS[c]],
                               m |-> [c \in Classes |-> ClassM[c]]]) \o "\n", "behaviours.ndjson",
                 [format |-> "TXT", charset |-> "UTF-8", openOptions |-> <<"WRITE", "CREATE", "APPEND">>]).exitValue = 0
        ELSE TRUE
=============================================================================
