SPECIFICATION Spec
CONSTANTS
  Streams <- TwoStreams
  Classes <- ClassesQ3
  TsClasses <- TsOne
  Cols <- ColsAll
  ClassKinds <- KindsTabQ
  ClassX <- XTabQ
  ClassXS <- XSTabQ
  ClassT <- TTabQ
  ClassM <- MTabQ
  LowerOf <- LowerTab
  QNums <- QNumsOne
  QWords <- QWordsTwo
  MaxEvents = 2
  MaxBatch = 2
  MaxFlush = 2
  MaxRotate = 1
  MaxRestart = 1
  MaxPromote = 1
  PromoteOps <- PromoSome
  BlockCap = 3
  CardLimit = 2
  NeSkipsConstBlock = FALSE
  LowerOnInsert = TRUE
INVARIANTS RoundTrip LayoutIrrelevant StatsIrrelevant PruneSound TypeOK
PROPERTIES OnlyIngestGrows FlushedStays
CHECK_DEADLOCK FALSE
VIEW View
