SPECIFICATION GenSpec
CONSTANTS
  Q = {q1}
  MAXRUN = 1
  CAP = 10
  ASYNC = FALSE
  MAXUPD = 0
  CANCELS = 1
  TIMERS = FALSE
  SeesAdmitting = TRUE
CONSTRAINT Emit
CHECK_DEADLOCK FALSE
