SPECIFICATION GenSpec
CONSTANTS
  MaxLen = 3
  Dods <- DodsMix
  Leads <- LeadsMix
  Trails <- TrailsMix
  LeadBits = 5
  ClampLead = TRUE
  FirstDelta = 0
CONSTRAINT Emit
CHECK_DEADLOCK FALSE
