SPECIFICATION Spec
CONSTANTS
  MaxDp = 2
  MaxIdx = 1
  MaxBlk = 0
  MaxCrash = 2
  Faults = FALSE
  LexListing = TRUE
  CrcChecked = TRUE
  FlushBeforeDelete = FALSE
  KeepFlushedBlock = FALSE
  MetaAtomic = FALSE
  StartupIngest = FALSE
  MetaSkipsEmptyBlock = FALSE
  MaxMeta = 0
  NpDp = 0
INVARIANTS Durable
CHECK_DEADLOCK FALSE
