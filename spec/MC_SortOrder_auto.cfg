SPECIFICATION Spec
CONSTANTS
  Vals <- ValsAuto
  Ops <- OpsAuto
  Tol = 0
  MaxRows = 3
  NKeys = 1
  RankByLooks = FALSE
INVARIANTS SortExists AdjacentIsTotal
CHECK_DEADLOCK FALSE
