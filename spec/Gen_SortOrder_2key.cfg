SPECIFICATION Spec
CONSTANTS
  Vals <- ValsSmall
  Ops <- OpsAuto
  Tol = 0
  MaxRows = 2
  NKeys = 2
  RankByLooks = FALSE
CONSTRAINT Emit
CHECK_DEADLOCK FALSE
