SPECIFICATION GenSpec
CONSTANTS
  Streams <- OneStream
  Classes <- ClassesBare
  TsClasses <- TsOne
  Cols <- ColsAll
  ClassKinds <- KindsTab
  ClassX <- XTabRT
  ClassXS <- XSNone
  ClassT <- TTabRT
  ClassM <- MTabRT
  LowerOf <- LowerTab
  QNums <- QNumsOne
  QWords <- QWordsTwo
  MaxEvents = 4
  MaxBatch = 2
  MaxFlush = 2
  MaxRotate = 1
  MaxRestart = 1
  MaxPromote = 0
  PromoteOps <- PromoNone
  BlockCap = 99
  CardLimit = 2
  NeSkipsConstBlock = FALSE
  LowerOnInsert = TRUE
  MaxSteps = 5
CONSTRAINT Emit
CHECK_DEADLOCK FALSE
