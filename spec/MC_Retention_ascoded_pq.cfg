SPECIFICATION Spec
CONSTANTS
  MaxSegs = 3
  Kinds <- KindsBoth
  Times <- TimesHorizon
  Weights <- W1
  DistinctHi = FALSE
  Straddle = FALSE
  PassKinds <- PassTime
  Limits <- Limits05
  OpenWs <- Open01
  WithPq = TRUE
  MaxCrash = 1
  MaxRepeat = 1
  DetOrder = FALSE
  Mults <- M1
  Orgs <- Org0
  RewriteScratch = FALSE
  SortedDel = "scan"
  MetKeyWraps = TRUE
  SkipTooBig = TRUE
  PqIdsLoaded = FALSE
  InodeCleansDangling = FALSE
INVARIANTS TypeOK Consistent
CHECK_DEADLOCK FALSE
