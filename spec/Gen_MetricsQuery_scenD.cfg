SPECIFICATION ScenSpec
CONSTANTS
  USeq <- UD
  Scenarios <- ScenD
  Grids = {"pow"}
  Orders = {"time"}
  NT = 3
  MaxOps = 0
  Tails <- TailsD
  Queries <- QueriesD
  RegisterPerSegment = TRUE
CONSTRAINT EmitScenario
CHECK_DEADLOCK FALSE
