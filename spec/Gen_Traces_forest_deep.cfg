SPECIFICATION Spec
CONSTANTS
  MaxSpans = 5
  MaxTraces = 3
  Services <- SvcABC
  MaxErrors = 2
  Malformations <- AllMal
  Mode = "forest"
  Orders = {"fwd"}
  PageSize = 50
  MinSpans = 2
  MinEntries = 0
  ResolveInTrace = TRUE
CONSTRAINT EmitForest
CHECK_DEADLOCK FALSE
