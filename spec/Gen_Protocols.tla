---------------------------- MODULE Gen_Protocols ---------------------------
(* Exports every expressible case of Protocols as one JSON line (the case + what the law demands). *)
EXTENDS Protocols, ProtocolsConsts, Sequences, Json, IOUtils
Emit == IF cur # Idle
        THEN Serialize(ToJson([case |-> cur, law |-> [time |-> IF cur.time = "none" THEN "arrival" ELSE "event", resolution_ms |-> Resolution(cur.proto)]]) \o "\n",
                 "behaviours.ndjson", [format |-> "TXT", charset |-> "UTF-8", openOptions |-> <<"WRITE", "CREATE", "APPEND">>]).exitValue = 0
        ELSE TRUE
=============================================================================
