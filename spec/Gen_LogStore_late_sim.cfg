SPECIFICATION GenSpec
CONSTANTS
  Streams <- OneStream
  Classes <- ClassesLate
  TsClasses <- TsTwo
  Cols <- ColsLate
  ClassKinds <- KindsTabLate
  ClassX <- XTabLate
  ClassXS <- XSNone
  ClassT <- TTabLate
  ClassM <- MTabLate
  LowerOf <- LowerTab
  QNums <- QNumsOne
  QWords <- QWordsTwo
  MaxEvents = 12
  MaxBatch = 2
  MaxFlush = 3
  MaxRotate = 2
  MaxRestart = 1
  MaxPromote = 0
  PromoteOps <- PromoNone
  BlockCap = 99
  CardLimit = 2
  NeSkipsConstBlock = FALSE
  LowerOnInsert = TRUE
  MaxSteps = 14
CONSTRAINT Emit
CHECK_DEADLOCK FALSE
