SPECIFICATION GenSpec
CONSTANTS
  Tenants <- T2
  Keys <- K2
  Ops <- OpsAll
  MaxOps = 3
  MaxRestarts = 1
  Strict = TRUE
  Policy <- PolUnique
  ReloadSkips <- NoTenants
  CleanFlush = "none"
CHECK_DEADLOCK FALSE
CONSTRAINT Emit
