SPECIFICATION GenSpec
CONSTANTS
  MaxLen = 3
  Dods <- DodsZero
  Leads <- LeadsDeep
  Trails <- TrailsDeep
  LeadBits = 5
  ClampLead = TRUE
  FirstDelta = 0
CONSTRAINT Emit
CHECK_DEADLOCK FALSE
