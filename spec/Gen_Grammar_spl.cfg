SPECIFICATION Spec
CONSTANTS
  Lang = "spl"
  NTok = 40
  MaxLen = 2
INVARIANT LenBound
CONSTRAINT Emit
CHECK_DEADLOCK FALSE
