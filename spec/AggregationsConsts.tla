------------------------- MODULE AggregationsConsts -------------------------
(* Model universe of C04.  Measure values are scaled by 1000 (thousandths), so that decimal
   strings such as "1.14" or "2.675" - which are not binary fractions - are exact in the model. *)
EXTENDS Integers, Sequences

XI(v)  == [k |-> "int", n |-> 1000 * v, c |-> ""]
XF(q)  == [k |-> "flt", n |-> q, c |-> ""]            \* q thousandths: XF(1500) = 1.5
XNS(q, sp) == [k |-> "numstr", n |-> q, c |-> sp]     \* a string that spells the number q/1000
XT(s)  == [k |-> "text", n |-> 0, c |-> s]
XAbs   == [k |-> "absent", n |-> 0, c |-> ""]

GS(s)  == [k |-> "str", c |-> s]
GNum   == [k |-> "num", c |-> "5"]
GBool  == [k |-> "bool", c |-> "true"]
GEmpty == [k |-> "empty", c |-> ""]
GAbs   == [k |-> "absent", c |-> ""]

(* negative / zero / positive / duplicate-prone ints, floats, a numeric string, text, absent *)
XDom == {XI(3), XI(-2), XI(0), XF(1500), XF(-750), XNS(2000, "2"), XT("zz"), XAbs}
XDomSmall == {XI(3), XI(-2), XF(1500), XNS(2000, "2"), XAbs}
GDom == {GS("k1"), GS("k2"), GNum, GBool, GEmpty, GAbs}
TsDom == {0, 999, 1000, 1001, 1999, 2000, 3500}

Ev(j, ts, x, g) == [id |-> j, ts |-> ts, x |-> x, g |-> g]
SeqsOf(n, S) == [1..n -> S]
(* measure domain: timestamps 1000*j, one group *)
DatasetsAgg(n, XD) == {[j \in 1..n |-> Ev(j, 1000 * j, xs[j], GS("k1"))] : xs \in SeqsOf(n, XD)}
(* group-key domain: absent / empty / numeric / bool / string keys, two measure values *)
DatasetsGroup(n) == {[j \in 1..n |-> Ev(j, 1000 * j, p[j][1], p[j][2])] : p \in SeqsOf(n, {XI(3), XI(-2)} \X GDom)}
(* bucket domain: timestamps on and around span boundaries *)
DatasetsBucket(n) == {[j \in 1..n |-> Ev(j, ts[j], XI(1), GS("k1"))] : ts \in SeqsOf(n, TsDom)}

(* string-typed measure column (C04, numeric-string clause): decimal strings whose nearest double is not what a
   sloppy integer-part + fraction/10^k evaluation yields ("1.14", "1.36", "0.1", "2.675"), an integer string, and
   text that only LOOKS like a number ("-" and "e5" stand for the families  - + . -.  and  e5 1e 0x10 ; the
   harness substitutes other members and other spellings of the same number).  Every value is a string or absent. *)
XDomNumStr == {XNS(1140, "1.14"), XNS(1360, "1.36"), XNS(100, "0.1"), XNS(2675, "2.675"), XNS(2000, "2"), XT("-"), XT("e5"), XAbs}
DatasetsNumStr3 == DatasetsAgg(3, XDomNumStr)
DatasetsNumStr4s == DatasetsAgg(4, XDomNumStr \ {XNS(100, "0.1"), XNS(2000, "2"), XT("e5")})
DatasetsAgg3 == DatasetsAgg(3, XDom)
DatasetsAgg4 == DatasetsAgg(4, XDom)
DatasetsAgg5s == DatasetsAgg(5, XDomSmall)
DatasetsGroup3 == DatasetsGroup(3)
(* N = 4: the measure alternates 3, -2 by position, every key assignment *)
DatasetsGroup4 == {[j \in 1..4 |-> Ev(j, 1000 * j, IF j % 2 = 1 THEN XI(3) ELSE XI(-2), gs[j])] : gs \in SeqsOf(4, GDom)}
DatasetsBucket3 == DatasetsBucket(3)
DatasetsBucket4 == DatasetsBucket(4)
(* smaller N = 4 universes for behaviour export (the exhaustive check uses the full ones) *)
DatasetsAgg4s == DatasetsAgg(4, XDomSmall \cup {XT("zz")})
DatasetsGroup4s == {[j \in 1..4 |-> Ev(j, 1000 * j, IF j % 2 = 1 THEN XI(3) ELSE XI(-2), gs[j])] : gs \in SeqsOf(4, GDom \ {GS("k2")})}
DatasetsBucket4s == {[j \in 1..4 |-> Ev(j, ts[j], XI(1), GS("k1"))] : ts \in SeqsOf(4, {0, 999, 1000, 2000, 3500})}
SpansAll == {1000, 1500, 2000, 700}
(* align times: range start before the data (timechart), epoch (bin), and aligntime= inside / between / after the event times *)
OriginsAll == {0, -10, -1000, -999, 300, 1300, 2300, 3500, 5300}
(* exported for `bin span=.. aligntime=..`: spans the bin grammar accepts together with aligntime, align offsets before/inside/after *)
AlignSpans == {500, 1000, 2000, 60000}
AlignTimes == {-700, 300, 1300, 2300, 3500, 5300}
SpansNone == {}
=============================================================================
