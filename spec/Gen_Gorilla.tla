---------------------------- MODULE Gen_Gorilla ----------------------------
(* Behaviour generator for Gorilla: carries the Put sequence as a history
   variable and writes every complete behaviour (n = MaxLen) as one JSON line:
   the inputs, and per step the tokens / cumulative bit count the spec predicts.
   The harness concretises each class against the real encoder state and checks
   round trip + predicted stream length on the real compress package. *)
EXTENDS Gorilla, GorillaConsts, Json, IOUtils
VARIABLE hist
GenInit == Init /\ hist = <<>>
GenNext == \E dod \in Dods, x \in XorClasses :
              /\ Put(dod, x)
              /\ hist' = Append(hist, [dod |-> dod, x |-> x, tok |-> lastTok', bits |-> bits', ok |-> tsOK' /\ valOK'])
GenSpec == GenInit /\ [][GenNext]_<<vars, hist>>
Emit == IF n = MaxLen
        THEN Serialize(ToJson([steps |-> hist]) \o "\n", "behaviours.ndjson",
                 [format |-> "TXT", charset |-> "UTF-8", openOptions |-> <<"WRITE", "CREATE", "APPEND">>]).exitValue = 0
        ELSE TRUE
=============================================================================
