SPECIFICATION Spec
CONSTANTS
  MaxLen = 4
  Dods <- DodsAll
  Leads <- LeadsAll
  Trails <- TrailsAll
  LeadBits = 5
  ClampLead = TRUE
  FirstDelta = 0
INVARIANTS BitExact InSync Geometry TypeOK
CHECK_DEADLOCK FALSE
VIEW View
