---------------------------- MODULE MC_LogStore ----------------------------
(* Model-checking wrapper of LogStore: constant tables + the state-independent form of
   the pruning obligation over the whole small alphabet (all text values of 1..2 words
   over Words, all sets of numbers in -2..2 with / without a missing value). *)
EXTENDS LogStore, LogStoreConsts

AllTextValues == {<<w>> : w \in Words} \cup {<<w1, w2>> : w1 \in Words, w2 \in Words}
TermQueries == {q \in Queries : q.op \in {"teq", "word"}}
NumQueries == {q \in Queries : q.op \in {"eq", "ne", "lt", "gt"}}
(* bloom: a value that satisfies the term query is never pruned by Probe/Inserted *)
PruneSoundBloomAll == \A v \in AllTextValues : \A q \in TermQueries :
                         EvalT(q, v) => Probe(q) \cap Inserted(v) # {}
(* range: a block holding the numbers S (and possibly events without the column) that
   contains a satisfying event is never pruned *)
PruneSoundRangeAll == \A S \in SUBSET (-2..2) : \A hasMissing \in BOOLEAN : \A q \in NumQueries :
                         ((\E x \in S : EvalX(q, <<x>>)) \/ (hasMissing /\ EvalX(q, <<>>)))
                            => RangeMayMatch(S, q)
PruneSoundAll == PruneSoundBloomAll /\ PruneSoundRangeAll
(* constant-level: checked once at start-up for the sound setting of the two switches *)
ASSUME PruneSoundAllHolds == (~NeSkipsConstBlock /\ LowerOnInsert) => PruneSoundAll
=============================================================================
