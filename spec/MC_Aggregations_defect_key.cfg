SPECIFICATION Spec
CONSTANTS
  Defect = "absent-key-as-empty"
  N = 3
  Datasets <- DatasetsGroup3
  Spans <- SpansAll
  Origins <- OriginsAll
INVARIANTS InvMergeEqualsDirect InvFinal InvMergeCommutes InvKeysOnce InvRows InvRowsPartition TypeOK
CHECK_DEADLOCK FALSE
