------------------------------ MODULE Retention ------------------------------
(* Retention / deletion passes of pkg/retention/retention.go at the grain of the
   code's own steps.

   A segment is a record [kind, lo, hi, w]:
     kind  "log" (rotated log segment, listed in segmeta.json) or
           "met" (rotated metrics segment, listed in metricmeta.json)
     lo,hi earliest / latest event time RELATIVE TO THE RETENTION HORIZON (0):
           hi < 0  the newest event is older than the horizon  -> must be deleted
           hi > 0  the segment contains a newer event          -> must survive
           hi = 0  exactly at the horizon: the statement ("older than") leaves it open
     w     weight: bytesReceivedCount class (volume pass) / inode count class (inode pass)
     org   owning organisation (tenant).  segmeta.json is ONE file for all organisations, its
           lines are in creation (= id) order; the time pass runs per organisation
           (DoRetentionBasedDeletion(dir, hours, orgid) selects among the lines whose orgid is the
           caller's) but rewrites the whole file.  Only log records carry a non-zero org here.
     m     multiplicity: the record stands for m rotated segments of the same index with
           IDENTICAL [lo, hi] (distinct keys) - two streams receiving the same batch, or
           second-granular timestamps.  Equal lo / hi of different records also mean
           identical times (the binding keeps equalities: a tie in the model is a tie in ms).

   Durable state: files (segment directories), smeta (segmeta.json), mmeta
   (metricmeta.json), pq (segment keys listed in an empty-PQ meta file).
   Volatile state: mem (in-memory segment metadata: allSegmentMicroIndex + the reverse index,
   updated together; for metrics segments the metrics metadata) and sorted (the per-table list
   tableSortedMetadata[table], kept in DESCENDING latest time, ties in any order - this is what
   FilterSegmentsByTime walks, i.e. what every query uses to pick segments).

   One pass (internalRetentionCleaner calls the three kinds in a row):
     StartPass        victim selection: DoRetentionBasedDeletion (hi <= horizon),
                      doVolumeBasedDeletion, doInodeBasedDeletion - all read the two
                      metadata FILES, sort by latest time and scan
     DeleteSegmentData        RemoveDir(s)*  -> MemDel(s)* -> PqDel -> SegmetaRewrite
     DeleteMetricsSegmentData MMemDel(m)*    -> MRemoveDir(m)* -> MMetaRewrite
   Crash at any step loses mem; Restart reloads mem from the metadata files
   (every listed entry, whether or not its directory still exists); the pass is
   then repeated.

   Deviations of the code from the intended design are constants, so that the
   same module is checked "as intended" (must hold) and "as coded" (TLC
   counter-examples become replay candidates on the real engine):
     MetKeyWraps   volume/inode passes sort metrics entries by uint64(uint32(sec*1000)):
                   the key wraps, every metrics segment sorts before every log segment
     SkipTooBig    an entry that does not fit is skipped and the scan goes on (Go `break`
                   inside `switch` leaves the switch only; the inode pass has no break)
     PqIdsLoaded   victims carry AllPQIDs (ReadLocalSegmeta(true)); as coded FALSE, so
                   step 4 of DeleteSegmentData never removes anything
     InodeCleansDangling  the inode pass also removes listed entries whose directory is
                   gone; as coded FALSE (Walk error -> continue; usage gate returns first) *)
EXTENDS Integers, Sequences, FiniteSets, TLC

CONSTANTS MaxSegs,        \* segment sets of 1..MaxSegs segments
          Kinds,          \* subset of {"log","met"}
          Times,          \* event-time classes relative to the horizon
          Weights,        \* weight classes
          Straddle,       \* BOOLEAN: segments with lo < hi are generated
          DistinctHi,     \* BOOLEAN: no two segments share their latest time (sort.Slice is not
                          \* stable: with ties the scan order of the volume/inode passes is arbitrary)
          PassKinds,      \* subset of {"time","volume","inode"}
          Limits,         \* volume: allowed volume; inode: allowed inode usage
          OpenWs,         \* volume of open (unrotated) data, counted by getSystemVolumeBytes
          WithPq,         \* BOOLEAN: some log segments are listed in an empty-PQ meta file
          MaxCrash,       \* interruptions per behaviour
          MaxRepeat,      \* plain repetitions of the completed pass
          DetOrder,       \* BOOLEAN: per-victim loops run in id order (generation) / any order
          Mults,          \* multiplicities (at most one record of a set has m > 1, always a log record)
          Orgs,           \* organisations; 0 is the default one (its segmeta.json lines carry no orgid field)
          RewriteScratch, \* BOOLEAN model mutant of RemoveSegMetas: the rewrite decodes every line into ONE reused
                          \* entry, so a field a line omits (orgid 0) keeps the value of an earlier line; FALSE as coded
          SortedDel,      \* how deleteSegmentKeyWithLock finds the entry in the per-table list:
                          \* "scan" (as coded: walk the list, compare keys) / "bsearch" (model mutant:
                          \* first entry with that latest time, then compare the key - wrong under ties)
          MetKeyWraps, SkipTooBig, PqIdsLoaded, InodeCleansDangling

VARIABLES segs,           \* [1..n -> segment record]
          kind, limit, openw,
          files, mem, sorted, smeta, mmeta, pq,
          ownerF, ownerM, \* org recorded in the segment's segmeta.json line / in the in-memory metadata (log segments)
          porg, started, resume,  \* org of the running time pass, orgs whose pass was started, an interrupted pass is re-run
          pc, vL, vM, todo,
          crashes, repeats,
          ref             \* ghost: survivors of the first, uninterrupted selection
vars == <<segs, kind, limit, openw, files, mem, sorted, smeta, mmeta, pq, ownerF, ownerM, porg, started, resume,
          pc, vL, vM, todo, crashes, repeats, ref>>

SegClasses == {r \in [kind : Kinds, lo : Times, hi : Times, w : Weights, m : Mults, org : Orgs] :
                  /\ r.lo <= r.hi /\ (Straddle \/ r.lo = r.hi) /\ (r.m > 1 => r.kind = "log")
                  /\ (r.org # 0 => (r.kind = "log" /\ r.m = 1))}
Ids == DOMAIN segs
LogIds == {s \in Ids : segs[s].kind = "log"}
MetIds == {s \in Ids : segs[s].kind = "met"}
Listed == smeta \cup mmeta

RECURSIVE SumW(_)
SumW(S) == IF S = {} THEN 0 ELSE LET s == CHOOSE x \in S : TRUE IN segs[s].w + SumW(S \ {s})

\* every content the per-table list may have for the log segments S: descending latest time, ties in any
\* order (bulkAddSegmentMicroIndex appends and sort.Slice-s; sort.Slice is not stable)
SortedLists(S) == {q \in [1..Cardinality(S) -> S] :
                     /\ \A i, j \in 1..Cardinality(S) : i # j => q[i] # q[j]
                     /\ \A i, j \in 1..Cardinality(S) : i < j => segs[q[i]].hi >= segs[q[j]].hi}
InSorted(s) == \E i \in 1..Len(sorted) : sorted[i] = s
RemoveAt(q, p) == [i \in 1..(Len(q) - 1) |-> IF i < p THEN q[i] ELSE q[i + 1]]
\* deleteSegmentKeyWithLock on the per-table list
SortedWithout(s) ==
  IF ~InSorted(s) THEN sorted
  ELSE IF SortedDel = "scan"
       THEN RemoveAt(sorted, CHOOSE i \in 1..Len(sorted) : sorted[i] = s)
       ELSE LET p == CHOOSE i \in 1..Len(sorted) :
                        /\ segs[sorted[i]].hi <= segs[s].hi
                        /\ \A j \in 1..(i - 1) : segs[sorted[j]].hi > segs[s].hi
            IN IF sorted[p] = s THEN RemoveAt(sorted, p) ELSE sorted

MinOf(S) == CHOOSE x \in S : \A y \in S : x <= y
Pick(S) == IF DetOrder THEN {MinOf(S)} ELSE S

-----------------------------------------------------------------------------
(* ---- victim selection ---- *)

\* the org a pass sees for an entry: what the metadata FILE says
OwnerInFile(s) == IF s \in LogIds THEN ownerF[s] ELSE segs[s].org
\* DoRetentionBasedDeletion(orgid): entries of that org with LatestEpochMS <= deleteBefore
TimeVictims(o) == {s \in Listed : segs[s].hi <= 0 /\ OwnerInFile(s) = o}

\* sort key of the volume / inode scans
KeyLess(a, b) ==
  LET wa == MetKeyWraps /\ segs[a].kind = "met"
      wb == MetKeyWraps /\ segs[b].kind = "met"
  IN IF wa # wb THEN wa ELSE segs[a].hi < segs[b].hi
\* every order sort.Slice may produce (ties in any order)
ScanOrders(S) == {q \in [1..Cardinality(S) -> S] :
                    /\ \A i, j \in 1..Cardinality(S) : i # j => q[i] # q[j]
                    /\ \A i, j \in 1..Cardinality(S) : i < j => ~KeyLess(q[j], q[i])}

\* doVolumeBasedDeletion: `if bytes < volumeToDelete {victim; volumeToDelete -= bytes} else {break}`
RECURSIVE VolScan(_, _, _)
VolScan(q, i, rem) ==
  IF i > Len(q) THEN {}
  ELSE LET s == q[i] IN
       IF segs[s].w < rem THEN {s} \cup VolScan(q, i + 1, rem - segs[s].w)
       ELSE IF SkipTooBig THEN VolScan(q, i + 1, rem) ELSE {}
VolVictims(q) ==
  LET total == SumW(Listed) + openw
  IN IF total <= limit THEN {} ELSE VolScan(q, 1, total - limit)

\* doInodeBasedDeletion: usage gate, then
\* `if marked >= toFree {break}; n, err := count(dir); if err {continue}; if marked+n <= toFree {victim}`
RECURSIVE InoScan(_, _, _, _)
InoScan(q, i, marked, toFree) ==
  IF i > Len(q) \/ marked >= toFree THEN {}
  ELSE LET s == q[i] IN
       IF s \notin files THEN InoScan(q, i + 1, marked, toFree)
       ELSE IF marked + segs[s].w <= toFree
            THEN {s} \cup InoScan(q, i + 1, marked + segs[s].w, toFree)
            ELSE IF SkipTooBig THEN InoScan(q, i + 1, marked, toFree) ELSE {}
Dangling == IF InodeCleansDangling THEN Listed \ files ELSE {}
InoVictims(q) ==
  LET used == SumW(files)
  IN IF used <= limit THEN Dangling ELSE Dangling \cup InoScan(q, 1, 0, used - limit)

Victims(q, o) == CASE kind = "time" -> TimeVictims(o)
                [] kind = "volume" -> VolVictims(q)
                [] kind = "inode" -> InoVictims(q)

-----------------------------------------------------------------------------
Init ==
  /\ \E n \in 1..MaxSegs : segs \in [1..n -> SegClasses]
  /\ DistinctHi => \A a, b \in Ids : a # b => segs[a].hi # segs[b].hi
  /\ kind \in PassKinds
  /\ limit \in (IF kind = "time" THEN {0} ELSE Limits)
  /\ openw \in (IF kind = "volume" THEN OpenWs ELSE {0})
  /\ Cardinality({s \in Ids : segs[s].m > 1}) <= 1
  /\ files = Ids /\ mem = Ids /\ smeta = LogIds /\ mmeta = MetIds
  /\ sorted \in SortedLists(LogIds)
  /\ ownerF = [s \in LogIds |-> segs[s].org] /\ ownerM = ownerF
  /\ porg = 0 /\ started = {} /\ resume = FALSE
  /\ pq \in (IF WithPq THEN SUBSET LogIds ELSE {{}})
  /\ pc = "idle" /\ vL = {} /\ vM = {} /\ todo = {}
  /\ crashes = 0 /\ repeats = 0
  /\ ref = {0}       \* "not yet set"

\* where the pass goes after the log part
AfterLog(m) == IF m = {} THEN "done" ELSE "m_mem"

StartPass ==
  /\ pc = "idle"
  /\ \E q \in ScanOrders(Listed), o \in (IF kind = "time" THEN Orgs ELSE {0}) :
       LET v == Victims(q, o) IN
       /\ resume => o = porg          \* an interrupted pass is run again for the same organisation
       /\ porg' = o /\ started' = started \cup {o} /\ resume' = FALSE
       /\ vL' = v \cap LogIds
       /\ vM' = v \cap MetIds
       /\ ref' = IF o \notin started THEN (IF ref = {0} THEN Listed ELSE ref) \ v ELSE ref
       /\ IF v \cap LogIds # {}
          THEN pc' = "l_files" /\ todo' = v \cap LogIds
          ELSE pc' = AfterLog(v \cap MetIds) /\ todo' = v \cap MetIds
  /\ UNCHANGED <<segs, kind, limit, openw, files, mem, sorted, smeta, mmeta, pq, ownerF, ownerM, crashes, repeats>>

\* step 2 of DeleteSegmentData: writer.RemoveSegBasedirs (one directory per iteration)
RemoveDir(s) ==
  /\ pc = "l_files" /\ s \in Pick(todo)
  /\ files' = files \ {s}
  /\ IF todo = {s} THEN pc' = "l_mem" /\ todo' = vL ELSE pc' = pc /\ todo' = todo \ {s}
  /\ UNCHANGED <<segs, kind, limit, openw, ownerF, ownerM, porg, started, resume, mem, sorted, smeta, mmeta, pq, vL, vM, crashes, repeats, ref>>

\* step 3: segmetadata.DeleteSegmentKey per victim
MemDel(s) ==
  /\ pc = "l_mem" /\ s \in Pick(todo)
  /\ mem' = mem \ {s}
  /\ sorted' = SortedWithout(s)
  /\ IF todo = {s} THEN pc' = "l_pq" /\ todo' = {} ELSE pc' = pc /\ todo' = todo \ {s}
  /\ UNCHANGED <<segs, kind, limit, openw, ownerF, ownerM, porg, started, resume, files, smeta, mmeta, pq, vL, vM, crashes, repeats, ref>>

\* step 4: deleteSegmentsFromEmptyPqMetaFiles (ranges over AllPQIDs of the victims)
PqDel ==
  /\ pc = "l_pq"
  /\ pq' = IF PqIdsLoaded THEN pq \ vL ELSE pq
  /\ pc' = "l_segmeta"
  /\ UNCHANGED <<segs, kind, limit, openw, ownerF, ownerM, porg, started, resume, files, mem, sorted, smeta, mmeta, vL, vM, todo, crashes, repeats, ref>>

\* step 5: writer.RemoveSegMetas (tmp file + rename: atomic).  As coded every preserved line is written back as it was read.
\* Mutant: one reused decode target; a line that omits orgid (org 0) keeps the orgid of the nearest earlier line that has one
ScratchOrg(s) == IF ownerF[s] # 0 THEN ownerF[s]
                 ELSE LET prev == {t \in smeta : t < s /\ ownerF[t] # 0}
                      IN IF prev = {} THEN 0 ELSE ownerF[CHOOSE t \in prev : \A u \in prev : u <= t]
SegmetaRewrite ==
  /\ pc = "l_segmeta"
  /\ smeta' = smeta \ vL
  /\ ownerF' = IF RewriteScratch THEN [s \in LogIds |-> IF s \in smeta THEN ScratchOrg(s) ELSE ownerF[s]] ELSE ownerF
  /\ pc' = AfterLog(vM) /\ todo' = vM
  /\ UNCHANGED <<segs, kind, limit, openw, ownerM, porg, started, resume, files, mem, sorted, mmeta, pq, vL, vM, crashes, repeats, ref>>

\* DeleteMetricsSegmentData: segmetadata.DeleteMetricsSegmentKey per victim
\* (assumption: the 5 s refresh loop has loaded every listed metrics segment; otherwise the
\*  code returns without deleting anything - not demanded by the property, not modelled)
MMemDel(m) ==
  /\ pc = "m_mem" /\ m \in Pick(todo) /\ m \in mem
  /\ mem' = mem \ {m}
  /\ IF todo = {m} THEN pc' = "m_files" /\ todo' = vM ELSE pc' = pc /\ todo' = todo \ {m}
  /\ UNCHANGED <<segs, kind, limit, openw, ownerF, ownerM, porg, started, resume, files, sorted, smeta, mmeta, pq, vL, vM, crashes, repeats, ref>>

\* mmeta.RemoveMetricsSegments: os.RemoveAll(dir) per removed entry ...
MRemoveDir(m) ==
  /\ pc = "m_files" /\ m \in Pick(todo)
  /\ files' = files \ {m}
  /\ IF todo = {m} THEN pc' = "m_meta" /\ todo' = {} ELSE pc' = pc /\ todo' = todo \ {m}
  /\ UNCHANGED <<segs, kind, limit, openw, ownerF, ownerM, porg, started, resume, mem, sorted, smeta, mmeta, pq, vL, vM, crashes, repeats, ref>>

\* ... then metricmeta.json rewritten (tmp + rename) or removed
MMetaRewrite ==
  /\ pc = "m_meta"
  /\ mmeta' = mmeta \ vM
  /\ pc' = "done"
  /\ UNCHANGED <<segs, kind, limit, openw, ownerF, ownerM, porg, started, resume, files, mem, sorted, smeta, pq, vL, vM, todo, crashes, repeats, ref>>

\* the process dies at any point of the pass; the next process loads every listed entry
Crash ==
  /\ pc \notin {"idle", "done"} /\ crashes < MaxCrash
  /\ crashes' = crashes + 1
  /\ mem' = Listed
  /\ sorted' \in SortedLists(smeta)
  /\ ownerM' = ownerF /\ resume' = TRUE
  /\ pc' = "idle" /\ vL' = {} /\ vM' = {} /\ todo' = {}
  /\ UNCHANGED <<segs, kind, limit, openw, ownerF, porg, started, files, smeta, mmeta, pq, repeats, ref>>

\* the completed pass runs again (next 30-minute tick), possibly after a restart
Repeat ==
  /\ pc = "done" /\ repeats < MaxRepeat
  /\ repeats' = repeats + 1
  /\ \E restart \in BOOLEAN :
       IF restart THEN mem' = Listed /\ sorted' \in SortedLists(smeta) /\ ownerM' = ownerF
       ELSE mem' = mem /\ sorted' = sorted /\ ownerM' = ownerM
  /\ pc' = "idle" /\ vL' = {} /\ vM' = {} /\ todo' = {}
  /\ UNCHANGED <<segs, kind, limit, openw, ownerF, porg, started, resume, files, smeta, mmeta, pq, crashes, ref>>

Next == \/ StartPass
        \/ \E s \in Ids : RemoveDir(s) \/ MemDel(s) \/ MMemDel(s) \/ MRemoveDir(s)
        \/ PqDel \/ SegmetaRewrite \/ MMetaRewrite
        \/ Crash \/ Repeat
Spec == Init /\ [][Next]_vars

-----------------------------------------------------------------------------
(* The property, evaluated whenever a pass has completed (also after interruption +
   repetition and after plain repetition). *)
\* a log segment is selected for search iff it is in the per-table list
Selected(s) == IF s \in LogIds THEN InSorted(s) ELSE s \in mem
\* the segment still belongs to its organisation: in its segmeta.json line and in memory (what that org's queries and
\* that org's next retention pass see)
OwnOrg(s) == s \in LogIds => (ownerF[s] = segs[s].org /\ ownerM[s] = segs[s].org)
Alive(s) == s \in files /\ s \in mem /\ Selected(s) /\ s \in Listed /\ OwnOrg(s)
Gone(s) == s \notin files /\ s \notin mem /\ ~Selected(s) /\ s \notin Listed /\ s \notin pq
Completed == pc = "done"

\* survivors fully searchable, deleted data gone from search, metadata files list exactly the survivors
Consistent == Completed => \A s \in Ids : Alive(s) \/ Gone(s)
\* time pass: everything older than the horizon is deleted, nothing containing a newer event is
TimeExact == (Completed /\ kind = "time") =>
                \A s \in Ids : /\ (segs[s].hi < 0 /\ segs[s].org \in started) => Gone(s)
                               /\ (segs[s].hi > 0 \/ segs[s].org \notin started) => Alive(s)
\* every pass: what is deleted is older than (or as old as) everything that is kept
\* (time pass: among the organisations whose pass has run)
OldestFirst == Completed => \A a, b \in Ids :
                 (Gone(a) /\ ~Gone(b) /\ (kind # "time" \/ segs[b].org \in started)) => segs[a].hi <= segs[b].hi
\* interrupted + repeated / repeated: same outcome as the uninterrupted pass
Idempotent == Completed => {s \in Ids : ~Gone(s)} = ref
\* volume/inode passes never delete when under the limit
NoNeedlessDeletion ==
  (Completed /\ kind = "volume" /\ SumW(Ids) + openw <= limit) => \A s \in Ids : Alive(s)

TypeOK == /\ pc \in {"idle", "l_files", "l_mem", "l_pq", "l_segmeta", "m_mem", "m_files", "m_meta", "done"}
          /\ \A i \in 1..Len(sorted) : sorted[i] \in LogIds
          /\ porg \in Orgs /\ started \subseteq Orgs
          /\ files \subseteq Ids /\ mem \subseteq Ids /\ smeta \subseteq LogIds /\ mmeta \subseteq MetIds
          /\ pq \subseteq LogIds /\ vL \subseteq LogIds /\ vM \subseteq MetIds /\ todo \subseteq Ids
          /\ crashes \in 0..MaxCrash /\ repeats \in 0..MaxRepeat
=============================================================================
