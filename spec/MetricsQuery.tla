----------------------------- MODULE MetricsQuery -----------------------------
(* C09 - metric queries compute PromQL-consistent answers.

   Two halves.

   (1) Query semantics as pure operators over a set of visible datapoints:
         Select(matchers)      label matchers =, !=, =~, !~ (a missing label is the
                               empty string, as in PromQL); the regular expressions are
                               the forms TLA+ can evaluate: literal / alternation / prefix.* /
                               .*suffix / .* / .+ / explicit anchors / escape classes \\d \\w /
                               escaped dot / counted repetition / character class / empty
                               pattern (always fully anchored, RE2 reference semantics)
         Agg(op, by/without)   sum, min, max, avg, count per output group
         BinVec / BinScalar    arithmetic between two instant vectors (default matching on
                               the whole label set, on(..), ignoring(..), group_left) and
                               between a vector and a scalar
       every evaluation timestamp t is evaluated on the samples AT t only (the harness
       puts every sample on the step grid, so lookback/staleness never decides anything).
       Values are integers (TLC has no reals); avg and "/" produce exact rationals
       [num, den].

   (2) The storage layout as a state machine, written like the engine: datapoints go to
       the current block of the open segment and register the series in that segment's
       tags tree; BlockFlush (timeBasedMetricsFlush: rotateBlock), SegRotate
       (timeBasedRotate -> CheckAndRotate, size driven) and Restart (ForceFlushMetricsBlock
       at shutdown + a new process that only knows rotated segments) change where
       datapoints live.  A query is answered physically: per segment the tags tree selects
       series, their datapoints are read from every block of that segment, and the series
       of all segments are merged by series identity (MetricsResult.AddSeries by tsid).
       LayoutInvariance says that this physical answer equals the logical one.

   Series are indices into USeq (a sequence so that "the r-th chosen series" is defined);
   a scenario is a set of indices. *)
EXTENDS Integers, Sequences, FiniteSets, TLC, FiniteSetsExt, SequencesExt

CONSTANTS USeq,       \* universe: sequence of [name |-> STRING, labels |-> [keys -> STRING]]
          Scenarios,  \* set of scenarios (each a set of indices into USeq)
          Grids,      \* subset of {"pow", "tie", "neg"}: how values are laid on the grid
          Orders,     \* subset of {"time", "series"}: ingest order
          NT,         \* grid timestamps 0 .. NT-1
          MaxOps,     \* layout operations per behaviour
          Tails,      \* every string r such that p \o r or r \o p can be a label value
          Queries,    \* the query ASTs the invariants / the generator range over
          RegisterPerSegment  \* TRUE: as the engine does, a series is entered into the tags tree of
                              \* every segment it has datapoints in.  FALSE models the tempting
                              \* "seen this tsid already" shortcut (model sensitivity run only)

VARIABLES chosen, grid, order,  \* the scenario (fixed by Init)
          ingested,             \* datapoints <<i, t>> accepted so far
          segs,                 \* sequence of segments, the last one is open
          nops, life,           \* layout ops so far; process life number
          hist                  \* action history (what the harness replays)
vars == <<chosen, grid, order, ingested, segs, nops, life, hist>>

EmptyFn == [x \in {} |-> ""]
Times == 0 .. (NT - 1)

(* ------------------------------------------------------------------ values *)
Rank(S, i) == Cardinality({j \in S : j <= i})
Pow10(r) == CASE r = 1 -> 1 [] r = 2 -> 10 [] r = 3 -> 100 [] r = 4 -> 1000 [] OTHER -> 10000
Val(g, S, i, t) ==
  LET r == Rank(S, i) IN
  CASE g = "pow" -> Pow10(r) * (t + 1)                \* sums reveal exactly which series are members
    [] g = "tie" -> 5                                 \* all equal: min = max = avg
    [] g = "neg" -> (IF r % 2 = 1 THEN -1 ELSE 1) * (2 * r + t + 1)   \* mixed signs, never 0
    [] OTHER -> r + t + 1

(* exact rationals, den > 0 (den = 0 marks a division by zero; the harness skips it) *)
RInt(n) == [num |-> n, den |-> 1]
RNorm(r) == IF r.den < 0 THEN [num |-> -r.num, den |-> -r.den] ELSE r
RAdd(a, b) == [num |-> a.num * b.den + b.num * a.den, den |-> a.den * b.den]
RSub(a, b) == [num |-> a.num * b.den - b.num * a.den, den |-> a.den * b.den]
RMul(a, b) == [num |-> a.num * b.num, den |-> a.den * b.den]
RDiv(a, b) == RNorm([num |-> a.num * b.den, den |-> a.den * b.num])
REq(a, b) == a.num * b.den = b.num * a.den
RLe(a, b) == a.num * b.den <= b.num * a.den
ROp(op, a, b) == CASE op = "+" -> RAdd(a, b) [] op = "-" -> RSub(a, b)
                   [] op = "*" -> RMul(a, b) [] op = "/" -> RDiv(a, b)

(* ------------------------------------------------------------------ matchers *)
Lookup(s, k) == IF k \in DOMAIN s.labels THEN s.labels[k] ELSE ""

(* pattern = [kind, s, alts]; always anchored on both sides *)
(* further regular-expression forms (reference semantics: RE2, anchored on both sides as PromQL does):
     "anchor"  ^s$ / ^s / s$      explicit anchors inside the (already anchored) pattern: still exactly s; s = "" gives ^$
     "esc"     s\d, s\d\d, \w\w    escape classes: s followed by one character of every listed class (alts = <<"d","w",...>>)
     "escdot"  a\.b                an escaped dot: the literal a.b, and not axb
     "rep"     sc{n} / sc{n,m}     counted repetition of the character c (alts = <<c, n, m>>)
     "class"   s[c1c2]             a character class (alts = the characters)
     "empty"   the empty pattern   matches only the empty value (= label absent) *)
Digits == {"0", "1", "2", "3", "4", "5", "6", "7", "8", "9"}
WordChars == Digits \cup {"a", "b", "e", "h", "n", "p", "q", "s", "w", "x", "y", "_"}
ClassChars(c) == IF c = "d" THEN Digits ELSE WordChars
RECURSIVE EscStrings(_, _)
EscStrings(s, classes) == IF classes = <<>> THEN {s}
                          ELSE UNION {EscStrings(s \o c, Tail(classes)) : c \in ClassChars(Head(classes))}
ToN(str) == CASE str = "0" -> 0 [] str = "1" -> 1 [] str = "2" -> 2 [] str = "3" -> 3
RECURSIVE RepStr(_, _)
RepStr(c, k) == IF k = 0 THEN "" ELSE c \o RepStr(c, k - 1)
PatMatch(p, v) ==
  CASE p.kind = "lit"    -> v = p.s
    [] p.kind = "alt"    -> v \in Range(p.alts)
    [] p.kind = "prefix" -> \E r \in Tails : p.s \o r = v       \* s.*
    [] p.kind = "suffix" -> \E r \in Tails : r \o p.s = v       \* .*s
    [] p.kind = "any"    -> TRUE                                \* .*
    [] p.kind = "some"   -> v # ""                              \* .+
    [] p.kind = "anchor" -> v = p.s
    [] p.kind = "esc"    -> v \in EscStrings(p.s, p.alts)
    [] p.kind = "escdot" -> v = p.alts[1] \o "." \o p.alts[2]
    [] p.kind = "rep"    -> \E k \in ToN(p.alts[2]) .. ToN(p.alts[3]) : v = p.s \o RepStr(p.alts[1], k)
    [] p.kind = "class"  -> \E c \in Range(p.alts) : p.s \o c = v
    [] p.kind = "empty"  -> v = ""
RECURSIVE JoinStr(_, _)
JoinStr(sq, sep) == IF Len(sq) = 0 THEN ""
                    ELSE IF Len(sq) = 1 THEN sq[1]
                    ELSE sq[1] \o sep \o JoinStr(Tail(sq), sep)
\* (a backslash is written twice: the pattern sits in a double-quoted PromQL string)
PatText(p) ==
  CASE p.kind = "lit"    -> p.s
    [] p.kind = "alt"    -> JoinStr(p.alts, "|")
    [] p.kind = "prefix" -> p.s \o ".*"
    [] p.kind = "suffix" -> ".*" \o p.s
    [] p.kind = "any"    -> ".*"
    [] p.kind = "some"   -> ".+"
    [] p.kind = "anchor" -> (IF p.alts[1] \in {"^$", "^"} THEN "^" ELSE "") \o p.s \o (IF p.alts[1] \in {"^$", "$"} THEN "$" ELSE "")
    [] p.kind = "esc"    -> p.s \o JoinStr([k \in DOMAIN p.alts |-> "\\\\" \o p.alts[k]], "")
    [] p.kind = "escdot" -> p.alts[1] \o "\\\\." \o p.alts[2]
    [] p.kind = "rep"    -> p.s \o p.alts[1] \o "{" \o p.alts[2] \o (IF p.alts[2] = p.alts[3] THEN "" ELSE "," \o p.alts[3]) \o "}"
    [] p.kind = "class"  -> p.s \o "[" \o JoinStr(p.alts, "") \o "]"
    [] p.kind = "empty"  -> ""

(* matcher = [key, op, pat]; = and != carry a "lit" pattern *)
MatcherOK(s, m) ==
  LET v == Lookup(s, m.key) IN
  CASE m.op = "="  -> v = m.pat.s
    [] m.op = "!=" -> v # m.pat.s
    [] m.op = "=~" -> PatMatch(m.pat, v)
    [] m.op = "!~" -> ~PatMatch(m.pat, v)
MatcherText(m) == m.key \o m.op \o "\"" \o PatText(m.pat) \o "\""

(* selector = [name, ms]  (ms: sequence of matchers) *)
SelMatches(s, sel) == s.name = sel.name /\ \A k \in DOMAIN sel.ms : MatcherOK(s, sel.ms[k])
Select(S, sel) == {i \in S : SelMatches(USeq[i], sel)}
SelText(sel) == sel.name \o (IF Len(sel.ms) = 0 THEN ""
                             ELSE "{" \o JoinStr([k \in DOMAIN sel.ms |-> MatcherText(sel.ms[k])], ",") \o "}")

(* ------------------------------------------------------------------ instant vectors
   element = [name, labels, val]; D = visible datapoints; everything is evaluated at one t *)
EvalSelOn(S, sel, D, t) ==
  {[name |-> USeq[i].name, labels |-> USeq[i].labels, val |-> RInt(Val(grid, chosen, i, t))] :
     i \in {j \in Select(S, sel) : <<j, t>> \in D}}

(* grouping = [mode \in {"none","by","without"}, keys (sequence)] *)
GroupLabels(g, lab) ==
  CASE g.mode = "none"    -> EmptyFn
    [] g.mode = "by"      -> [k \in (Range(g.keys) \cap DOMAIN lab) |-> lab[k]]
    [] g.mode = "without" -> [k \in (DOMAIN lab \ Range(g.keys)) |-> lab[k]]
GroupText(g) ==
  CASE g.mode = "none"    -> ""
    [] g.mode = "by"      -> " by (" \o JoinStr(g.keys, ",") \o ") "
    [] g.mode = "without" -> " without (" \o JoinStr(g.keys, ",") \o ") "

SumOf(M) == FoldSet(LAMBDA e, acc : acc + e.val.num, 0, M)       \* members carry integers (den = 1)
MinOf(M) == CHOOSE v \in {e.val.num : e \in M} : \A e \in M : v <= e.val.num
MaxOf(M) == CHOOSE v \in {e.val.num : e \in M} : \A e \in M : v >= e.val.num
AggVal(op, M) ==
  CASE op = "sum"   -> RInt(SumOf(M))
    [] op = "count" -> RInt(Cardinality(M))
    [] op = "avg"   -> [num |-> SumOf(M), den |-> Cardinality(M)]
    [] op = "min"   -> RInt(MinOf(M))
    [] op = "max"   -> RInt(MaxOf(M))
Agg(op, g, vec) ==
  {[name |-> "", labels |-> gl, val |-> AggVal(op, {e \in vec : GroupLabels(g, e.labels) = gl})] :
     gl \in {GroupLabels(g, e.labels) : e \in vec}}

(* operand = [aop, g, sel]: a selector (aop = "none") or one aggregation over a selector *)
OperandText(o) == IF o.aop = "none" THEN SelText(o.sel)
                  ELSE o.aop \o GroupText(o.g) \o "(" \o SelText(o.sel) \o ")"

(* vector matching = [mode \in {"default","on","ignoring"}, keys, card \in {"one","left"}] *)
MKey(vm, lab) ==
  CASE vm.mode = "default"  -> lab
    [] vm.mode = "on"       -> [k \in (Range(vm.keys) \cap DOMAIN lab) |-> lab[k]]
    [] vm.mode = "ignoring" -> [k \in (DOMAIN lab \ Range(vm.keys)) |-> lab[k]]
VMText(vm) ==
  (CASE vm.mode = "default"  -> ""
     [] vm.mode = "on"       -> " on (" \o JoinStr(vm.keys, ",") \o ")"
     [] vm.mode = "ignoring" -> " ignoring (" \o JoinStr(vm.keys, ",") \o ")")
  \o (IF vm.card = "left" THEN " group_left" ELSE "")
HasDup(vm, V) == \E e1, e2 \in V : e1 # e2 /\ MKey(vm, e1.labels) = MKey(vm, e2.labels)
(* the matching is well defined iff the "one" side(s) carry each match key once *)
BinDefined(vm, L, R) == ~HasDup(vm, R) /\ (vm.card = "left" \/ ~HasDup(vm, L))
BinVec(op, vm, L, R) ==
  {[name |-> "", labels |-> p[1].labels, mkey |-> MKey(vm, p[1].labels), val |-> ROp(op, p[1].val, p[2].val)] :
     p \in {pp \in L \X R : MKey(vm, pp[1].labels) = MKey(vm, pp[2].labels)}}
BinScalar(op, V, c, cleft) ==
  {[name |-> "", labels |-> e.labels, mkey |-> e.labels,
    val |-> IF cleft THEN ROp(op, RInt(c), e.val) ELSE ROp(op, e.val, RInt(c))] : e \in V}

(* query = [kind \in {"vec","bin","sc"}, l, r (operands), op, vm, c, cleft] *)
QText(q) ==
  CASE q.kind = "vec" -> OperandText(q.l)
    [] q.kind = "bin" -> OperandText(q.l) \o " " \o q.op \o VMText(q.vm) \o " " \o OperandText(q.r)
    [] q.kind = "sc"  -> IF q.cleft THEN ToString(q.c) \o " " \o q.op \o " " \o OperandText(q.l)
                         ELSE OperandText(q.l) \o " " \o q.op \o " " \o ToString(q.c)

(* ------------------------------------------------------------------ the layout state machine *)
AllDP == {<<i, t>> : i \in chosen, t \in Times}
Less(p, q) == IF order = "time" THEN p[2] < q[2] \/ (p[2] = q[2] /\ p[1] < q[1])
              ELSE p[1] < q[1] \/ (p[1] = q[1] /\ p[2] < q[2])
NextDP == CHOOSE p \in AllDP \ ingested : \A q \in AllDP \ ingested : p = q \/ Less(p, q)
EmptySeg == [tags |-> {}, blocks |-> <<{}>>, rotated |-> FALSE]
Open == segs[Len(segs)]
CurBlock(sg) == sg.blocks[Len(sg.blocks)]
SegData(sg) == UNION Range(sg.blocks)

Init == /\ chosen \in Scenarios /\ grid \in Grids /\ order \in Orders
        /\ ingested = {} /\ segs = <<EmptySeg>> /\ nops = 0 /\ life = 1 /\ hist = <<>>

(* one datapoint through the OpenTSDB put handler: encoded into the open block, series
   registered in the open segment's tags tree *)
Ingest ==
  /\ ingested # AllDP
  /\ LET p == NextDP IN
     /\ ingested' = ingested \cup {p}
     /\ segs' = [segs EXCEPT ![Len(segs)] =
                   [tags |-> IF RegisterPerSegment \/ \A k \in DOMAIN segs : p[1] \notin segs[k].tags
                             THEN @.tags \cup {p[1]} ELSE @.tags,
                    blocks |-> [@.blocks EXCEPT ![Len(@.blocks)] = @ \cup {p}],
                    rotated |-> FALSE]]
     /\ hist' = Append(hist, [a |-> "ingest", i |-> Rank(chosen, p[1]), t |-> p[2]])
  /\ UNCHANGED <<chosen, grid, order, nops, life>>

(* timeBasedMetricsFlush: a non-empty block is written out, a new block starts *)
BlockFlush ==
  /\ nops < MaxOps /\ CurBlock(Open) # {}
  /\ segs' = [segs EXCEPT ![Len(segs)].blocks = Append(@, {})]
  /\ nops' = nops + 1 /\ hist' = Append(hist, [a |-> "blockflush", i |-> 0, t |-> 0])
  /\ UNCHANGED <<chosen, grid, order, ingested, life>>

(* timeBasedRotate over the size thresholds: the open segment is closed and becomes a
   rotated segment (query-visible through the metadata refresh loop), a new one opens *)
SegRotate ==
  /\ nops < MaxOps /\ CurBlock(Open) # {}
  /\ segs' = Append([segs EXCEPT ![Len(segs)].rotated = TRUE], EmptySeg)
  /\ nops' = nops + 1 /\ hist' = Append(hist, [a |-> "segrotate", i |-> 0, t |-> 0])
  /\ UNCHANGED <<chosen, grid, order, ingested, life>>

(* shutdown rotation (ForceFlushMetricsBlock, once per process life) + a new process *)
Restart ==
  /\ nops < MaxOps /\ SegData(Open) # {}
  /\ segs' = Append([k \in DOMAIN segs |-> [segs[k] EXCEPT !.rotated = TRUE]], EmptySeg)
  /\ nops' = nops + 1 /\ life' = life + 1
  /\ hist' = Append(hist, [a |-> "restart", i |-> 0, t |-> 0])
  /\ UNCHANGED <<chosen, grid, order, ingested>>

Next == Ingest \/ BlockFlush \/ SegRotate \/ Restart
Spec == Init /\ [][Next]_vars
Done == ingested = AllDP

(* ------------------------------------------------------------------ logical vs physical answers *)
(* logical: the selector over the chosen series, samples = everything ingested *)
LogSel(sel, t) == EvalSelOn(chosen, sel, ingested, t)
(* physical: per segment the tags tree decides the series, the blocks give the samples;
   elements of the same series coming from several segments are one element (merge by tsid) *)
PhysSel(sel, t) == UNION {EvalSelOn(segs[k].tags, sel, SegData(segs[k]), t) : k \in DOMAIN segs}

EvalOperandWith(SelFn(_, _), o, t) ==
  IF o.aop = "none" THEN SelFn(o.sel, t) ELSE Agg(o.aop, o.g, SelFn(o.sel, t))
EvalWith(SelFn(_, _), q, t) ==
  CASE q.kind = "vec" -> EvalOperandWith(SelFn, q.l, t)
    [] q.kind = "bin" -> BinVec(q.op, q.vm, EvalOperandWith(SelFn, q.l, t), EvalOperandWith(SelFn, q.r, t))
    [] q.kind = "sc"  -> BinScalar(q.op, EvalOperandWith(SelFn, q.l, t), q.c, q.cleft)
Eval(q, t) == EvalWith(LogSel, q, t)
EvalPhys(q, t) == EvalWith(PhysSel, q, t)
Defined(q, t) == q.kind # "bin" \/ BinDefined(q.vm, EvalOperandWith(LogSel, q.l, t), EvalOperandWith(LogSel, q.r, t))

(* ------------------------------------------------------------------ invariants *)
TypeOK ==
  /\ chosen \in Scenarios /\ grid \in Grids /\ order \in Orders
  /\ ingested \subseteq AllDP /\ nops \in 0 .. MaxOps /\ life \in 1 .. (MaxOps + 1)
  /\ Len(segs) >= 1 /\ ~Open.rotated
  /\ \A k \in 1 .. (Len(segs) - 1) : segs[k].rotated

(* every accepted datapoint lives in exactly one block of exactly one segment *)
NoLossNoDup ==
  /\ UNION {SegData(segs[k]) : k \in DOMAIN segs} = ingested
  /\ \A k1, k2 \in DOMAIN segs : \A b1 \in DOMAIN segs[k1].blocks, b2 \in DOMAIN segs[k2].blocks :
        (k1 # k2 \/ b1 # b2) => segs[k1].blocks[b1] \cap segs[k2].blocks[b2] = {}
(* a segment's tags tree knows exactly the series that have datapoints in it *)
TagsCover == \A k \in DOMAIN segs : segs[k].tags = {p[1] : p \in SegData(segs[k])}

(* the answer does not depend on how the datapoints are split over blocks and segments.
   Every query is a function of its selectors' instant vectors, so the selector-level
   statement (checked in every state) carries the whole-query one (checked in the states
   where ingest is complete, to keep the exhaustive run affordable). *)
LayoutInvarianceSel == \A o \in {q.l : q \in Queries} \cup {q.r : q \in Queries}, t \in Times : PhysSel(o.sel, t) = LogSel(o.sel, t)
LayoutInvariance == Done => \A q \in Queries, t \in Times : EvalPhys(q, t) = Eval(q, t)

Operands == {q.l : q \in Queries} \cup {q.r : q \in {qq \in Queries : qq.kind = "bin"}}
Selectors == {o.sel : o \in Operands}
Groupings == {o.g : o \in Operands}
AllKeys == UNION {DOMAIN USeq[i].labels : i \in chosen}
AggOf(op, g, sel, t) == Agg(op, g, LogSel(sel, t))
ValAt(V, gl) == (CHOOSE e \in V : e.labels = gl).val

(* The algebraic invariants below are functions of (chosen, grid, ingested) only; every
   ingested prefix is reachable without layout operations, so they are evaluated in the
   states with nops = 0.
   avg = sum / count and min <= avg <= max, per output group and timestamp *)
AvgIsSumOverCount ==
  nops = 0 => \A sel \in Selectors, g \in Groupings, t \in Times :
    \A e \in AggOf("avg", g, sel, t) :
       REq(e.val, RDiv(ValAt(AggOf("sum", g, sel, t), e.labels), ValAt(AggOf("count", g, sel, t), e.labels)))
MinLeAvgLeMax ==
  nops = 0 => \A sel \in Selectors, g \in Groupings, t \in Times :
    \A e \in AggOf("avg", g, sel, t) :
       /\ RLe(ValAt(AggOf("min", g, sel, t), e.labels), e.val)
       /\ RLe(e.val, ValAt(AggOf("max", g, sel, t), e.labels))
(* grouping by all labels is the identity (on label sets and values, for every operator but count) *)
ByAllIsIdentity ==
  nops = 0 => \A sel \in Selectors, t \in Times : \A op \in {"sum", "min", "max", "avg"} :
    LET keys == SetToSeq(AllKeys)
        byAll == AggOf(op, [mode |-> "by", keys |-> keys], sel, t)
    IN /\ {e.labels : e \in byAll} = {e.labels : e \in LogSel(sel, t)}
       /\ \A e \in LogSel(sel, t) : REq(ValAt(byAll, e.labels), e.val)
(* without(L) = by(all labels \ L) *)
WithoutIsByComplement ==
  nops = 0 => \A sel \in Selectors, g \in {gg \in Groupings : gg.mode = "without"}, t \in Times :
    \A op \in {"sum", "min", "max", "avg", "count"} :
      LET rest == SetToSeq(AllKeys \ Range(g.keys))
          viaBy == AggOf(op, [mode |-> "by", keys |-> rest], sel, t)
          viaWo == AggOf(op, g, sel, t)
      IN {[l |-> e.labels, v |-> e.val] : e \in viaBy} = {[l |-> e.labels, v |-> e.val] : e \in viaWo}
(* a selector returns exactly the matching series; negated matchers are the complement *)
Negate(m) == [m EXCEPT !.op = CASE m.op = "=" -> "!=" [] m.op = "!=" -> "=" [] m.op = "=~" -> "!~" [] m.op = "!~" -> "=~"]
SelectExact ==
  nops = 0 => \A sel \in Selectors :
    /\ Select(chosen, sel) = {i \in chosen : USeq[i].name = sel.name /\ \A k \in DOMAIN sel.ms : MatcherOK(USeq[i], sel.ms[k])}
    /\ Len(sel.ms) = 1 =>
         LET neg == [sel EXCEPT !.ms = <<Negate(sel.ms[1])>>]
             all == [sel EXCEPT !.ms = <<>>]
         IN /\ Select(chosen, sel) \cap Select(chosen, neg) = {}
            /\ Select(chosen, sel) \cup Select(chosen, neg) = Select(chosen, all)
(* vector arithmetic pairs exactly the elements with equal match keys; every pair once *)
BinaryMatchesLabelSets ==
  nops = 0 => \A q \in {qq \in Queries : qq.kind = "bin"}, t \in Times :
    LET L == EvalOperandWith(LogSel, q.l, t)
        R == EvalOperandWith(LogSel, q.r, t)
        res == Eval(q, t)
    IN Defined(q, t) =>
         /\ {e.mkey : e \in res} = {MKey(q.vm, e.labels) : e \in L} \cap {MKey(q.vm, e.labels) : e \in R}
         /\ \A e \in res : \E l \in L, r \in R :
               /\ l.labels = e.labels /\ MKey(q.vm, r.labels) = e.mkey /\ e.val = ROp(q.op, l.val, r.val)
         /\ (q.vm.card = "one" => Cardinality(res) = Cardinality({e.mkey : e \in res}))
         /\ (q.vm.card = "left" => {e.labels : e \in res} = {l.labels : l \in {ll \in L : \E r \in R : MKey(q.vm, r.labels) = MKey(q.vm, ll.labels)}})

View == <<chosen, grid, order, ingested, segs, nops, life>>
=============================================================================
