SPECIFICATION Spec
CONSTANTS
  MaxLen = 3
  GuardMode = "ascode"
  CacheBeforeGuard <- NoApis
  NormAfterGuard <- NoApis
  Classes <- AllClasses
CONSTRAINT Emit
CHECK_DEADLOCK FALSE
