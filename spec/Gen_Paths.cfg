SPECIFICATION Spec
CONSTANTS
  MaxLen = 3
  GuardMode = "ascode"
  NormAfterGuard <- NoApis
  Classes <- AllClasses
CONSTRAINT Emit
CHECK_DEADLOCK FALSE
