SPECIFICATION Spec
CONSTANTS
  MaxLen = 3
  GuardMode = "ascode"
  NormAfterGuard <- NoApis
  Classes <- CoreClasses
CONSTRAINT Emit
CHECK_DEADLOCK FALSE
