SPECIFICATION Spec
CONSTANTS
  MaxLen = 3
  Guard = FALSE
CONSTRAINT Emit
CHECK_DEADLOCK FALSE
