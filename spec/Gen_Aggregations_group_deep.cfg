SPECIFICATION Spec
CONSTANTS
  Defect = "none"
  N = 4
  Datasets <- DatasetsGroup4s
  Spans <- SpansNone
  Origins <- OriginsAll
CONSTRAINT Emit
CHECK_DEADLOCK FALSE
