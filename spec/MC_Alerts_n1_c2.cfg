SPECIFICATION Spec
CONSTANTS
  N = 1
  Cool = 2
  SilLen = 2
  MaxEvals = 7
  MaxDt = 2
  MaxEdits = 0
  MaxSil = 0
  MaxFails = 0
  RowsDelta = 0
INVARIANTS StateLaw NotifLaw Bookkeeping TypeOK
CHECK_DEADLOCK FALSE
