SPECIFICATION Spec
CONSTANTS
  LegacyFallback = FALSE
INVARIANTS Law ChecksummedNeverAltered OthersUnaffected Alive RangeCheckedReported TypeOK
CHECK_DEADLOCK FALSE
