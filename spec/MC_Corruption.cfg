SPECIFICATION Spec
CONSTANTS
  LegacyFallback = FALSE
INVARIANTS Law ChecksummedNeverAltered OthersUnaffected Alive TypeOK
CHECK_DEADLOCK FALSE
