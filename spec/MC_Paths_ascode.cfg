SPECIFICATION Spec
CONSTANTS
  MaxLen = 3
  Guard = FALSE
INVARIANTS Confined
CHECK_DEADLOCK FALSE
