SPECIFICATION Spec
CONSTANTS
  MaxLen = 3
  GuardMode = "ascode"
  CacheBeforeGuard <- NoApis
  NormAfterGuard <- NoApis
  Classes <- CoreClasses
INVARIANTS Confined
CHECK_DEADLOCK FALSE
