SPECIFICATION Spec
CONSTANTS
  USeq <- UH
  Scenarios <- ScenHSmall2
  Grids = {"pow", "neg"}
  Orders = {"time", "series"}
  NT = 2
  MaxOps = 2
  Tails <- TailsH
  Queries <- QueriesMC
  RegisterPerSegment = FALSE
INVARIANTS LayoutInvarianceSel
CHECK_DEADLOCK FALSE
VIEW View
