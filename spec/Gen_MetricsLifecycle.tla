------------------------ MODULE Gen_MetricsLifecycle ------------------------
(* History generator for MetricsLifecycle (C08 e2e): random walks (tlc -simulate) through Put / BlockFlush / SegRotate /
   Restart / TagsFlush with "check" steps in between.  A check step carries, for every selector and every prefix / suffix / full
   window, the answer the specification requires at that moment (MetricsLifecycle!Answer); checks/c08.py performs the
   steps on the real engine and compares every answer bit-exactly. *)
EXTENDS MetricsLifecycle
SeriesC == {"s1", "s2", "s3", "s4"}
GroupsC == {{"s1", "s2", "s3"}, {"s4"}}
Windows == {<<0, MaxT + 1>>} \cup {<<c, MaxT + 1>> : c \in 1..MaxT} \cup {<<0, c>> : c \in 1..MaxT}
LastOp == IF hist = <<>> THEN "" ELSE hist[Len(hist)].op
NSegRot == Cardinality({i \in 1..Len(hist) : hist[i].op = "segrotate"})
Check == /\ acc # {} /\ LastOp # "check"
         /\ Step([op |-> "check",
                  answers |-> {[sel |-> S, a |-> w[1], b |-> w[2], expect |-> Answer(S, w[1], w[2])] : S \in Selectors, w \in Windows}])
         /\ UNCHANGED <<open, blocks, rotated, acc, last, nputs, nrestarts, tmem, tdisk, hrot, firstseg>>
GenNext == \/ \E s \in Series, t \in 1..MaxT : Put(s, t)
           \/ BlockFlush
           \/ (NSegRot = 0 /\ SegRotate)          \* the replay waits for the 5 s metadata refresh after a segment rotation
           \/ Restart
           \/ TagsFlush
           \/ Check
GenSpec == Init /\ [][GenNext]_vars
Lifecycle == {i \in 1..Len(hist) : hist[i].op \in {"blockflush", "segrotate", "restart"}}
Emit == IF nops = MaxOps /\ Lifecycle # {} /\ LastOp = "check"
        THEN Serialize(ToJson([steps |-> hist]) \o "\n", "behaviours.ndjson",
                 [format |-> "TXT", charset |-> "UTF-8", openOptions |-> <<"WRITE", "CREATE", "APPEND">>]).exitValue = 0
        ELSE TRUE
=============================================================================
