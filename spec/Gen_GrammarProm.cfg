SPECIFICATION Spec
CONSTANTS
  Fns = {"rate", "increase", "irate", "delta", "deriv", "avg_over_time", "count_over_time", "last_over_time", "changes", "quantile_over_time"}
  Sels = {"[5m]", "[1s]", "[5m:1m]", "[5m:1s]", "[5m:500ms]", "[5m:]", "[1h:7m]"}
  Ranges = {"instant", "second", "hour", "day"}
  Outers = {"", "sum", "sum by (a)"}
CONSTRAINT Emit
CHECK_DEADLOCK FALSE
