-------------------------- MODULE SortOrderConsts --------------------------
(* value domains for SortOrder.  Numbers are in units of 1e-5.  Strings, in byte order (ord 1..10):
     "1-2" < "1.2.3" < "10" < "10.0.0.7" < "10.0.0.9" < "2024-01-17" < "9" < "A" < "a" < "b"
   "10" and "9" convert to floats (NumStr); "1-2", "1.2.3", "10.0.0.7", "10.0.0.9", "2024-01-17" only LOOK numeric
   (NumLike); "A", "a", "b" are words.  The harness concretises Num(v,_) -> v * 1e-5 (an integer when v is a multiple
   of 100000) and every string by its ord (STR_OF_ORD in checks/c05.py). *)
EXTENDS SortOrder
N0 == Num(0, 0)
N3 == Num(3, 0)          \* 0.00003
N6 == Num(6, 0)          \* 0.00006
N12 == Num(12, 0)        \* 0.00012 : N0 ~ N6 ~ N12 under tolerance 10 but N0 < N12
Nneg == Num(-100000, 0)  \* -1
N9 == Num(900000, 7)     \* 9  renders "9"
N10 == Num(1000000, 3)   \* 10 renders "10"
L12 == NumLike(1)        \* "1-2"
LVer == NumLike(2)       \* "1.2.3"
S10 == NumStr(3, 1000000)
LIp7 == NumLike(4)       \* "10.0.0.7"
LIp9 == NumLike(5)       \* "10.0.0.9"
LDate == NumLike(6)      \* "2024-01-17"
S9 == NumStr(7, 900000)
SA == Str(8)
Sa == Str(9)
Sb == Str(10)
ValsAuto == {N0, N3, N6, N12, Nneg, N9, N10, S10, S9, SA, Sa, Sb, Null, L12, LIp7, LIp9, LDate}
ValsAuto4 == {N0, N6, N12, Nneg, N10, S10, S9, Sa, Null, L12, LIp7, LDate}   \* for tables of four rows (thorough tier)
ValsSmall == {N0, N6, S9, LIp7, LDate, Null}
ValsStr == {N9, N10, S10, S9, SA, Sa, Sb, Null, LVer, LIp7}
OpsAuto == {"auto", "num"}
OpsStr == {"str"}
OpsAll == {"auto", "num", "str"}
=============================================================================
