-------------------------- MODULE SortOrderConsts --------------------------
(* value domains for SortOrder.  Numbers are in units of 1e-5.  String order
   (byte order): "10" < "9" < "A" < "a" < "b"  -> ord 1..5.
   The harness concretises: Num(v,_) -> v * 1e-5 (an integer when v is a multiple of 100000),
   Str(3) -> "A", Str(4) -> "a", Str(5) -> "b", NumStr(1, 1000000) -> "10", NumStr(2, 900000) -> "9". *)
EXTENDS SortOrder
N0 == Num(0, 0)
N3 == Num(3, 0)          \* 0.00003
N6 == Num(6, 0)          \* 0.00006
N12 == Num(12, 0)        \* 0.00012 : N0 ~ N6 ~ N12 under tolerance 10 but N0 < N12
Nneg == Num(-100000, 0)  \* -1
N9 == Num(900000, 2)     \* 9  renders "9"
N10 == Num(1000000, 1)   \* 10 renders "10"
S10 == NumStr(1, 1000000)
S9 == NumStr(2, 900000)
SA == Str(3)
Sa == Str(4)
Sb == Str(5)
ValsAuto == {N0, N3, N6, N12, Nneg, N9, N10, S10, S9, SA, Sa, Sb, Null}
ValsSmall == {N0, N6, N12, S9, Sa, Null}
ValsStr == {N9, N10, S10, S9, SA, Sa, Sb, Null}
OpsAuto == {"auto", "num"}
OpsStr == {"str"}
OpsAll == {"auto", "num", "str"}
=============================================================================
