SPECIFICATION Spec
CONSTANTS
  LegacyFallback = TRUE
CONSTRAINT Emit
CHECK_DEADLOCK FALSE
