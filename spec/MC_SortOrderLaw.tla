-------------------------- MODULE MC_SortOrderLaw --------------------------
(* the order laws are constant-level: checked once, as an assumption *)
EXTENDS SortOrderConsts
ASSUME OrderLaws == StrictWeakOrder /\ RankOrder /\ StringOrder
=============================================================================
