SPECIFICATION Spec
CONSTANTS
  Defect = "none"
  N = 4
  Datasets <- DatasetsBucket4s
  Spans <- SpansAll
  Origins <- OriginsAll
CONSTRAINT Emit
CHECK_DEADLOCK FALSE
