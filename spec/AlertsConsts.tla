---------------------------- MODULE AlertsConsts ----------------------------
(* negative numbers cannot be written in a .cfg *)
EXTENDS Integers
MinusOne == -1
PlusOne == 1
=============================================================================
