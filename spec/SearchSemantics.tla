--------------------------- MODULE SearchSemantics ---------------------------
(* Reference semantics of siglens search filters (property C02).

   The statement fixes "the engine's comparison rules" only as far as
     (R1) text match is case-insensitive (whole value for  col=pattern , word/phrase
          delimited by breakers for free text; '*' is the only wildcard),
     (R2) numeric comparison is by VALUE, independent of how the stored number
          (1, 1.0, "1") or the literal (1, 1.0) was written,
     (R3) a comparison in the search clause and the same comparison in a later
          `where` stage agree on numeric fields,
     (R4) AND / OR / NOT are intersection / union / complement (within the time range),
     (R5) the time range is inclusive at both ends (CheckInRange).
   Everything else (bool columns, '<' between text and a number, '!=' on an event
   that lacks the field, a quoted "1" against a number, ...) is left open: the
   oracle is a SET of admissible outcomes (Cell, LeafAdm, TopAdm), {TRUE,FALSE} where open.

   The module is written like the code: Cell is the case analysis of
   writer.filterOpOnDataType (literal type first, then stored TLV type); TermRe is the
   regular expression built by dtypeutils.SPLToRegex(isTerm = TRUE) restricted to the
   breaker ' '; Overlap / InRange are dtypeutils.CheckRangeOverLap / CheckInRange.

   ---- Values part ----------------------------------------------------------
   A stored value is  [k, n, c]:
       k \in {"int","flt","numstr","text","bool","absent"}
       n : numeric value scaled by 2 (halves), meaningful for int/flt/numstr (bool: 0/1)
       c : the characters for numstr/text (sequence of 1-character strings)
   A literal is  [lk, n, c]:
       lk \in {"int","dec"}  numeric literal  (c = its spelling)
       lk = "qnum"           quoted numeric string  "1"
       lk = "str"            word / quoted phrase / wildcard pattern over the alphabet
   Text is a sequence over {a, b, A, B, ' '} (plus digits . - for numeric strings),
   patterns additionally use '*'.  Nothing here is precomputed: wildcard, term, phrase
   and sub-word matching are evaluated by TLC on the character sequences. *)
EXTENDS Integers, Sequences, FiniteSets, TLC

(* Defect = "none" is the reference.  "int-vs-decimal" is the behaviour observed on the pinned
   engine (metautils.checkRangeIndexHelper parses the literal with ConvertToInt when the block's
   range index is integral, fails on "1.5" and prunes the block): a decimal literal never matches
   an integer column.  Used only to show that the laws below are sensitive to it. *)
CONSTANT Defect

Lower(ch) == CASE ch = "A" -> "a" [] ch = "B" -> "b" [] OTHER -> ch
LowerSeq(s) == [i \in DOMAIN s |-> Lower(s[i])]
HasStar(p) == \E i \in DOMAIN p : p[i] = "*"
OnlyStars(p) == p # <<>> /\ \A i \in DOMAIN p : p[i] = "*"

(* wildcard match of a whole value (ReplaceWildcardStarWithRegex: anchored, each star is any run of characters) *)
RECURSIVE WM(_, _)
WM(p, s) == IF p = <<>> THEN s = <<>>
            ELSE IF Head(p) = "*" THEN WM(Tail(p), s) \/ (s # <<>> /\ WM(p, Tail(s)))
            ELSE s # <<>> /\ Head(p) = Head(s) /\ WM(Tail(p), Tail(s))

(* free-text term / phrase (SPLToRegex with isTerm): the pattern must be delimited on both sides
   by the start/end of the value or by a breaker; the only breaker of the model alphabet is the space *)
TermRe(p, s) == \E i \in 0..Len(s) : \E j \in i..Len(s) :
                   /\ (i = 0 \/ s[i] = " ")
                   /\ (j = Len(s) \/ s[j + 1] = " ")
                   /\ WM(p, SubSeq(s, i + 1, j))

(* independent, token based definition (used only to cross-check TermRe on star-free patterns) *)
RECURSIVE Tokens(_)
Tokens(s) == IF \A i \in DOMAIN s : s[i] # " " THEN <<s>>
             ELSE LET k == CHOOSE i \in DOMAIN s : s[i] = " " /\ \A j \in 1..(i - 1) : s[j] # " "
                  IN <<SubSeq(s, 1, k - 1)>> \o Tokens(SubSeq(s, k + 1, Len(s)))
TermTok(p, s) == LET tp == Tokens(p) ts == Tokens(s)
                 IN \E o \in 0..(Len(ts) - Len(tp)) : \A i \in 1..Len(tp) : ts[o + i] = tp[i]

CmpNum(a, op, b) == CASE op = "="  -> a = b  [] op = "!=" -> a # b
                      [] op = "<"  -> a < b  [] op = "<=" -> a <= b
                      [] op = ">"  -> a > b  [] op = ">=" -> a >= b
Ops == {"=", "!=", "<", "<=", ">", ">="}
EqOps == {"=", "!="}
NumKinds == {"int", "flt", "numstr"}      \* stored values that ARE numbers (R2)
NumFieldKinds == {"int", "flt"}           \* "numeric fields" of R3
NumLits == {"int", "dec"}

TextEq(v, l) == WM(LowerSeq(l.c), LowerSeq(v.c))

(* ---- one comparison leaf  col op literal  on one stored value: admissible outcomes ---- *)
Cell(v, op, l) ==
  IF v.k = "absent" THEN (IF op = "!=" THEN BOOLEAN ELSE {FALSE})   \* a missing field satisfies no positive comparison
  ELSE IF v.k = "bool" THEN BOOLEAN                                 \* statement silent on bool columns
  ELSE IF l.lk \in NumLits THEN
       IF Defect = "int-vs-decimal" /\ v.k = "int" /\ l.lk = "dec" THEN {FALSE}
       ELSE IF v.k \in NumKinds THEN {CmpNum(v.n, op, l.n)}         \* R2: by value
       ELSE (* text vs number *) IF op = "=" THEN {FALSE} ELSE IF op = "!=" THEN {TRUE} ELSE BOOLEAN
  ELSE IF op \notin EqOps THEN BOOLEAN                              \* ordering against a string literal: open
  ELSE IF v.k = "text" THEN {(op = "=") <=> TextEq(v, l)}           \* R1
  ELSE IF v.k = "numstr" THEN
       IF TextEq(v, l) THEN {op = "="}                              \* same characters
       ELSE IF l.lk = "qnum" /\ l.n = v.n THEN BOOLEAN              \* "1" against '1.0': open
       ELSE {op # "="}
  ELSE (* int / flt against a string literal *)
       IF OnlyStars(l.c) THEN BOOLEAN
       ELSE IF l.lk = "qnum" /\ l.n = v.n THEN BOOLEAN              \* "1" against 1: open (but see R3 at the binding)
       ELSE IF op = "=" THEN {FALSE} ELSE BOOLEAN                   \* != with a string literal on a number: open

(* the same comparison in a `where` stage, defined for numeric fields and numeric literals only *)
WhereCell(v, op, l) == {CmpNum(v.n, op, l.n)}

(* free text on one stored value *)
TermCell(v, l) ==
  IF v.k = "absent" THEN {FALSE}
  ELSE IF v.k \in {"text", "numstr"} THEN
       IF ~HasStar(l.c) THEN {TermRe(LowerSeq(l.c), LowerSeq(v.c))}       \* R1: word / phrase between breakers
       ELSE IF WM(LowerSeq(l.c), LowerSeq(v.c)) THEN {TRUE}                 \* wildcard: the whole value matches
       ELSE IF TermRe(LowerSeq(l.c), LowerSeq(v.c)) THEN BOOLEAN            \* only a word of it matches: open
       ELSE {FALSE}
  ELSE IF v.k = "bool" THEN (IF HasStar(l.c) THEN BOOLEAN ELSE {FALSE})   \* patterns are over {a,b}: never the word true/false
  ELSE IF OnlyStars(l.c) THEN BOOLEAN ELSE {FALSE}                          \* letters never match a number

(* ---- events, leaves, expressions ----
   event  [id, ts, f]  with f : Cols -> stored value
   leaf   [t |-> "cmp", col, op, lit]  or  [t |-> "term", col |-> "*", op |-> "=", lit]
   expression of depth <= 2 in a fixed shape (no recursion, uniform JSON):
       sub  [o \in {"id","not","and","or"}, a, b]      a, b leaf indices (b = a when unused)
       top  [o \in {"id","not","and","or"}, L, R]      L, R subs       (R = L when unused)     *)
LeafAdm(lf, ev, Cols) ==
  IF lf.t = "cmp" THEN Cell(ev.f[lf.col], lf.op, lf.lit)
  ELSE LET sure == {c \in Cols : TermCell(ev.f[c], lf.lit) = {TRUE}}
           may  == {c \in Cols : TRUE \in TermCell(ev.f[c], lf.lit)}
       IN IF sure # {} THEN {TRUE} ELSE IF may = {} THEN {FALSE} ELSE BOOLEAN

NotS(A) == {~x : x \in A}
AndS(A, B) == {x /\ y : x \in A, y \in B}
OrS(A, B) == {x \/ y : x \in A, y \in B}
Comb(o, A, B) == CASE o = "id" -> A [] o = "not" -> NotS(A) [] o = "and" -> AndS(A, B) [] o = "or" -> OrS(A, B)

SubAdm(s, leaves, ev, Cols) == Comb(s.o, LeafAdm(leaves[s.a], ev, Cols), LeafAdm(leaves[s.b], ev, Cols))
TopAdm(e, leaves, ev, Cols) == Comb(e.o, SubAdm(e.L, leaves, ev, Cols), SubAdm(e.R, leaves, ev, Cols))

(* R5: time range, and the block level overlap test used for pruning *)
InRange(ts, lo, hi) == lo <= ts /\ ts <= hi
Overlap(bl, bh, lo, hi) == \/ (bl >= lo /\ bl <= hi) \/ (bh >= lo /\ bh <= hi) \/ (bl <= lo /\ bh >= hi)

(* result sets: ids that MUST be returned / MAY be returned *)
Must(e, leaves, D, lo, hi, Cols) == {ev.id : ev \in {x \in D : InRange(x.ts, lo, hi) /\ TopAdm(e, leaves, x, Cols) = {TRUE}}}
May(e, leaves, D, lo, hi, Cols)  == {ev.id : ev \in {x \in D : InRange(x.ts, lo, hi) /\ TRUE \in TopAdm(e, leaves, x, Cols)}}
Universe(D, lo, hi) == {ev.id : ev \in {x \in D : InRange(x.ts, lo, hi)}}

Subs(n) == {[o |-> "id", a |-> i, b |-> i] : i \in 1..n} \cup {[o |-> "not", a |-> i, b |-> i] : i \in 1..n}
           \cup {[o |-> oo, a |-> i, b |-> j] : oo \in {"and", "or"}, i \in 1..n, j \in 1..n}
Tops(n) == {[o |-> "id", L |-> s, R |-> s] : s \in Subs(n)} \cup {[o |-> "not", L |-> s, R |-> s] : s \in Subs(n)}
           \cup {[o |-> oo, L |-> s, R |-> t] : oo \in {"and", "or"}, s \in Subs(n), t \in Subs(n)}
LeafTop(i) == [o |-> "id", L |-> [o |-> "id", a |-> i, b |-> i], R |-> [o |-> "id", a |-> i, b |-> i]]

-----------------------------------------------------------------------------
(* ================= laws checked by TLC (one state per case) ================= *)

(* -- on one (stored value, operator, literal) cell; SV / LV = all stored values / literals of the model -- *)
Determined(v, l) == v.k \in NumKinds /\ l.lk \in NumLits
LawDetermined(v, op, l) == Determined(v, l) => Cardinality(Cell(v, op, l)) = 1
LawSpelling(v, op, l, SV, LV) ==          \* R2: 1 vs 1.0 vs "1" stored; 1 vs 1.0 as literal
  Determined(v, l) => \A v2 \in SV, l2 \in LV :
      (Determined(v2, l2) /\ v2.n = v.n /\ l2.n = l.n) => Cell(v2, op, l2) = Cell(v, op, l)
LawTrichotomy(v, l) == Determined(v, l) =>
  LET T(o) == Cell(v, o, l) = {TRUE}
  IN /\ Cardinality({o \in {"<", "=", ">"} : T(o)}) = 1
     /\ (T("<=") <=> (T("<") \/ T("=")))
     /\ (T(">=") <=> (T(">") \/ T("=")))
     /\ (T("!=") <=> ~T("="))
LawNeq(v, l) == (Cardinality(Cell(v, "=", l)) = 1 /\ Cardinality(Cell(v, "!=", l)) = 1)
                   => Cell(v, "!=", l) = NotS(Cell(v, "=", l))
LawCase(v, op, l, SV, LV) ==               \* R1
  (v.k = "text" /\ l.lk = "str" /\ op \in EqOps) => \A v2 \in SV, l2 \in LV :
      (v2.k = "text" /\ l2.lk = "str" /\ LowerSeq(v2.c) = LowerSeq(v.c) /\ LowerSeq(l2.c) = LowerSeq(l.c))
          => Cell(v2, op, l2) = Cell(v, op, l)
LawWhere(v, op, l) == (v.k \in NumFieldKinds /\ l.lk \in NumLits) => Cell(v, op, l) = WhereCell(v, op, l)   \* R3
LawAbsent(v, op, l) == (v.k = "absent" /\ op # "!=") => Cell(v, op, l) = {FALSE}
LawNonEmpty(v, op, l) == Cell(v, op, l) # {}

(* -- on one (pattern, text) pair -- *)
LawWildLiteral(p, s) == ~HasStar(p) => (WM(p, s) <=> p = s)
LawWildStar(p, s) == WM(<<"*">>, s) /\ (WM(p \o <<"*">>, s) <=> \E k \in 0..Len(s) : WM(p, SubSeq(s, 1, k)))
                                     /\ (WM(<<"*">> \o p, s) <=> \E k \in 0..Len(s) : WM(p, SubSeq(s, k + 1, Len(s))))
WellFormedTerm(p) == p # <<>> /\ ~HasStar(p) /\ p[1] # " " /\ p[Len(p)] # " "
LawTermDefs(p, s) == WellFormedTerm(p) => (TermRe(p, s) <=> TermTok(p, s))
LawTermVsValue(p, s) == (WM(p, s) => TermRe(p, s)) /\ (TermRe(p, s) => WM(<<"*">> \o p \o <<"*">>, s))
LawTermCase(p, s) == TermRe(LowerSeq(p), LowerSeq(s)) <=> TermRe(LowerSeq(LowerSeq(p)), LowerSeq(LowerSeq(s)))

(* -- on one expression over a leaf tuple and the dataset -- *)
AllDet(e, leaves, D, Cols) == \A ev \in D : Cardinality(TopAdm(e, leaves, ev, Cols)) = 1
SubTop(s) == [o |-> "id", L |-> s, R |-> s]
LawMustMay(e, leaves, D, lo, hi, Cols) == Must(e, leaves, D, lo, hi, Cols) \subseteq May(e, leaves, D, lo, hi, Cols)
                                          /\ May(e, leaves, D, lo, hi, Cols) \subseteq Universe(D, lo, hi)
LawAlgebra(e, leaves, D, lo, hi, Cols) ==   \* R4, in the three valued lifting
  LET M(x) == Must(x, leaves, D, lo, hi, Cols)  Y(x) == May(x, leaves, D, lo, hi, Cols)
      l == SubTop(e.L)  r == SubTop(e.R)  U == Universe(D, lo, hi)
  IN CASE e.o = "and" -> M(l) \cap M(r) \subseteq M(e) /\ Y(e) \subseteq Y(l) \cap Y(r)
                         /\ ((AllDet(l, leaves, D, Cols) /\ AllDet(r, leaves, D, Cols)) => M(e) = M(l) \cap M(r) /\ Y(e) = M(e))
       [] e.o = "or"  -> M(l) \cup M(r) \subseteq M(e) /\ Y(e) \subseteq Y(l) \cup Y(r)
                         /\ ((AllDet(l, leaves, D, Cols) /\ AllDet(r, leaves, D, Cols)) => M(e) = M(l) \cup M(r) /\ Y(e) = M(e))
       [] e.o = "not" -> M(e) = U \ Y(l) /\ Y(e) = U \ M(l)
       [] e.o = "id"  -> M(e) = M(l) /\ Y(e) = Y(l)
LawDeMorgan(e, leaves, D, lo, hi, Cols) ==
  (e.o = "not" /\ e.L.o \in {"and", "or"}) =>
     LET dual == IF e.L.o = "and" THEN "or" ELSE "and"
         d == [o |-> dual, L |-> [o |-> "not", a |-> e.L.a, b |-> e.L.a], R |-> [o |-> "not", a |-> e.L.b, b |-> e.L.b]]
     IN Must(e, leaves, D, lo, hi, Cols) = Must(d, leaves, D, lo, hi, Cols)
        /\ May(e, leaves, D, lo, hi, Cols) = May(d, leaves, D, lo, hi, Cols)

(* -- time range -- *)
LawRangeInclusive(lo, hi) == lo <= hi => /\ InRange(lo, lo, hi) /\ InRange(hi, lo, hi)
                                         /\ ~InRange(lo - 1, lo, hi) /\ ~InRange(hi + 1, lo, hi)
LawPruneSound(bl, bh, lo, hi) == (bl <= bh) => \A ts \in bl..bh : InRange(ts, lo, hi) => Overlap(bl, bh, lo, hi)
=============================================================================
