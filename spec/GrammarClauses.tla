--------------------------- MODULE GrammarClauses ---------------------------
(* Second generative grammar for the C17 parser half: well-formed Splunk-QL pipelines built from clauses whose
   arguments are column LISTS.  A query is  <search> | <clause> [| <clause>]  where a clause is a command applied to a
   list of 1..MaxCols columns drawn WITH repetition from Cols (repeated and permuted column lists are where plan
   construction that goes through maps or sets loses determinism), optionally with a by-list.
   TLC enumerates every such query; each state is exported as JSON [search, clauses: <<[cmd, cols, by]>>]. *)
EXTENDS Naturals, Sequences, FiniteSets, Json, IOUtils
CONSTANTS Cols, MaxCols, MaxClauses, Searches, CmdsWithCols, CmdsWithBy
ColLists == UNION {[1..n -> Cols] : n \in 1..MaxCols}
Clauses == {[cmd |-> c, cols |-> l, by |-> <<>>] : c \in CmdsWithCols, l \in ColLists}
           \cup {[cmd |-> c, cols |-> <<>>, by |-> l] : c \in CmdsWithBy, l \in ColLists}
VARIABLES search, clauses
Init == search \in Searches /\ clauses = <<>>
Next == /\ Len(clauses) < MaxClauses
        /\ \E c \in Clauses : clauses' = Append(clauses, c)
        /\ UNCHANGED search
Spec == Init /\ [][Next]_<<search, clauses>>
Bound == Len(clauses) <= MaxClauses
Emit == IF Len(clauses) >= 1
        THEN Serialize(ToJson([search |-> search, clauses |-> clauses]) \o "\n", "behaviours.ndjson",
                 [format |-> "TXT", charset |-> "UTF-8", openOptions |-> <<"WRITE", "CREATE", "APPEND">>]).exitValue = 0
        ELSE TRUE
=============================================================================
