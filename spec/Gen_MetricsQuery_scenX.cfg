SPECIFICATION ScenSpec
CONSTANTS
  USeq <- UX
  Scenarios <- ScenX
  Grids = {"pow"}
  Orders = {"time"}
  NT = 3
  MaxOps = 0
  Tails <- TailsX
  Queries <- QueriesX
  RegisterPerSegment = TRUE
CONSTRAINT EmitScenario
CHECK_DEADLOCK FALSE
