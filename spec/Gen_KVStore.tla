----------------------------- MODULE Gen_KVStore -----------------------------
(* Behaviour generator for KVStore: the operation sequence with, per step, the
   outcome of the policy branch (ok), the admissible outcomes by the statement
   (adm: [ok, after]) and the whole abstract store afterwards (law).  Complete
   behaviours (MaxOps mutating operations, restarts anywhere) are written as JSON
   lines; sigdrv replays them on the real stores. *)
EXTENDS KVStore, KVStoreConsts, Json, IOUtils
VARIABLE trail
GenInit == Init /\ trail = <<>>
GenNext == NextPol /\ trail' = Append(trail, [step |-> last', law |-> law'])
GenSpec == GenInit /\ [][GenNext]_<<vars, trail>>
Emit == IF nOps = MaxOps /\ trail # <<>>
        THEN Serialize(ToJson([steps |-> trail]) \o "\n", "behaviours.ndjson",
                 [format |-> "TXT", charset |-> "UTF-8", openOptions |-> <<"WRITE", "CREATE", "APPEND">>]).exitValue = 0
        ELSE TRUE
=============================================================================
