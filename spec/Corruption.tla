---------------------------- MODULE Corruption ----------------------------
(* C18 - damaged segment files are detected, never served as data.

   A segment is a set of files; every file kind has a fixed sequence of region
   classes (the REGION MAP below).  One fault (Flip = single-byte modification,
   Trunc = truncation) is injected into one region of one file of the victim
   segment, then a query reads the victim segment and another, undamaged one.

   Checksummed files (.csg column files, the only users of utils.ChecksumFile) are
   modelled with two chunks, c0 (the chunk at file offset 0) and cN (any later
   chunk), and ReadChunk is a transcription of the case analysis of
   pkg/utils/checksumfile.go readChunkAt:

     magic := u32 at chunk offset          EOF             -> error
     magic # MAGIC:  u32 at FILE offset 0  EOF             -> error
                                           = MAGIC         -> error "not the start of a chunk"
                                           otherwise       -> LEGACY: raw Fd.ReadAt, NO verification
     crc, len := u32, u32                  EOF             -> error
     len > len(buf)                                        -> error "buffer length mismatch"
     n := ReadAt(buf[:min(len, len(buf))])  (EOF tolerated)
     crc32(buf[:n]) # crc                                  -> error "checksum mismatch"

   A verified chunk gives Original; an error gives SegmentError (the block / column
   is omitted); an UNVERIFIED read hands arbitrary bytes to the block decoder, whose
   result can be anything: SegmentError or Altered.  Files without checksums are
   always unverified.  Assumption A-crc: a single-byte change of the payload, or a
   shorter payload, never has the same CRC32 as the original (exact for a single
   byte: CRC32 detects every burst <= 32 bits; 2^-32 for truncation).

   LegacyFallback = TRUE is the code as it is (the fallback exists for files written
   before checksums were introduced); FALSE is the repaired reader (docs/patches). *)
EXTENDS Integers, Sequences, FiniteSets, TLC

CONSTANTS LegacyFallback    \* BOOLEAN

ChunkRegions == {"magic", "crc", "len", "enc", "data"}
(* ---- REGION MAP: file kind -> region classes (bound to byte ranges of the real files by checks/c18.py) *)
RegionsOf(kind) ==
  CASE kind = "csg"     -> {<<c, r>> : c \in {"c0", "cN"}, r \in ChunkRegions}   \* column blocks incl. the timestamp column
    [] kind = "bsu"     -> {<<"rec", r>> : r \in {"len", "blknum", "hights", "lowts", "reccount", "numcols", "cnamelen", "cname", "coloff", "collen"}}
    [] kind = "pqmr"    -> {<<"blk", r>> : r \in {"blknum", "size", "bitlen", "words"}}
    [] kind = "srt"     -> {<<"f", r>> : r \in {"version", "count", "offsets", "lines"}}
    [] kind = "sfm"     -> {<<"f", "json">>}
    [] kind = "segmeta" -> {<<"line", "json">>}
    [] kind = "mmeta"   -> {<<"line", "json">>}
    \* metrics series offsets: version(1) count(8) then per series: tsid(8) offset-into-tsg(4); lo/hi = the two low / the
    \* remaining high-order bytes of a little-endian field
    [] kind = "tso"     -> {<<"f", r>> : r \in {"version", "count.lo", "count.hi"}} \cup {<<"rec", r>> : r \in {"tsid", "off.lo", "off.hi"}}
    \* metrics series data: version(1) then per series: tsid(8) length(4) compressed payload(length)
    [] kind = "tsg"     -> {<<"f", "version">>} \cup {<<"ser", r>> : r \in {"tsid", "len.lo", "len.hi", "payload"}}
    \* segment statistics: version(1) then per column: name length(2) name, record length(4), record = version(1) isNumeric(1)
    \* count(8) hll size(4) hll, then numeric: (type tag(1) value(8)) x min, max, sum + numeric count(8) | else string statistics
    [] kind = "sst"     -> {<<"f", "version">>} \cup {<<"col", r>> : r \in {"cnamelen", "cname", "sstlen", "rver", "isnum", "count", "hllsize",
                                                                         "hll", "dtype", "num", "strstats"}}
    [] OTHER            -> {<<"f", r>> : r \in {"b0", "head", "body", "tail"}}    \* cmi crup tth mnm mbsu
LogKinds == {"csg", "cmi", "bsu", "sst", "sfm", "pqmr", "srt", "crup", "segmeta"}
MetricKinds == {"tso", "tsg", "tth", "mnm", "mbsu", "mmeta"}
Kinds == LogKinds \cup MetricKinds
Checksummed(kind) == kind = "csg"
(* RANGE-CHECKABLE fields of un-checksummed files: an offset / length whose HIGH-order bytes are changed points far
   outside the file (the files of one segment are a few KB; the readers' pooled buffers have a capacity of at least 1 KB, so a
   change of the low-order bytes can still land inside the buffer).  Such damage cannot be told from data by a checksum the
   file does not have, but it IS detectable by comparing the value with the size of the file - the outcome law demands the
   error, not a series that silently disappears. *)
RangeChecked(kind, chunk, region) == /\ kind \in {"tso", "tsg"}
                                     /\ <<chunk, region>> \in {<<"rec", "off.hi">>, <<"ser", "len.hi">>}
(* (the 8-byte series count of the .tso is not in this set: the reader uses only its low 32 bits, the upper half is dead data) *)
SharedIndex(kind) == kind \in {"segmeta", "mmeta"}     \* one line per segment in a file shared by all segments

FaultKinds == {"flip", "trunc"}
TruncClasses == {"start", "inside"}     \* cut at the first byte of the region / strictly inside it
Faults == {[kind |-> k, chunk |-> cr[1], region |-> cr[2], fault |-> "flip", tc |-> "-"] : k \in Kinds, cr \in UNION {RegionsOf(kk) : kk \in Kinds}}
          \cup {[kind |-> k, chunk |-> cr[1], region |-> cr[2], fault |-> "trunc", tc |-> tc] : k \in Kinds, cr \in UNION {RegionsOf(kk) : kk \in Kinds}, tc \in TruncClasses}
ValidFault(f) == /\ <<f.chunk, f.region>> \in RegionsOf(f.kind)
                 /\ (SharedIndex(f.kind) => f.fault = "flip")    \* truncating a shared file removes OTHER segments' lines: not a single-segment fault
                 \* a region of one byte cannot be cut "inside"
                 /\ ~(f.fault = "trunc" /\ f.tc = "inside" /\ f.region \in {"enc", "b0", "version", "rver", "isnum", "dtype"})

VARIABLES phase,      \* "intact" -> "damaged" -> "read0" -> "readN" -> "done"
          fault,      \* the injected fault (or the empty record)
          chunk,      \* state of the two chunks of the checksummed file: field -> "ok" | "bad" | "short" | "gone"
          out,        \* outcome of the victim's blocks: [c0, cN] -> "Original" | "SegmentError" | "Altered" | "-"
          other,      \* outcome for the undamaged segment
          alive       \* the server process
vars == <<phase, fault, chunk, out, other, alive>>

OkChunk == [magic |-> "ok", crc |-> "ok", len |-> "ok", enc |-> "ok", data |-> "ok"]
Order == <<"magic", "crc", "len", "enc", "data">>
Idx(r) == CHOOSE i \in 1..5 : Order[i] = r

(* effect of a fault on the chunk fields: a flip makes one field bad; a truncation makes the cut field short
   (gone when cut at its start) and every later field - and every later chunk - gone *)
Damage(f, c) ==
  IF f.kind # "csg" THEN OkChunk
  ELSE IF f.fault = "flip" THEN (IF f.chunk = c THEN [OkChunk EXCEPT ![f.region] = "bad"] ELSE OkChunk)
  ELSE IF f.chunk = c
       THEN [r \in DOMAIN OkChunk |->
               IF Idx(r) < Idx(f.region) THEN "ok"
               ELSE IF Idx(r) = Idx(f.region) THEN (IF f.tc = "start" THEN "gone" ELSE "short")
               ELSE "gone"]
       ELSE IF f.chunk = "c0" /\ c = "cN" THEN [r \in DOMAIN OkChunk |-> "gone"]
       ELSE OkChunk

(* readChunkAt for chunk c, given the state of both chunks.  A 4-byte field that is "short" cannot be read (EOF). *)
Unreadable(x) == x \in {"gone", "short"}
ReadChunk(c) ==
  LET me == chunk[c]  first == chunk["c0"] IN
  IF Unreadable(me.magic) THEN "Error"
  ELSE IF me.magic = "bad"
       THEN IF c # "c0" /\ Unreadable(first.magic) THEN "Error"
            ELSE IF c # "c0" /\ first.magic = "ok" THEN "Error"      \* "offset is not the start of a chunk"
            ELSE IF LegacyFallback THEN "Unverified" ELSE "Error"     \* c = c0: the file's first word IS this chunk's magic
  ELSE IF Unreadable(me.crc) \/ Unreadable(me.len) THEN "Error"
  ELSE IF me.len = "bad" THEN "Error"                                 \* larger: buffer mismatch; smaller: crc over a prefix (A-crc)
  ELSE IF me.crc = "bad" \/ me.enc # "ok" \/ me.data # "ok" THEN "Error"   \* checksum mismatch (A-crc)
  ELSE "Verified"

Init == /\ phase = "intact" /\ fault = [kind |-> "-"] /\ chunk = [c \in {"c0", "cN"} |-> OkChunk]
        /\ out = [c \in {"c0", "cN"} |-> "-"] /\ other = "-" /\ alive = TRUE

Inject(f) == /\ phase = "intact" /\ ValidFault(f)
             /\ fault' = f /\ phase' = "damaged"
             /\ chunk' = [c \in {"c0", "cN"} |-> Damage(f, c)]
             /\ UNCHANGED <<out, other, alive>>

(* the query reads block c of the victim segment *)
Outcomes(c) ==
  IF Checksummed(fault.kind)
  THEN CASE ReadChunk(c) = "Verified"   -> {"Original"}
         [] ReadChunk(c) = "Error"      -> {"SegmentError"}
         [] ReadChunk(c) = "Unverified" -> {"SegmentError", "Altered"}
  ELSE IF fault.fault = "flip" /\ RangeChecked(fault.kind, fault.chunk, fault.region)
  THEN {"SegmentError"}                             \* a pointer far outside the file: the reader must notice
  \* no checksum: the decoder decides.  "SeriesMissing" = data of the segment absent from the answer WITHOUT any error
  \* indication (a changed key - tsid, tag value - is indistinguishable from a series that was never written)
  ELSE {"Original", "SegmentError", "Altered", "SeriesMissing"}

Read(c, from, to) == /\ phase = from
                     /\ \E o \in Outcomes(c) : out' = [out EXCEPT ![c] = o]
                     /\ phase' = to
                     /\ UNCHANGED <<fault, chunk, other, alive>>
Read0 == Read("c0", "damaged", "read0")
ReadN == Read("cN", "read0", "readN")
(* the same query reads the other segment: its readers open only that segment's own files *)
ReadOther == /\ phase = "readN" /\ other' = "Original" /\ phase' = "done"
             /\ UNCHANGED <<fault, chunk, out, alive>>

Next == (\E f \in Faults : Inject(f)) \/ Read0 \/ ReadN \/ ReadOther
Spec == Init /\ [][Next]_vars

-----------------------------------------------------------------------------
(* The outcome law (C18). *)
Law == \A c \in {"c0", "cN"} : out[c] \in {"-", "Original", "SegmentError"} \cup (IF phase # "intact" /\ ~Checksummed(fault.kind) THEN {"Altered", "SeriesMissing"} ELSE {})
(* detectable damage is reported: never a silently shortened or altered answer *)
RangeCheckedReported == (phase # "intact" /\ fault.fault = "flip" /\ RangeChecked(fault.kind, fault.chunk, fault.region))
                          => \A c \in {"c0", "cN"} : out[c] \in {"-", "SegmentError"}
ChecksummedNeverAltered == (phase # "intact" /\ Checksummed(fault.kind)) => \A c \in {"c0", "cN"} : out[c] # "Altered"
OthersUnaffected == other \in {"-", "Original"}
Alive == alive
TypeOK == phase \in {"intact", "damaged", "read0", "readN", "done"}
=============================================================================
