SPECIFICATION Spec
CONSTANTS
  MaxDp = 3
  MaxFlush = 2
  MaxSegRot = 2
  MaxPend = 1
  PutAtomic = TRUE
  AccountAtomic = TRUE
  ReaderHandlesEmpty = TRUE
  RefreshExempt = FALSE
  BlkCheckBySuffix = FALSE
INVARIANTS NoLoss
CHECK_DEADLOCK FALSE
