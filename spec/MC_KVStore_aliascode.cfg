SPECIFICATION Spec
CONSTANTS
  Tenants <- T2
  Keys <- K2
  Ops <- OpsCD
  MaxOps = 3
  MaxRestarts = 1
  Strict = TRUE
  Policy <- PolAlias
  ReloadSkips <- SkipT0
  CleanFlush = "invert"
CHECK_DEADLOCK FALSE
INVARIANTS ReadsLastWritten Durable NothingInvented TypeOK
