SPECIFICATION TSpec
CONSTANTS
  Q <- TraceQ
  MAXRUN = 2
  CAP = 10
  ASYNC = FALSE
  MAXUPD = 0
  CANCELS = 2
  TIMERS = TRUE
  SeesAdmitting = TRUE
INVARIANTS TAdmission TClean TOneTerminal NoDoubleBooking TypeOK
POSTCONDITION TraceAccepted
CHECK_DEADLOCK FALSE
