SPECIFICATION Spec
CONSTANTS
  NSEG = 3
  NBLK = 1
  R = 2
  T = 4
  MAXB = 2
  RF = TRUE
INVARIANTS Sorted NoDupOut NoInvent Complete PrefixFinal HeadOK PagesPartition NoLivelock TypeOK
VIEW View
