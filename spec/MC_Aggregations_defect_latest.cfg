SPECIFICATION Spec
CONSTANTS
  Defect = "latest-null-overwrites"
  N = 3
  Datasets <- DatasetsAgg3
  Spans <- SpansAll
  Origins <- OriginsAll
INVARIANTS InvMergeEqualsDirect InvFinal InvMergeCommutes InvKeysOnce InvRows InvRowsPartition TypeOK
CHECK_DEADLOCK FALSE
