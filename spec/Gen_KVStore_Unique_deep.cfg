SPECIFICATION GenSpec
CONSTANTS
  Tenants <- T2
  Keys <- K2
  Ops <- OpsAll
  MaxOps = 6
  MaxRestarts = 2
  Strict = TRUE
  Policy <- PolUnique
  ReloadSkips <- NoTenants
  CleanFlush = "none"
CHECK_DEADLOCK FALSE
CONSTRAINT Emit
