SPECIFICATION Spec
CONSTANTS
  USeq <- UX
  Scenarios <- ScenXSmall
  Grids = {"pow"}
  Orders = {"time", "series"}
  NT = 2
  MaxOps = 2
  Tails <- TailsX
  Queries <- QueriesX
  RegisterPerSegment = TRUE
INVARIANTS TypeOK NoLossNoDup TagsCover LayoutInvarianceSel LayoutInvariance AvgIsSumOverCount MinLeAvgLeMax ByAllIsIdentity WithoutIsByComplement SelectExact BinaryMatchesLabelSets
CHECK_DEADLOCK FALSE
VIEW View
