SPECIFICATION Spec
CONSTANTS
  MaxSegs = 4
  Kinds <- KindsBoth
  Times <- TimesHorizon
  Weights <- W1
  DistinctHi = FALSE
  Straddle = TRUE
  PassKinds <- PassTime
  Limits <- Limit0
  OpenWs <- Open0
  WithPq = FALSE
  MaxCrash = 2
  MaxRepeat = 1
  DetOrder = FALSE
  Mults <- M1
  Orgs <- Org0
  RewriteScratch = FALSE
  SortedDel = "scan"
  MetKeyWraps = TRUE
  SkipTooBig = TRUE
  PqIdsLoaded = FALSE
  InodeCleansDangling = FALSE
INVARIANTS TypeOK Consistent TimeExact OldestFirst Idempotent NoNeedlessDeletion
CHECK_DEADLOCK FALSE
