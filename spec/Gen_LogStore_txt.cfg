SPECIFICATION GenSpec
CONSTANTS
  Streams <- OneStream
  Classes <- ClassesText
  TsClasses <- TsOne
  Cols <- ColsLate
  ClassKinds <- KindsTabText
  ClassX <- XTabText
  ClassXS <- XSNone
  ClassT <- TTabText
  ClassM <- MTabText
  LowerOf <- LowerTab
  QNums <- QNumsOne
  QWords <- QWordsTwo
  MaxEvents = 4
  MaxBatch = 2
  MaxFlush = 1
  MaxRotate = 1
  MaxRestart = 1
  MaxPromote = 0
  PromoteOps <- PromoNone
  BlockCap = 99
  CardLimit = 2
  NeSkipsConstBlock = FALSE
  LowerOnInsert = TRUE
  MaxSteps = 4
CONSTRAINT Emit
CHECK_DEADLOCK FALSE
