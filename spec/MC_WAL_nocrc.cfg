SPECIFICATION Spec
CONSTANTS
  MaxDp = 2
  MaxIdx = 0
  MaxBlk = 0
  MaxCrash = 1
  Faults = TRUE
  LexListing = TRUE
  CrcChecked = FALSE
  FlushBeforeDelete = FALSE
  KeepFlushedBlock = FALSE
  MetaAtomic = FALSE
  StartupIngest = FALSE
  MetaSkipsEmptyBlock = FALSE
  MaxMeta = 0
  NpDp = 0
INVARIANTS NoInvent
CHECK_DEADLOCK FALSE
