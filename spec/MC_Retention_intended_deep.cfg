SPECIFICATION Spec
CONSTANTS
  MaxSegs = 4
  Kinds <- KindsBoth
  Times <- TimesRank4
  Weights <- W12
  DistinctHi = TRUE
  Straddle = FALSE
  PassKinds <- PassVolInode
  Limits <- Limits05
  OpenWs <- Open01
  WithPq = FALSE
  MaxCrash = 1
  MaxRepeat = 1
  DetOrder = FALSE
  Mults <- M1
  Orgs <- Org0
  RewriteScratch = FALSE
  SortedDel = "scan"
  MetKeyWraps = FALSE
  SkipTooBig = FALSE
  PqIdsLoaded = TRUE
  InodeCleansDangling = TRUE
INVARIANTS TypeOK Consistent TimeExact OldestFirst Idempotent NoNeedlessDeletion
CHECK_DEADLOCK FALSE
