------------------------------ MODULE Gen_Bulk ------------------------------
(* Behaviour generator for Bulk: every sealed body that has run to "done" is written as one JSON
   line: the body, the transcription's prediction (items, errors, stored, herr), the set of
   admissible outcomes Required and the deviation classes the model assigns.  checks/c15.py
   concretises the lines, posts the body to the real HandleBulkBody and compares. *)
EXTENDS Bulk, BulkConsts, Json, IOUtils
DevSet == (IF DevTrailing THEN {"trailing"} ELSE {}) \cup (IF Dev413NoFlag THEN {"flag413"} ELSE {})
          \cup (IF DevSticky THEN {"sticky"} ELSE {}) \cup (IF DevStore THEN {"store"} ELSE {})
Emit == IF pc = "done"
        THEN Serialize(ToJson([lines |-> body, nl |-> nl,
                               impl |-> [items |-> items, errors |-> overallError, stored |-> stored, herr |-> ~atleastOne],
                               required |-> Required(body, nl), dev |-> DevSet]) \o "\n",
                       "behaviours.ndjson",
                       [format |-> "TXT", charset |-> "UTF-8", openOptions |-> <<"WRITE", "CREATE", "APPEND">>]).exitValue = 0
        ELSE TRUE
=============================================================================
