------------------------------ MODULE Aggregations ------------------------------
(* Aggregations of siglens (property C04): stats / group-by / time buckets.

   Two independent definitions are related by the invariants:
     - Direct(E): the mathematical aggregate of a SET of events (no order, no
       partial results) - what the statement calls "the aggregate computed
       directly over exactly the events matched";
     - the engine's way: a running partial aggregate per open block/segment
       (Add, as blockresults.runningstats / writer stats.AddSegStats* do it), closed
       partials per segment (CloseSegment: flush of a block or rotation of a
       segment), and Merge of the partials (segresults / stats.MergeSegStats);
       group-by keeps a table of rows (key, partial) and merges tables row by row.
   The state machine ingests the dataset event by event and may close the
   open part after any event: TLC thereby enumerates every segmentation.
   Invariant: Merge over every segmentation = Direct over the union, every
   occurring group key appears in exactly one row, rows partition the events,
   Merge is commutative; Bucket (any align time) partitions the time line.

   event  [id, ts, x, g]
     x : measure value  [k \in {"int","flt","numstr","text","absent"}, n, c]
         n = numeric value scaled by 1000 (thousandths) for int/flt/numstr, c = label for text
     g : group key      [k \in {"str","num","bool","empty","absent"}, c]
   Defect # "none" switches on a known-bad variant (model sensitivity only). *)
EXTENDS Integers, Sequences, FiniteSets, TLC
CONSTANT Defect

IsNum(v) == v.k \in {"int", "flt", "numstr"}     \* numeric strings count as numbers (packer.addSegStatsStr*)
Present(v) == v.k # "absent"
NoTV == [ts |-> -1, v |-> [k |-> "absent", n |-> 0, c |-> ""]]
MinI(a, b) == IF a <= b THEN a ELSE b
MaxI(a, b) == IF a >= b THEN a ELSE b

(* ---------------- direct definitions over a set of events ---------------- *)
Nums(E) == {e \in E : IsNum(e.x)}
Pres(E) == {e \in E : Present(e.x)}
RECURSIVE SumN(_)
SumN(E) == IF E = {} THEN 0 ELSE LET e == CHOOSE y \in E : TRUE IN (IF IsNum(e.x) THEN e.x.n ELSE 0) + SumN(E \ {e})
DMin(E) == LET S == {e.x.n : e \in Nums(E)} IN IF S = {} THEN 0 ELSE CHOOSE m \in S : \A y \in S : m <= y
DMax(E) == LET S == {e.x.n : e \in Nums(E)} IN IF S = {} THEN 0 ELSE CHOOSE m \in S : \A y \in S : m >= y
DVals(E) == {e.x : e \in Pres(E)}
DFirst(E) == IF Pres(E) = {} THEN NoTV
             ELSE LET e == CHOOSE y \in Pres(E) : \A z \in Pres(E) : y.ts <= z.ts IN [ts |-> e.ts, v |-> e.x]
DLast(E) == IF Pres(E) = {} THEN NoTV
            ELSE LET e == CHOOSE y \in Pres(E) : \A z \in Pres(E) : y.ts >= z.ts IN [ts |-> e.ts, v |-> e.x]
Direct(E) == [cnt |-> Cardinality(E), xcnt |-> Cardinality(Pres(E)), ncnt |-> Cardinality(Nums(E)),
              sum |-> SumN(E), min |-> DMin(E), max |-> DMax(E), vals |-> DVals(E),
              bag |-> [v \in DVals(E) |-> Cardinality({e \in E : e.x = v})],
              first |-> DFirst(E), last |-> DLast(E)]

(* ---------------- the engine's way: running partial + merge ---------------- *)
Empty == [cnt |-> 0, xcnt |-> 0, ncnt |-> 0, sum |-> 0, min |-> 0, max |-> 0, vals |-> {}, bag |-> <<>>,
          first |-> NoTV, last |-> NoTV]
BagAdd(b, v) == [w \in DOMAIN b \cup {v} |-> (IF w \in DOMAIN b THEN b[w] ELSE 0) + (IF w = v THEN 1 ELSE 0)]
BagMerge(b, d) == [w \in DOMAIN b \cup DOMAIN d |-> (IF w \in DOMAIN b THEN b[w] ELSE 0) + (IF w \in DOMAIN d THEN d[w] ELSE 0)]
Earlier(a, b) == IF a.ts = -1 THEN b ELSE IF b.ts = -1 THEN a ELSE IF a.ts <= b.ts THEN a ELSE b
Later(a, b) == IF a.ts = -1 THEN b ELSE IF b.ts = -1 THEN a ELSE IF a.ts >= b.ts THEN a ELSE b

Add(p, e) ==
  LET num == IsNum(e.x)
      tv == IF Present(e.x) THEN [ts |-> e.ts, v |-> e.x] ELSE NoTV
  IN [cnt |-> p.cnt + 1,
      xcnt |-> p.xcnt + (IF Present(e.x) THEN 1 ELSE 0),
      ncnt |-> p.ncnt + (IF num THEN 1 ELSE 0),
      sum |-> p.sum + (IF num THEN e.x.n ELSE 0),
      min |-> IF ~num THEN p.min
              ELSE IF Defect = "min-init-zero" THEN MinI(p.min, e.x.n)         \* forgets "no number seen yet"
              ELSE IF p.ncnt = 0 THEN e.x.n ELSE MinI(p.min, e.x.n),
      max |-> IF ~num THEN p.max ELSE IF p.ncnt = 0 THEN e.x.n ELSE MaxI(p.max, e.x.n),
      vals |-> IF Present(e.x) THEN p.vals \cup {e.x} ELSE p.vals,
      bag |-> IF Present(e.x) THEN BagAdd(p.bag, e.x) ELSE p.bag,
      \* "latest-null-overwrites" is what the pinned engine does: the chronologically first / last event wins even
      \* when it lacks the field, and its missing value is then reported (as 0)
      first |-> IF Defect = "latest-null-overwrites" /\ ~Present(e.x) /\ (p.first.ts = -1 \/ e.ts <= p.first.ts)
                THEN [ts |-> e.ts, v |-> NoTV.v] ELSE Earlier(p.first, tv),
      last |-> IF Defect = "latest-null-overwrites" /\ ~Present(e.x) /\ e.ts >= p.last.ts
               THEN [ts |-> e.ts, v |-> NoTV.v] ELSE Later(p.last, tv)]

Merge(p, q) ==
  [cnt |-> p.cnt + q.cnt, xcnt |-> p.xcnt + q.xcnt,
   ncnt |-> IF Defect = "avg-stale-count" THEN p.ncnt ELSE p.ncnt + q.ncnt,
   sum |-> p.sum + q.sum,
   min |-> IF q.ncnt = 0 THEN p.min ELSE IF p.ncnt = 0 THEN q.min ELSE MinI(p.min, q.min),
   max |-> IF q.ncnt = 0 THEN p.max ELSE IF p.ncnt = 0 THEN q.max ELSE MaxI(p.max, q.max),
   vals |-> p.vals \cup q.vals, bag |-> BagMerge(p.bag, q.bag),
   first |-> Earlier(p.first, q.first), last |-> Later(p.last, q.last)]

RECURSIVE MergeAll(_)
MergeAll(ps) == IF ps = <<>> THEN Empty ELSE Merge(Head(ps), MergeAll(Tail(ps)))

(* what a query reports from a partial *)
Final(p) == [count |-> p.cnt, countx |-> p.xcnt, sum |-> p.sum, min |-> p.min, max |-> p.max, range |-> p.max - p.min,
             avgnum |-> p.sum, avgden |-> p.ncnt, hasnum |-> p.ncnt > 0,
             values |-> p.vals, list |-> p.bag, dc |-> Cardinality(p.vals),
             dcnum |-> Cardinality({v.n : v \in {w \in p.vals : IsNum(w)}}) + Cardinality({w \in p.vals : ~IsNum(w)}),
             earliest |-> p.first.v, latest |-> p.last.v]

(* ---------------- group-by: table of rows (key, partial) ---------------- *)
NormKey(g) == IF Defect = "absent-key-as-empty" /\ g.k = "absent" THEN [k |-> "empty", c |-> ""] ELSE g
RowIdx(t, k) == IF \E j \in DOMAIN t : t[j].key = k THEN CHOOSE j \in DOMAIN t : t[j].key = k ELSE 0
TAdd(t, e) == LET k == NormKey(e.g) j == RowIdx(t, k)
              IN IF j = 0 THEN Append(t, [key |-> k, p |-> Add(Empty, e)]) ELSE [t EXCEPT ![j].p = Add(@, e)]
RECURSIVE TMerge(_, _)
TMerge(t, u) == IF u = <<>> THEN t
                ELSE LET r == Head(u) j == RowIdx(t, r.key)
                     IN TMerge(IF j = 0 THEN Append(t, r) ELSE [t EXCEPT ![j].p = Merge(@, r.p)], Tail(u))
RECURSIVE TMergeAll(_)
TMergeAll(ts) == IF ts = <<>> THEN <<>> ELSE TMerge(Head(ts), TMergeAll(Tail(ts)))
Keys(t) == {t[j].key : j \in DOMAIN t}

(* ---------------- time buckets ----------------
   Bucket(ts, span, align) = align + floor((ts - align) / span) * span, for ts on BOTH sides of the align time:
   timechart aligns to the start of the query range (align <= every ts), `bin span=` to the epoch (align = 0), and
   `bin span= aligntime=t` (bincommand.getTimeBucketWithAlign) to any t - inside, before or after the data -
   where the quotient is negative for the events older than t.  FloorDiv is written out (not `\div`) so that the
   rounding direction is explicit; "align-truncates" is the variant that rounds the quotient towards zero, as Go's
   integer division does. *)
FloorDiv(d, s) == IF d >= 0 THEN d \div s ELSE -(((-d) + s - 1) \div s)
TruncDiv(d, s) == IF d >= 0 THEN d \div s ELSE -((-d) \div s)
Bucket(ts, span, align) == align + (IF Defect = "align-truncates" THEN TruncDiv(ts - align, span) ELSE FloorDiv(ts - align, span)) * span
BucketTable(E, span, origin) == [b \in {Bucket(e.ts, span, origin) : e \in E} |-> Direct({e \in E : Bucket(e.ts, span, origin) = b})]

-----------------------------------------------------------------------------
(* ---------------- the segmentation state machine ---------------- *)
CONSTANTS N, Datasets      \* Datasets: set of sequences of N events
VARIABLES ds, i, gcur, tcur, curN, closed, cuts, done
vars == <<ds, i, gcur, tcur, curN, closed, cuts, done>>

Init == /\ ds \in Datasets /\ i = 0 /\ gcur = Empty /\ tcur = <<>> /\ curN = 0
        /\ closed = <<>> /\ cuts = <<>> /\ done = FALSE

AddEvent == /\ i < N /\ ~done
            /\ LET e == ds[i + 1] IN gcur' = Add(gcur, e) /\ tcur' = TAdd(tcur, e)
            /\ i' = i + 1 /\ curN' = curN + 1
            /\ UNCHANGED <<ds, closed, cuts, done>>

(* flush of the open block ("flush") or rotation of the segment ("rotate"): the partial is frozen *)
CloseSegment(act) == /\ curN > 0 /\ ~done
                     /\ closed' = Append(closed, [g |-> gcur, t |-> tcur])
                     /\ cuts' = Append(cuts, [n |-> curN, act |-> act])
                     /\ gcur' = Empty /\ tcur' = <<>> /\ curN' = 0
                     /\ done' = (i = N)
                     /\ UNCHANGED <<ds, i>>

Next == AddEvent \/ \E act \in {"flush", "rotate"} : CloseSegment(act)
Spec == Init /\ [][Next]_vars

Seen == {ds[j] : j \in 1..i}
GParts == [j \in 1..Len(closed) |-> closed[j].g] \o <<gcur>>
TParts == [j \in 1..Len(closed) |-> closed[j].t] \o <<tcur>>
MergedG == MergeAll(GParts)
MergedT == TMergeAll(TParts)

(* the property: merge over the segmentation = the direct aggregate of the union *)
InvMergeEqualsDirect == MergedG = Direct(Seen)
InvFinal == LET f == Final(MergedG) d == Direct(Seen)
            IN /\ f.count = Cardinality(Seen) /\ f.sum = d.sum /\ f.range = d.max - d.min
               /\ (f.hasnum => f.avgnum = d.sum /\ f.avgden = Cardinality(Nums(Seen)))   \* avg = sum / count of numbers
               /\ f.dc = Cardinality(DVals(Seen)) /\ f.dcnum <= f.dc
InvMergeCommutes == \A a, b \in {GParts[j] : j \in DOMAIN GParts} : Merge(a, b) = Merge(b, a)
(* group-by: every occurring key exactly once, each row is the direct aggregate of its events *)
InvKeysOnce == /\ Cardinality(Keys(MergedT)) = Len(MergedT)
               /\ Keys(MergedT) = {e.g : e \in Seen}
InvRows == \A j \in DOMAIN MergedT : MergedT[j].p = Direct({e \in Seen : e.g = MergedT[j].key})
InvRowsPartition == LET all == MergeAll([j \in DOMAIN MergedT |-> MergedT[j].p])
                    IN all.cnt = Cardinality(Seen) /\ all.sum = SumN(Seen) /\ all.vals = DVals(Seen)
(* time buckets partition the range: every event in exactly one bucket whose span contains its timestamp *)
CONSTANTS Spans, Origins
InvFloorDiv == \A span \in Spans, o \in Origins : \A e \in Seen :
   LET q == FloorDiv(e.ts - o, span) IN q * span <= e.ts - o /\ e.ts - o < (q + 1) * span
InvBuckets == \A span \in Spans, o \in Origins :       \* Origins lie before, inside and after the data
     LET T == BucketTable(Seen, span, o)
     IN /\ \A e \in Seen : LET b == Bucket(e.ts, span, o) IN b <= e.ts /\ e.ts < b + span /\ (b - o) % span = 0
        /\ \A e \in Seen : Cardinality({b \in DOMAIN T : b <= e.ts /\ e.ts < b + span}) = 1
        /\ \A b1, b2 \in DOMAIN T : b1 # b2 => (b1 + span <= b2 \/ b2 + span <= b1)
        /\ \A b \in DOMAIN T : T[b].cnt = Cardinality({e \in Seen : b <= e.ts /\ e.ts < b + span})
TypeOK == i \in 0..N /\ curN \in 0..N /\ done \in BOOLEAN
=============================================================================
