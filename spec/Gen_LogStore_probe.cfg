SPECIFICATION GenSpec
CONSTANTS
  Streams <- OneStream
  Classes <- ClassesRTProbe
  TsClasses <- TsOne
  Cols <- ColsAll
  ClassKinds <- KindsTab
  ClassX <- XTabRT
  ClassXS <- XSNone
  ClassT <- TTabRT
  ClassM <- MTabRT
  LowerOf <- LowerTab
  QNums <- QNumsOne
  QWords <- QWordsTwo
  MaxEvents = 3
  MaxBatch = 2
  MaxFlush = 1
  MaxRotate = 1
  MaxRestart = 0
  MaxPromote = 0
  PromoteOps <- PromoNone
  BlockCap = 99
  CardLimit = 2
  NeSkipsConstBlock = FALSE
  LowerOnInsert = TRUE
  MaxSteps = 3
CONSTRAINT Emit
CHECK_DEADLOCK FALSE
