SPECIFICATION ScenSpec
CONSTANTS
  USeq <- US
  Scenarios <- ScenS
  Grids = {"pow"}
  Orders = {"time"}
  NT = 3
  MaxOps = 0
  Tails <- TailsS
  Queries <- QueriesS
  RegisterPerSegment = TRUE
CONSTRAINT EmitScenario
CHECK_DEADLOCK FALSE
