SPECIFICATION Spec
CONSTANTS
  Chains <- RewindAndFracChains
  RowVals <- RowsABC
  MaxRows = 3
  MaxEmpty = 0
  EofModes <- BoolF
  SSCarry = TRUE
INVARIANTS ChunkingInvariant PrefixOK SplitInvariant TypeOK
CHECK_DEADLOCK FALSE
