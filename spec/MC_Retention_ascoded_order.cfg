SPECIFICATION Spec
CONSTANTS
  MaxSegs = 3
  Kinds <- KindsBoth
  Times <- TimesRank3
  Weights <- W12
  DistinctHi = TRUE
  Straddle = FALSE
  PassKinds <- PassVolume
  Limits <- Limits05
  OpenWs <- Open01
  WithPq = FALSE
  MaxCrash = 1
  MaxRepeat = 1
  DetOrder = FALSE
  Mults <- M1
  Orgs <- Org0
  RewriteScratch = FALSE
  SortedDel = "scan"
  MetKeyWraps = TRUE
  SkipTooBig = TRUE
  PqIdsLoaded = FALSE
  InodeCleansDangling = FALSE
INVARIANTS TypeOK OldestFirst
CHECK_DEADLOCK FALSE
