------------------------------- MODULE WAL -------------------------------
(* Metrics write-ahead logs of one metrics segment (shard) across ingest, WAL appends, WAL-file rotation, block
   rotation, a process crash at any instant, damage to a log file while the process is down, and restart recovery.
   Code: pkg/segment/writer/metrics/wal/wal.go (NewWAL, Append = three write calls, Write = ftruncate + seek + version +
   block, the three iterators), pkg/segment/writer/metrics/metricssegment.go (appendToWALBuffer, timeBasedWalDPSFlush,
   rotateWAL, rotateBlock -> flushBlock + cleanAndInitNewDpWal/deleteDpWalFiles, RecoverWALData, RecoverMEntryWALData,
   timeBasedMetaEntryWalFlush, initOrgMetrics), cmd/startup/startup.go (recovery runs after the ingest server started).

   One action per file-system call class, in the code's order; a crash may fall between any two (process-crash model:
   completed calls persist, the call in flight is not applied, a single write is not torn).

   A datapoint log file is  version byte, then blocks  [len u32][crc32 u32][zstd payload]; a region of a block is
   "ok" (as written), "none" (not written / cut away), "cut" (partly present), "bad" (a byte flipped).  Datapoints are the
   numbers 1, 2, 3, ... in ingest order.  The metric-name log has the same shape with one file per segment (MaxIdx = 0);
   the meta-entry log is ONE block that is rewritten in place (second half of this module).

   Switches: the value that describes the code as it is comes first.
     LexListing        TRUE : os.ReadDir order = lexicographic in the file name, index 10 sorts before index 2
     CrcChecked        TRUE : the reader compares the CRC (FALSE = a mutant: a damaged payload is decoded)
     FlushBeforeDelete FALSE: RecoverWALData deletes each log file right after reading it, BEFORE the rebuilt block is
                              flushed (TRUE = candidate repair: flush the block, then delete the files)
     KeepFlushedBlock  FALSE: recovery rebuilds and OVERWRITES block b from whatever log files of block b are left, even
                              if block b had already been flushed by the block rotation that was deleting those files
                              (TRUE = candidate repair: log files of an already flushed block are stale, only deleted)
     MetaAtomic        FALSE: Wal.Write truncates the meta-entry log in place, then writes version and block
                              (TRUE = candidate repair: write a temporary file, rename it over the log)
     StartupIngest     TRUE : the restarted process may ingest (initOrgMetrics: O_TRUNC-creates the meta-entry log and
                              its own datapoint log in the same directory) while recovery is listing/deleting          *)
EXTENDS Naturals, Sequences, FiniteSets, TLC

CONSTANTS MaxDp,      \* datapoints ingested by the first process life
          MaxIdx,     \* highest log-file index within one block (bounds RotateWal)
          MaxBlk,     \* highest block number (bounds RotateBlock)
          MaxCrash,   \* crashes per behaviour; 2 = a crash during recovery is covered
          Faults,     \* BOOLEAN: one Truncate / FlipByte may hit a log file while the process is down
          LexListing, CrcChecked, FlushBeforeDelete, KeepFlushedBlock, MetaAtomic, StartupIngest,
          MetaSkipsEmptyBlock, \* FALSE = code as it is: every rewrite of the meta-entry log lists the segment.  TRUE = a rewrite
                      \* leaves the segment out while its CURRENT in-memory block is empty (e.g. right after a block rotation)
          MaxMeta,    \* rewrites of the meta-entry log
          NpDp        \* datapoints the restarted process ingests during recovery (StartupIngest)

VARIABLES phase,      \* "run" | "down" | "recovering" | "done"
          crashes,
          \* ---- datapoint logs, first process life
          wal,        \* [name -> file]; name = <<seg, blk, idx>>; file = [ver, blocks]
          cur,        \* name of the file appends go to
          allWals,    \* the writer's own list of the current block's files (deleteDpWalFiles walks it)
          mem,        \* datapoints in the in-memory metrics block (volatile)
          buf,        \* datapoints buffered for the next Append (volatile)
          inflight,   \* datapoints of the Append in progress
          pc,         \* "idle" | "crc" | "pay" | "mkver" | "rbA" | "rbB" | "rbdel"
          next,       \* next datapoint
          appended,   \* history: sequence of [name, dps] - appends that completed, in order
          blockFile,  \* [<<seg, blk>> -> [st: "none" | "partial" | "ok", dps]]: flushed metrics blocks (.tso/.tsg)
          fault,      \* [kind: "none" | "trunc" | "flip", name, k, r, at (= number of crashes when it hit)]
          \* ---- recovery (volatile except its file effects)
          rpc,        \* "off" | "list" | "file" | "flushA" | "flushB" | "del" | "meta" | "done"
          listing,    \* remaining file names, group by group, in directory order
          grp,        \* group <<seg, blk>> being rebuilt
          recBlock,   \* datapoints replayed into the rebuilt block so far
          toDelete,   \* FlushBeforeDelete: files of the group to delete after the flush
          replayLog,  \* history: set of [name, read, at] - what each RecoverFile step read from a file
          flushLog,   \* history: set of sequences a rebuilt block was flushed with
          \* ---- meta-entry log
          mfile, mtmp, mpc, mval, mnext, mlogged, mfault, mrecovered,
          mseg,       \* [ever: a completed rewrite listed the segment, rec: the recovered log lists it]
          \* ---- the restarted process (StartupIngest)
          np          \* [st, nbuf (buffered), unlinked, napp (appended)]

dvars == <<wal, cur, allWals, mem, buf, inflight, pc, next, appended, blockFile, fault>>
rvars == <<rpc, listing, grp, recBlock, toDelete, replayLog, flushLog>>
mvars == <<mfile, mtmp, mpc, mval, mnext, mlogged, mfault, mrecovered, mseg>>
vars == <<phase, crashes, dvars, rvars, mvars, np>>

EmptyFile == [ver |-> "none", blocks |-> <<>>]
NoBlockFile == [st |-> "none", dps |-> <<>>]
Groups == (0..1) \X (0..MaxBlk)
MEmpty == [ver |-> "none", len |-> "none", crc |-> "none", pay |-> "none", val |-> 0, seg |-> FALSE]
NoFault == [kind |-> "none", name |-> <<>>, k |-> 0, r |-> "none", at |-> 0]
NpOff == [st |-> "off", nbuf |-> <<>>, unlinked |-> FALSE, napp |-> <<>>]
NpName == <<1, 0, 0>>

Init == /\ phase = "run" /\ crashes = 0
        /\ wal = (<<0, 0, 0>> :> [ver |-> "ok", blocks |-> <<>>])       \* initOrgMetrics -> initNewDpWal
        /\ cur = <<0, 0, 0>> /\ allWals = << <<0, 0, 0>> >>
        /\ mem = <<>> /\ buf = <<>> /\ inflight = <<>> /\ pc = "idle" /\ next = 1 /\ appended = <<>>
        /\ blockFile = [g \in Groups |-> NoBlockFile] /\ fault = NoFault
        /\ rpc = "off" /\ listing = <<>> /\ grp = <<>> /\ recBlock = <<>> /\ toDelete = <<>>
        /\ replayLog = {} /\ flushLog = {}
        /\ mfile = [MEmpty EXCEPT !.ver = "ok"] /\ mtmp = MEmpty /\ mpc = "idle" /\ mval = 0 /\ mnext = 1
        /\ mlogged = 0 /\ mfault = "none" /\ mrecovered = 0 /\ mseg = [ever |-> FALSE, rec |-> FALSE]
        /\ np = NpOff

Remove(f, n) == [x \in (DOMAIN f) \ {n} |-> f[x]]
LastBlk(n) == Len(wal[n].blocks)
SetLast(n, fld, v) == [wal EXCEPT ![n].blocks[LastBlk(n)] = [@ EXCEPT ![fld] = v]]

-----------------------------------------------------------------------------
(* ---------------- writer, first life ---------------- *)
Running == phase = "run"
Ux == UNCHANGED <<phase, crashes, rvars, mvars, np>>      \* what no writer action touches

\* EncodeDatapoint: the point enters the in-memory block and the WAL buffer (appendToWALBuffer)
Buffer == /\ Running /\ Ux /\ pc = "idle" /\ next <= MaxDp
          /\ mem' = Append(mem, next) /\ buf' = Append(buf, next) /\ next' = next + 1
          /\ UNCHANGED <<wal, cur, allWals, inflight, pc, appended, blockFile, fault>>

\* Wal.Append = writeBlockToFile: three write calls
AppendLen == /\ Running /\ Ux /\ pc = "idle" /\ buf # <<>>
             /\ wal' = [wal EXCEPT ![cur].blocks = Append(@, [len |-> "ok", crc |-> "none", pay |-> "none", dps |-> buf])]
             /\ inflight' = buf /\ pc' = "crc"
             /\ UNCHANGED <<cur, allWals, mem, buf, next, appended, blockFile, fault>>
AppendCrc == /\ Running /\ Ux /\ pc = "crc" /\ wal' = SetLast(cur, "crc", "ok") /\ pc' = "pay"
             /\ UNCHANGED <<cur, allWals, mem, buf, inflight, next, appended, blockFile, fault>>
AppendPayload == /\ Running /\ Ux /\ pc = "pay" /\ wal' = SetLast(cur, "pay", "ok")
                 /\ appended' = Append(appended, [name |-> cur, dps |-> inflight])
                 /\ buf' = <<>> /\ inflight' = <<>> /\ pc' = "idle"               \* dpIdx = 0
                 /\ UNCHANGED <<cur, allWals, mem, next, blockFile, fault>>

\* rotateWAL (size threshold after an append): next index, NewWAL = O_CREATE|O_TRUNC, then the version byte
RotateWal == /\ Running /\ Ux /\ pc = "idle" /\ LastBlk(cur) > 0 /\ cur[3] < MaxIdx
             /\ LET n == <<cur[1], cur[2], cur[3] + 1>> IN
                  /\ wal' = (n :> EmptyFile) @@ wal /\ cur' = n /\ allWals' = Append(allWals, n)
             /\ pc' = "mkver"
             /\ UNCHANGED <<mem, buf, inflight, next, appended, blockFile, fault>>
WriteVer == /\ Running /\ Ux /\ pc = "mkver" /\ wal' = [wal EXCEPT ![cur].ver = "ok"] /\ pc' = "idle"
            /\ UNCHANGED <<cur, allWals, mem, buf, inflight, next, appended, blockFile, fault>>

\* rotateBlock: flushBlock (summary appended, .tso/.tsg O_TRUNC-created = rbA, then written = rbB), then
\* cleanAndInitNewDpWal: delete the block's log files one by one (DeleteOnBlockRotate), create the next block's first file
RotateBlock == /\ Running /\ Ux /\ pc = "idle" /\ mem # <<>> /\ cur[2] < MaxBlk
               /\ blockFile' = [blockFile EXCEPT ![<<cur[1], cur[2]>>] = [st |-> "partial", dps |-> <<>>]]
               /\ pc' = "rbB"
               /\ UNCHANGED <<wal, cur, allWals, mem, buf, inflight, next, appended, fault>>
BlockFileWrite == /\ Running /\ Ux /\ pc = "rbB"
                  /\ blockFile' = [blockFile EXCEPT ![<<cur[1], cur[2]>>] = [st |-> "ok", dps |-> mem]]
                  /\ mem' = <<>> /\ pc' = "rbdel"
                  /\ UNCHANGED <<wal, cur, allWals, buf, inflight, next, appended, fault>>
DeleteOnBlockRotate == /\ Running /\ Ux /\ pc = "rbdel" /\ allWals # <<>>
                       /\ wal' = Remove(wal, Head(allWals)) /\ allWals' = Tail(allWals)
                       /\ UNCHANGED <<cur, mem, buf, inflight, pc, next, appended, blockFile, fault>>
NextBlockWal == /\ Running /\ Ux /\ pc = "rbdel" /\ allWals = <<>>
                /\ LET n == <<cur[1], cur[2] + 1, 0>> IN
                     /\ wal' = (n :> EmptyFile) @@ wal /\ cur' = n /\ allWals' = <<n>>
                /\ buf' = <<>> /\ pc' = "mkver"
                /\ UNCHANGED <<mem, inflight, next, appended, blockFile, fault>>

-----------------------------------------------------------------------------
(* ---------------- meta-entry log: timeBasedMetaEntryWalFlush -> Wal.Write ---------------- *)
Um == UNCHANGED <<phase, crashes, dvars, rvars, np>>
MTarget == IF MetaAtomic THEN mtmp ELSE mfile
\* does the list of entries built by timeBasedMetaEntryWalFlush contain the segment?  (mem = the current in-memory block)
Lists == IF MetaSkipsEmptyBlock THEN mem # <<>> ELSE TRUE
MSet(f) == IF MetaAtomic THEN mtmp' = f /\ UNCHANGED mfile ELSE mfile' = f /\ UNCHANGED mtmp
\* ftruncate(0) (+ seek): the previously logged entry is gone from this instant on
Truncate0 == /\ Running /\ Um /\ mpc = "idle" /\ mnext <= MaxMeta
             /\ MSet([MEmpty EXCEPT !.seg = Lists]) /\ mval' = mnext /\ mpc' = "ver"      \* the entries are collected before Wal.Write
             /\ UNCHANGED <<mnext, mlogged, mfault, mrecovered, mseg>>
WriteVersion == /\ Running /\ Um /\ mpc = "ver" /\ MSet([MTarget EXCEPT !.ver = "ok"]) /\ mpc' = "len"
                /\ UNCHANGED <<mval, mnext, mlogged, mfault, mrecovered, mseg>>
\* WriteBlock = the three writes of writeBlockToFile
WriteBlockLen == /\ Running /\ Um /\ mpc = "len" /\ MSet([MTarget EXCEPT !.len = "ok"]) /\ mpc' = "crc"
                 /\ UNCHANGED <<mval, mnext, mlogged, mfault, mrecovered, mseg>>
WriteBlockCrc == /\ Running /\ Um /\ mpc = "crc" /\ MSet([MTarget EXCEPT !.crc = "ok"]) /\ mpc' = "pay"
                 /\ UNCHANGED <<mval, mnext, mlogged, mfault, mrecovered, mseg>>
WriteBlockPay == /\ Running /\ Um /\ mpc = "pay" /\ MSet([MTarget EXCEPT !.pay = "ok", !.val = mval])
                 /\ IF MetaAtomic THEN mpc' = "ren" /\ UNCHANGED <<mnext, mlogged, mseg>>
                    ELSE mpc' = "idle" /\ mlogged' = mval /\ mnext' = mnext + 1 /\ mseg' = [mseg EXCEPT !.ever = @ \/ MTarget.seg]
                 /\ UNCHANGED <<mval, mfault, mrecovered>>
MetaRename == /\ Running /\ Um /\ mpc = "ren" /\ mfile' = mtmp /\ mlogged' = mval /\ mnext' = mnext + 1 /\ mpc' = "idle"
              /\ mseg' = [mseg EXCEPT !.ever = @ \/ mtmp.seg]
              /\ UNCHANGED <<mtmp, mval, mfault, mrecovered>>
MRead(f) == IF f.ver = "ok" /\ f.len = "ok" /\ f.crc = "ok" /\ f.pay = "ok" THEN f.val ELSE 0

-----------------------------------------------------------------------------
(* ---------------- crash, damage while down ---------------- *)
Crash == /\ phase \in {"run", "recovering"} /\ crashes < MaxCrash
         /\ phase' = "down" /\ crashes' = crashes + 1
         /\ mem' = <<>> /\ buf' = <<>> /\ inflight' = <<>> /\ pc' = "idle" /\ allWals' = <<>>
         /\ rpc' = "off" /\ listing' = <<>> /\ grp' = <<>> /\ recBlock' = <<>> /\ toDelete' = <<>>
         /\ mpc' = "idle" /\ np' = [np EXCEPT !.st = IF @ = "off" THEN "off" ELSE "dead", !.nbuf = <<>>]
         /\ UNCHANGED <<wal, cur, next, appended, blockFile, fault, replayLog, flushLog,
                        mfile, mtmp, mval, mnext, mlogged, mfault, mrecovered, mseg>>

Regions == {"len", "crc", "pay"}
CutBlock(b, r) == CASE r = "len" -> [b EXCEPT !.len = "cut", !.crc = "none", !.pay = "none"]
                    [] r = "crc" -> [b EXCEPT !.crc = "cut", !.pay = "none"]
                    [] r = "pay" -> [b EXCEPT !.pay = "cut"]
Written(b, r) == b[r] = "ok"
\* the file is cut inside region r of block k (k = 0, r = "ver": inside the version byte = empty file), or on the
\* boundary in front of block k (r = "boundary")
Truncate(n, k, r) ==
    /\ phase = "down" /\ Faults /\ fault.kind = "none" /\ n \in DOMAIN wal
    /\ \/ /\ k = 0 /\ r = "ver" /\ wal[n].ver = "ok" /\ wal' = [wal EXCEPT ![n] = EmptyFile]
       \/ /\ k \in 1..Len(wal[n].blocks) /\ r = "boundary"
          /\ wal' = [wal EXCEPT ![n].blocks = SubSeq(@, 1, k - 1)]
       \/ /\ k \in 1..Len(wal[n].blocks) /\ r \in Regions /\ Written(wal[n].blocks[k], r)
          /\ wal' = [wal EXCEPT ![n].blocks = Append(SubSeq(@, 1, k - 1), CutBlock(@[k], r))]
    /\ fault' = [kind |-> "trunc", name |-> n, k |-> k, r |-> r, at |-> crashes]
    /\ UNCHANGED <<phase, crashes, cur, allWals, mem, buf, inflight, pc, next, appended, blockFile, rvars, mvars, np>>
FlipByte(n, k, r) ==
    /\ phase = "down" /\ Faults /\ fault.kind = "none" /\ n \in DOMAIN wal
    /\ \/ /\ k = 0 /\ r = "ver" /\ wal[n].ver = "ok" /\ wal' = [wal EXCEPT ![n].ver = "bad"]
       \/ /\ k \in 1..Len(wal[n].blocks) /\ r \in Regions /\ Written(wal[n].blocks[k], r)
          /\ wal' = [wal EXCEPT ![n].blocks[k] = [@ EXCEPT ![r] = "bad"]]
    /\ fault' = [kind |-> "flip", name |-> n, k |-> k, r |-> r, at |-> crashes]
    /\ UNCHANGED <<phase, crashes, cur, allWals, mem, buf, inflight, pc, next, appended, blockFile, rvars, mvars, np>>
MCut(f, r) == CASE r = "ver" -> MEmpty
                [] r = "len" -> [f EXCEPT !.len = "cut", !.crc = "none", !.pay = "none"]
                [] r = "crc" -> [f EXCEPT !.crc = "cut", !.pay = "none"]
                [] r = "pay" -> [f EXCEPT !.pay = "cut"]
MetaDamage(kind, r) ==
    /\ phase = "down" /\ Faults /\ mfault = "none" /\ fault.kind = "none" /\ MaxMeta > 0 /\ mfile[r] = "ok"
    /\ mfile' = (IF kind = "flip" THEN [mfile EXCEPT ![r] = "bad"] ELSE MCut(mfile, r)) /\ mfault' = kind
    /\ UNCHANGED <<phase, crashes, dvars, rvars, mtmp, mpc, mval, mnext, mlogged, mrecovered, mseg, np>>

-----------------------------------------------------------------------------
(* ---------------- the readers (DPWalIterator.Next until error or nil) ---------------- *)
Good(b) == b.len = "ok" /\ b.crc = "ok" /\ b.pay = "ok"
\* CrcChecked = FALSE (mutant): a block whose length field is intact is decoded whatever its checksum / payload bytes say
Accepted(b) == Good(b) \/ (~CrcChecked /\ b.len = "ok" /\ b.crc \in {"ok", "bad"} /\ b.pay \in {"ok", "bad"})
Decoded(b) == IF Good(b) THEN b.dps ELSE [i \in 1..Len(b.dps) |-> b.dps[i] + 1000]   \* datapoints that were never written
RECURSIVE ReadBlocks(_)
ReadBlocks(bs) == IF bs = <<>> \/ ~Accepted(Head(bs)) THEN <<>> ELSE Decoded(Head(bs)) \o ReadBlocks(Tail(bs))
Openable(f) == f.ver = "ok"          \* openAndValidateWALFile: empty file or wrong version = error, the file is skipped
ReadFile(f) == IF Openable(f) THEN ReadBlocks(f.blocks) ELSE <<>>

\* directory order of the files of one group (os.ReadDir sorts by name; "..._10.wal" < "..._2.wal", "..._1.wal" < "..._10.wal")
IdxKey(i) == IF ~LexListing THEN i ELSE IF i < 10 THEN i * 100 ELSE (i \div 10) * 100 + (i % 10) + 1
RECURSIVE SortNames(_)
SortNames(S) == IF S = {} THEN <<>>
                ELSE LET m == CHOOSE x \in S : \A y \in S : IdxKey(x[3]) <= IdxKey(y[3])
                     IN <<m>> \o SortNames(S \ {m})
GroupOf(n) == <<n[1], n[2]>>
RECURSIVE ListGroups(_, _)
ListGroups(gs, names) == IF gs = {} THEN <<>>
                         ELSE LET g == CHOOSE x \in gs : \A y \in gs : x[1] * 100 + x[2] <= y[1] * 100 + y[2]
                              IN SortNames({n \in names : GroupOf(n) = g}) \o ListGroups(gs \ {g}, names)

-----------------------------------------------------------------------------
(* ---------------- restart: RecoverWALData, then RecoverMEntryWALData ---------------- *)
Restart == /\ phase = "down" /\ phase' = "recovering" /\ rpc' = "list"
           /\ UNCHANGED <<crashes, dvars, listing, grp, recBlock, toDelete, replayLog, flushLog, mvars, np>>
Recovering == phase = "recovering"
ListDir == /\ Recovering /\ rpc = "list"
           /\ listing' = ListGroups({GroupOf(n) : n \in DOMAIN wal}, DOMAIN wal)
           /\ rpc' = "file" /\ grp' = <<>> /\ recBlock' = <<>> /\ toDelete' = <<>>
           /\ UNCHANGED <<phase, crashes, dvars, replayLog, flushLog, mvars, np>>
\* one file: open, replay until the first bad block, delete the file
RecoverFile ==
    /\ Recovering /\ rpc = "file" /\ listing # <<>>
    /\ LET n == Head(listing)
           f == IF n \in DOMAIN wal THEN wal[n] ELSE EmptyFile
           stale == KeepFlushedBlock /\ blockFile[GroupOf(n)].st = "ok"
           rd == IF stale THEN <<>> ELSE ReadFile(f)
           lastOfGroup == Len(listing) = 1 \/ GroupOf(listing[2]) # GroupOf(n)
       IN /\ grp' = GroupOf(n) /\ recBlock' = recBlock \o rd
          /\ replayLog' = IF stale \/ n \notin DOMAIN wal THEN replayLog ELSE replayLog \cup {[name |-> n, read |-> rd, at |-> crashes]}
          /\ IF Openable(f) /\ n \in DOMAIN wal
             THEN IF FlushBeforeDelete /\ ~stale THEN toDelete' = Append(toDelete, n) /\ UNCHANGED <<wal, np>>
                  ELSE /\ wal' = Remove(wal, n) /\ UNCHANGED toDelete
                       /\ np' = IF n = NpName /\ np.st \notin {"off", "dead"} THEN [np EXCEPT !.unlinked = TRUE] ELSE np
             ELSE UNCHANGED <<wal, toDelete, np>>
          /\ listing' = Tail(listing)
          /\ rpc' = (IF lastOfGroup THEN "flushA" ELSE "file")
    /\ UNCHANGED <<phase, crashes, cur, allWals, mem, buf, inflight, pc, next, appended, blockFile, fault, flushLog, mvars>>
\* flushBlock of the rebuilt block: .tso/.tsg are O_TRUNC-created (FlushA), then written (FlushB)
FlushA == /\ Recovering /\ rpc = "flushA"
          /\ IF recBlock = <<>> THEN rpc' = "del" /\ UNCHANGED blockFile
             ELSE blockFile' = [blockFile EXCEPT ![grp] = [st |-> "partial", dps |-> <<>>]] /\ rpc' = "flushB"
          /\ UNCHANGED <<phase, crashes, wal, cur, allWals, mem, buf, inflight, pc, next, appended, fault,
                         listing, grp, recBlock, toDelete, replayLog, flushLog, mvars, np>>
FlushB == /\ Recovering /\ rpc = "flushB"
          /\ blockFile' = [blockFile EXCEPT ![grp] = [st |-> "ok", dps |-> recBlock]]
          /\ flushLog' = flushLog \cup {recBlock} /\ rpc' = "del"
          /\ UNCHANGED <<phase, crashes, wal, cur, allWals, mem, buf, inflight, pc, next, appended, fault,
                         listing, grp, recBlock, toDelete, replayLog, mvars, np>>
DeleteAfterFlush ==
    /\ Recovering /\ rpc = "del"
    /\ IF toDelete # <<>>
       THEN /\ wal' = Remove(wal, Head(toDelete)) /\ toDelete' = Tail(toDelete)
            /\ np' = IF Head(toDelete) = NpName /\ np.st \notin {"off", "dead"} THEN [np EXCEPT !.unlinked = TRUE] ELSE np
            /\ UNCHANGED <<rpc, recBlock>>
       ELSE /\ rpc' = (IF listing = <<>> THEN "meta" ELSE "file") /\ recBlock' = <<>> /\ UNCHANGED <<wal, toDelete, np>>
    /\ UNCHANGED <<phase, crashes, cur, allWals, mem, buf, inflight, pc, next, appended, blockFile, fault,
                   listing, grp, replayLog, flushLog, mvars>>
NoFilesAtAll == /\ Recovering /\ rpc = "file" /\ listing = <<>> /\ rpc' = "meta"
                /\ UNCHANGED <<phase, crashes, dvars, listing, grp, recBlock, toDelete, replayLog, flushLog, mvars, np>>
RecoverMeta == /\ Recovering /\ rpc = "meta" /\ mrecovered' = MRead(mfile) /\ rpc' = "done" /\ phase' = "done"
               /\ mseg' = [mseg EXCEPT !.rec = (MRead(mfile) # 0 /\ mfile.seg)]
               /\ UNCHANGED <<crashes, dvars, listing, grp, recBlock, toDelete, replayLog, flushLog,
                              mfile, mtmp, mpc, mval, mnext, mlogged, mfault, np>>

-----------------------------------------------------------------------------
(* ---------------- the restarted process ingests while recovery runs (initOrgMetrics on the first datapoint) ------- *)
NpActive == Recovering /\ StartupIngest
NpStep(st1, st2) == np.st = st1 /\ np' = [np EXCEPT !.st = st2]
NpFileThere == NpName \in DOMAIN wal /\ ~np.unlinked
NpInitMeta == /\ NpActive /\ NpStep("off", "mver") /\ mfile' = MEmpty          \* initNewMEntryWAL: O_TRUNC
              /\ UNCHANGED <<phase, crashes, dvars, rvars, mtmp, mpc, mval, mnext, mlogged, mfault, mrecovered, mseg>>
NpMetaVer == /\ NpActive /\ NpStep("mver", "mk") /\ mfile' = [mfile EXCEPT !.ver = "ok"]
             /\ UNCHANGED <<phase, crashes, dvars, rvars, mtmp, mpc, mval, mnext, mlogged, mfault, mrecovered, mseg>>
NpCreateWal == /\ NpActive /\ NpStep("mk", "ver") /\ wal' = (NpName :> EmptyFile) @@ wal
               /\ UNCHANGED <<phase, crashes, cur, allWals, mem, buf, inflight, pc, next, appended, blockFile, fault, rvars, mvars>>
NpWalVer == /\ NpActive /\ NpStep("ver", "idle")
            /\ wal' = IF NpFileThere THEN [wal EXCEPT ![NpName].ver = "ok"] ELSE wal
            /\ UNCHANGED <<phase, crashes, cur, allWals, mem, buf, inflight, pc, next, appended, blockFile, fault, rvars, mvars>>
NpBuffer == /\ NpActive /\ np.st = "idle" /\ Len(np.napp) + Len(np.nbuf) < NpDp
            /\ np' = [np EXCEPT !.nbuf = Append(@, 101 + Len(np.napp) + Len(np.nbuf))]
            /\ UNCHANGED <<phase, crashes, dvars, rvars, mvars>>
NpAppend(st1, st2, fld) ==
    /\ NpActive /\ np.st = st1 /\ (st1 = "idle" => np.nbuf # <<>>)
    /\ wal' = IF ~NpFileThere THEN wal                                 \* the writes go to an unlinked inode
              ELSE IF fld = "len" THEN [wal EXCEPT ![NpName].blocks = Append(@, [len |-> "ok", crc |-> "none", pay |-> "none", dps |-> np.nbuf])]
              ELSE SetLast(NpName, fld, "ok")
    /\ np' = IF fld = "pay" THEN [np EXCEPT !.st = st2, !.napp = @ \o np.nbuf, !.nbuf = <<>>] ELSE [np EXCEPT !.st = st2]
    /\ UNCHANGED <<phase, crashes, cur, allWals, mem, buf, inflight, pc, next, appended, blockFile, fault, rvars, mvars>>
NpAppendLen == NpAppend("idle", "crc", "len")
NpAppendCrc == NpAppend("crc", "pay", "crc")
NpAppendPayload == NpAppend("pay", "idle", "pay")

-----------------------------------------------------------------------------
Names == {<<s, b, i>> : s \in 0..1, b \in 0..MaxBlk, i \in 0..MaxIdx}
Where == Regions \cup {"ver", "boundary"}
Next == \/ Buffer \/ AppendLen \/ AppendCrc \/ AppendPayload \/ RotateWal \/ WriteVer
        \/ RotateBlock \/ BlockFileWrite \/ DeleteOnBlockRotate \/ NextBlockWal
        \/ Truncate0 \/ WriteVersion \/ WriteBlockLen \/ WriteBlockCrc \/ WriteBlockPay \/ MetaRename
        \/ Crash \/ Restart
        \/ \E n \in Names, k \in 0..MaxDp, r \in Where : Truncate(n, k, r)
        \/ \E n \in Names, k \in 0..MaxDp, r \in Where : FlipByte(n, k, r)
        \/ \E kind \in {"flip", "trunc"}, r \in {"ver", "len", "crc", "pay"} : MetaDamage(kind, r)
        \/ ListDir \/ RecoverFile \/ FlushA \/ FlushB \/ DeleteAfterFlush \/ NoFilesAtAll \/ RecoverMeta
        \/ NpInitMeta \/ NpMetaVer \/ NpCreateWal \/ NpWalVer \/ NpBuffer \/ NpAppendLen \/ NpAppendCrc \/ NpAppendPayload
Spec == Init /\ [][Next]_vars

-----------------------------------------------------------------------------
(* ---------------- properties (C10) ---------------- *)
RECURSIVE Flat(_)
Flat(ss) == IF ss = <<>> THEN <<>> ELSE Head(ss) \o Flat(Tail(ss))
RECURSIVE SelectBlocks(_, _)
SelectBlocks(h, n) == IF h = <<>> THEN <<>>
                      ELSE (IF Head(h).name = n THEN <<Head(h).dps>> ELSE <<>>) \o SelectBlocks(Tail(h), n)
AppendedTo(n) == SelectBlocks(appended, n)                      \* completed blocks of file n, in order
SeqSet(s) == {s[i] : i \in DOMAIN s}
IsBlockPrefix(s, blocks) == \E j \in 0..Len(blocks) : s = Flat(SubSeq(blocks, 1, j))
Done == phase = "done"
Stored == UNION {SeqSet(blockFile[g].dps) : g \in {x \in Groups : blockFile[x].st = "ok"}}
OldNames == {n \in Names : n[1] = 0}

\* what a recovery step read from a log file is a block-prefix of what had been appended to that file
PrefixPerFile == \A e \in replayLog : e.name \in OldNames => IsBlockPrefix(e.read, AppendedTo(e.name))
\* nothing that was never ingested is ever stored or replayed
NoInvent == /\ Stored \subseteq (1..MaxDp) \cup (101..100 + NpDp)
            /\ \A e \in replayLog : SeqSet(e.read) \subseteq (1..MaxDp) \cup (101..100 + NpDp)
\* a damaged block (and whatever follows it in that file) is not replayed
BlocksBefore(n, k) == Flat(SubSeq(AppendedTo(n), 1, k - 1))
Rejected == fault.kind # "none" =>
              \A e \in replayLog : (e.name = fault.name /\ e.at >= fault.at) => \E j \in 0..Len(BlocksBefore(fault.name, fault.k)) :
                                                             e.read = SubSeq(BlocksBefore(fault.name, fault.k), 1, j)
\* a rebuilt block holds its datapoints in ingest order, none twice
InOrder == \A s \in flushLog : \A i, j \in DOMAIN s : i < j => s[i] < s[j]
\* every append that had completed is stored after recovery (datapoints in / behind a damaged block of the damaged file excused)
Excused(i) == /\ fault.kind # "none" /\ appended[i].name = fault.name
              /\ Len(SelectBlocks(SubSeq(appended, 1, i), fault.name)) >= fault.k
Durable == Done => \A i \in DOMAIN appended : Excused(i) \/ SeqSet(appended[i].dps) \subseteq Stored
\* without damage the first recovery reads every completed block of every file it opens
CompleteReplay == (fault.kind = "none" /\ crashes <= 1) =>
                     \A e \in replayLog : e.name \in OldNames => e.read = Flat(AppendedTo(e.name))
\* the meta entry whose log write had completed is what recovery reads; nothing else
MetaDurable == (Done /\ mfault = "none" /\ mlogged # 0) => mrecovered = mlogged
\* the entry of a segment that has a flushed block and whose entry had been logged is still logged after recovery: a later
\* rewrite of the whole file must not leave a live segment out (state reached: flushed block, EMPTY current block, rewrite, Crash)
SegHasFlushedBlock == \E b \in 0..MaxBlk : blockFile[<<0, b>>].st = "ok"
MetaSegDurable == (Done /\ mfault = "none" /\ mseg.ever /\ SegHasFlushedBlock) => mseg.rec
MetaNoInvent == mrecovered \in 0..MaxMeta /\ (mfault # "none" => mrecovered \in {0, mlogged})
\* recovery never deletes the log file the restarted process has open
NewProcWalIntact == ~np.unlinked

TypeOK == /\ phase \in {"run", "down", "recovering", "done"}
          /\ pc \in {"idle", "crc", "pay", "mkver", "rbB", "rbdel"}
          /\ rpc \in {"off", "list", "file", "flushA", "flushB", "del", "meta", "done"}
          /\ mpc \in {"idle", "ver", "len", "crc", "pay", "ren"}
=============================================================================
