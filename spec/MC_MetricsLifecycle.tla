------------------------- MODULE MC_MetricsLifecycle -------------------------
EXTENDS MetricsLifecycle
SeriesC == {"s1", "s2", "s3"}
GroupsC == {{"s1", "s2"}, {"s3"}}
View == <<open, blocks, rotated, acc, last, tmem, tdisk, hrot, firstseg, nputs, nrestarts>>
=============================================================================
