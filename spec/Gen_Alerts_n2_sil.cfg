SPECIFICATION GenSpec
CONSTANTS
  N = 2
  Cool = 2
  SilLen = 2
  MaxEvals = 4
  MaxDt = 2
  MaxEdits = 0
  MaxSil = 2
  MaxFails = 0
  RowsDelta = 0
CONSTRAINT Emit
CHECK_DEADLOCK FALSE
