---- MODULE Visibility_TTrace_1790382193 ----
EXTENDS Sequences, TLCExt, Toolbox, Naturals, TLC, Visibility

_expression ==
    LET Visibility_TEExpression == INSTANCE Visibility_TEExpression
    IN Visibility_TEExpression!expression
----

_trace ==
    LET Visibility_TETrace == INSTANCE Visibility_TETrace
    IN Visibility_TETrace!trace
----

_inv ==
    ~(
        TLCGet("level") = Len(_TETrace)
        /\
        snapR = ({1})
        /\
        asU = ({})
        /\
        snapU = ({})
        /\
        qpc = ("done")
        /\
        opened = ({1})
        /\
        segs = (<<[ev |-> 1..1, inU |-> FALSE, inR |-> TRUE]>>)
        /\
        wpc = ("rrem")
        /\
        visAtStart = ({})
        /\
        result = (<<1>>)
        /\
        nextId = (2)
        /\
        nflush = (0)
        /\
        damaged = ({1})
        /\
        nrot = (1)
        /\
        openU = ({1})
        /\
        plan = (<<[ev |-> <<1>>, seg |-> 1]>>)
        /\
        wip = ({})
    )
----

_init ==
    /\ segs = _TETrace[1].segs
    /\ nflush = _TETrace[1].nflush
    /\ visAtStart = _TETrace[1].visAtStart
    /\ snapR = _TETrace[1].snapR
    /\ snapU = _TETrace[1].snapU
    /\ nextId = _TETrace[1].nextId
    /\ wip = _TETrace[1].wip
    /\ nrot = _TETrace[1].nrot
    /\ opened = _TETrace[1].opened
    /\ openU = _TETrace[1].openU
    /\ result = _TETrace[1].result
    /\ damaged = _TETrace[1].damaged
    /\ plan = _TETrace[1].plan
    /\ qpc = _TETrace[1].qpc
    /\ wpc = _TETrace[1].wpc
    /\ asU = _TETrace[1].asU
----

_next ==
    /\ \E i,j \in DOMAIN _TETrace:
        /\ \/ /\ j = i + 1
              /\ i = TLCGet("level")
        /\ segs  = _TETrace[i].segs
        /\ segs' = _TETrace[j].segs
        /\ nflush  = _TETrace[i].nflush
        /\ nflush' = _TETrace[j].nflush
        /\ visAtStart  = _TETrace[i].visAtStart
        /\ visAtStart' = _TETrace[j].visAtStart
        /\ snapR  = _TETrace[i].snapR
        /\ snapR' = _TETrace[j].snapR
        /\ snapU  = _TETrace[i].snapU
        /\ snapU' = _TETrace[j].snapU
        /\ nextId  = _TETrace[i].nextId
        /\ nextId' = _TETrace[j].nextId
        /\ wip  = _TETrace[i].wip
        /\ wip' = _TETrace[j].wip
        /\ nrot  = _TETrace[i].nrot
        /\ nrot' = _TETrace[j].nrot
        /\ opened  = _TETrace[i].opened
        /\ opened' = _TETrace[j].opened
        /\ openU  = _TETrace[i].openU
        /\ openU' = _TETrace[j].openU
        /\ result  = _TETrace[i].result
        /\ result' = _TETrace[j].result
        /\ damaged  = _TETrace[i].damaged
        /\ damaged' = _TETrace[j].damaged
        /\ plan  = _TETrace[i].plan
        /\ plan' = _TETrace[j].plan
        /\ qpc  = _TETrace[i].qpc
        /\ qpc' = _TETrace[j].qpc
        /\ wpc  = _TETrace[i].wpc
        /\ wpc' = _TETrace[j].wpc
        /\ asU  = _TETrace[i].asU
        /\ asU' = _TETrace[j].asU

\* Uncomment the ASSUME below to write the states of the error trace
\* to the given file in Json format. Note that you can pass any tuple
\* to `JsonSerialize`. For example, a sub-sequence of _TETrace.
    \* ASSUME
    \*     LET J == INSTANCE Json
    \*         IN J!JsonSerialize("Visibility_TTrace_1790382193.json", _TETrace)

=============================================================================

 Note that you can extract this module `Visibility_TEExpression`
  to a dedicated file to reuse `expression` (the module in the 
  dedicated `Visibility_TEExpression.tla` file takes precedence 
  over the module `Visibility_TEExpression` below).

---- MODULE Visibility_TEExpression ----
EXTENDS Sequences, TLCExt, Toolbox, Naturals, TLC, Visibility

expression == 
    [
        \* To hide variables of the `Visibility` spec from the error trace,
        \* remove the variables below.  The trace will be written in the order
        \* of the fields of this record.
        segs |-> segs
        ,nflush |-> nflush
        ,visAtStart |-> visAtStart
        ,snapR |-> snapR
        ,snapU |-> snapU
        ,nextId |-> nextId
        ,wip |-> wip
        ,nrot |-> nrot
        ,opened |-> opened
        ,openU |-> openU
        ,result |-> result
        ,damaged |-> damaged
        ,plan |-> plan
        ,qpc |-> qpc
        ,wpc |-> wpc
        ,asU |-> asU
        
        \* Put additional constant-, state-, and action-level expressions here:
        \* ,_stateNumber |-> _TEPosition
        \* ,_segsUnchanged |-> segs = segs'
        
        \* Format the `segs` variable as Json value.
        \* ,_segsJson |->
        \*     LET J == INSTANCE Json
        \*     IN J!ToJson(segs)
        
        \* Lastly, you may build expressions over arbitrary sets of states by
        \* leveraging the _TETrace operator.  For example, this is how to
        \* count the number of times a spec variable changed up to the current
        \* state in the trace.
        \* ,_segsModCount |->
        \*     LET F[s \in DOMAIN _TETrace] ==
        \*         IF s = 1 THEN 0
        \*         ELSE IF _TETrace[s].segs # _TETrace[s-1].segs
        \*             THEN 1 + F[s-1] ELSE F[s-1]
        \*     IN F[_TEPosition - 1]
    ]

=============================================================================



Parsing and semantic processing can take forever if the trace below is long.
 In this case, it is advised to uncomment the module below to deserialize the
 trace from a generated binary file.

\*
\*---- MODULE Visibility_TETrace ----
\*EXTENDS IOUtils, TLC, Visibility
\*
\*trace == IODeserialize("Visibility_TTrace_1790382193.bin", TRUE)
\*
\*=============================================================================
\*

---- MODULE Visibility_TETrace ----
EXTENDS TLC, Visibility

trace == 
    <<
    ([snapR |-> {},asU |-> {},snapU |-> {},qpc |-> "none",opened |-> {},segs |-> <<[ev |-> {}, inU |-> FALSE, inR |-> FALSE]>>,wpc |-> "idle",visAtStart |-> {},result |-> <<>>,nextId |-> 1,nflush |-> 0,damaged |-> {},nrot |-> 0,openU |-> {},plan |-> <<>>,wip |-> {}]),
    ([snapR |-> {},asU |-> {},snapU |-> {},qpc |-> "snapU",opened |-> {},segs |-> <<[ev |-> {}, inU |-> FALSE, inR |-> FALSE]>>,wpc |-> "idle",visAtStart |-> {},result |-> <<>>,nextId |-> 1,nflush |-> 0,damaged |-> {},nrot |-> 0,openU |-> {},plan |-> <<>>,wip |-> {}]),
    ([snapR |-> {},asU |-> {},snapU |-> {},qpc |-> "snapU",opened |-> {},segs |-> <<[ev |-> {}, inU |-> FALSE, inR |-> FALSE]>>,wpc |-> "idle",visAtStart |-> {},result |-> <<>>,nextId |-> 2,nflush |-> 0,damaged |-> {},nrot |-> 0,openU |-> {},plan |-> <<>>,wip |-> 1..1]),
    ([snapR |-> {},asU |-> {},snapU |-> {},qpc |-> "snapU",opened |-> {},segs |-> <<[ev |-> 1..1, inU |-> TRUE, inR |-> TRUE]>>,wpc |-> "rmeta",visAtStart |-> {},result |-> <<>>,nextId |-> 2,nflush |-> 0,damaged |-> {},nrot |-> 1,openU |-> {},plan |-> <<>>,wip |-> {}]),
    ([snapR |-> {1},asU |-> {},snapU |-> {},qpc |-> "snapR",opened |-> {},segs |-> <<[ev |-> 1..1, inU |-> TRUE, inR |-> TRUE]>>,wpc |-> "rmeta",visAtStart |-> {},result |-> <<>>,nextId |-> 2,nflush |-> 0,damaged |-> {},nrot |-> 1,openU |-> {},plan |-> <<>>,wip |-> {}]),
    ([snapR |-> {1},asU |-> {},snapU |-> {},qpc |-> "checked",opened |-> {},segs |-> <<[ev |-> 1..1, inU |-> TRUE, inR |-> TRUE]>>,wpc |-> "rmeta",visAtStart |-> {},result |-> <<>>,nextId |-> 2,nflush |-> 0,damaged |-> {},nrot |-> 1,openU |-> {},plan |-> <<>>,wip |-> {}]),
    ([snapR |-> {1},asU |-> {},snapU |-> {},qpc |-> "planned",opened |-> {},segs |-> <<[ev |-> 1..1, inU |-> TRUE, inR |-> TRUE]>>,wpc |-> "rmeta",visAtStart |-> {},result |-> <<>>,nextId |-> 2,nflush |-> 0,damaged |-> {},nrot |-> 1,openU |-> {},plan |-> <<[ev |-> <<1>>, seg |-> 1]>>,wip |-> {}]),
    ([snapR |-> {1},asU |-> {},snapU |-> {},qpc |-> "ochecked",opened |-> {},segs |-> <<[ev |-> 1..1, inU |-> TRUE, inR |-> TRUE]>>,wpc |-> "rmeta",visAtStart |-> {},result |-> <<>>,nextId |-> 2,nflush |-> 0,damaged |-> {},nrot |-> 1,openU |-> {1},plan |-> <<[ev |-> <<1>>, seg |-> 1]>>,wip |-> {}]),
    ([snapR |-> {1},asU |-> {},snapU |-> {},qpc |-> "opened",opened |-> {1},segs |-> <<[ev |-> 1..1, inU |-> TRUE, inR |-> TRUE]>>,wpc |-> "rmeta",visAtStart |-> {},result |-> <<>>,nextId |-> 2,nflush |-> 0,damaged |-> {},nrot |-> 1,openU |-> {1},plan |-> <<[ev |-> <<1>>, seg |-> 1]>>,wip |-> {}]),
    ([snapR |-> {1},asU |-> {},snapU |-> {},qpc |-> "fchecked",opened |-> {1},segs |-> <<[ev |-> 1..1, inU |-> TRUE, inR |-> TRUE]>>,wpc |-> "rmeta",visAtStart |-> {},result |-> <<>>,nextId |-> 2,nflush |-> 0,damaged |-> {},nrot |-> 1,openU |-> {1},plan |-> <<[ev |-> <<1>>, seg |-> 1]>>,wip |-> {}]),
    ([snapR |-> {1},asU |-> {},snapU |-> {},qpc |-> "fchecked",opened |-> {1},segs |-> <<[ev |-> 1..1, inU |-> FALSE, inR |-> TRUE]>>,wpc |-> "rrem",visAtStart |-> {},result |-> <<>>,nextId |-> 2,nflush |-> 0,damaged |-> {},nrot |-> 1,openU |-> {1},plan |-> <<[ev |-> <<1>>, seg |-> 1]>>,wip |-> {}]),
    ([snapR |-> {1},asU |-> {},snapU |-> {},qpc |-> "done",opened |-> {1},segs |-> <<[ev |-> 1..1, inU |-> FALSE, inR |-> TRUE]>>,wpc |-> "rrem",visAtStart |-> {},result |-> <<1>>,nextId |-> 2,nflush |-> 0,damaged |-> {1},nrot |-> 1,openU |-> {1},plan |-> <<[ev |-> <<1>>, seg |-> 1]>>,wip |-> {}])
    >>
----


=============================================================================

---- CONFIG Visibility_TTrace_1790382193 ----
CONSTANTS
    MaxEvents = 4
    MaxFlush = 2
    MaxRot = 2
    Dedup = TRUE
    Recheck = TRUE
    ReaderFallback = FALSE

INVARIANT
    _inv

CHECK_DEADLOCK
    \* CHECK_DEADLOCK off because of PROPERTY or INVARIANT above.
    FALSE

INIT
    _init

NEXT
    _next

CONSTANT
    _TETrace <- _trace

ALIAS
    _expression
=============================================================================
\* Generated on Sat Sep 26 00:23:13 UTC 2026