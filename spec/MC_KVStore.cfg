SPECIFICATION Spec
CONSTANTS
  Tenants <- T2
  Keys <- K2
  Ops <- OpsAll
  MaxOps = 4
  MaxRestarts = 2
  Strict = TRUE
  Policy <- PolUnique
  ReloadSkips <- NoTenants
  CleanFlush = "none"
CHECK_DEADLOCK FALSE
INVARIANTS ReadsLastWritten Durable NothingInvented PolicyAdmissible TypeOK
PROPERTIES Isolation
