"""Crash-state enumeration from one recorded run (process-crash model: completed system calls persist).

A writer process is run once under `strace -f`; every file-system mutating system call that touches the data
directory (or the marker file) is parsed, in completion order, into an operation list.  The durable state after a
crash at instant i is exactly the result of replaying operations 1..i on an empty directory, so ONE run yields every
crash point of that run; each state is then handed to a fresh engine process for recovery.  (A call that was still in
flight at the crash is not applied: the model says completed calls persist.)
"""
import os
import re
import shutil
import subprocess

TRACE_CALLS = ("openat,open,creat,write,pwrite64,writev,pwritev,rename,renameat,renameat2,unlink,unlinkat,rmdir,mkdir,mkdirat,"
               "ftruncate,truncate,lseek,close,link,linkat,symlink,symlinkat,copy_file_range,sendfile,fallocate,dup,dup2,dup3")

_line = re.compile(r"^(\d+)\s+(.*)$")
_unfinished = re.compile(r"^(\w+)\((.*) <unfinished \.\.\.>$")
_resumed = re.compile(r"^<\.\.\. (\w+) resumed>(.*)$")
_call = re.compile(r"^(\w+)\((.*)\)\s+= (-?\d+|\?)(.*)$", re.S)


def record(cmd, stdin_path, trace_path, env=None, timeout=300, cwd=None):
    """Run cmd under strace; returns the process return code."""
    full = ["strace", "-f", "-y", "-xx", "-s", "33554432", "-e", "trace=" + TRACE_CALLS, "-o", trace_path] + cmd
    with open(stdin_path, "rb") as fin:
        p = subprocess.run(full, stdin=fin, stdout=subprocess.DEVNULL, stderr=subprocess.DEVNULL, env=env, timeout=timeout, cwd=cwd)
    return p.returncode


def _unhex(s):
    """strace -xx string literal body -> bytes"""
    out = bytearray()
    i = 0
    n = len(s)
    while i < n:
        if s[i] == "\\" and i + 3 < n and s[i + 1] == "x":
            out.append(int(s[i + 2:i + 4], 16))
            i += 4
        elif s[i] == "\\" and i + 1 < n:
            out.append({"n": 10, "t": 9, "r": 13, "\\": 92, '"': 34, "0": 0}.get(s[i + 1], ord(s[i + 1])))
            i += 2
        else:
            out.append(ord(s[i]))
            i += 1
    return bytes(out)


def _split_args(a):
    """split top-level comma separated arguments, respecting quotes, <...> and [...] {...}"""
    parts, cur, depth, inq, i = [], [], 0, False, 0
    while i < len(a):
        c = a[i]
        if inq:
            cur.append(c)
            if c == "\\":
                i += 1
                cur.append(a[i])
            elif c == '"':
                inq = False
        else:
            if c == '"':
                inq = True
                cur.append(c)
            elif c in "<[{(":
                depth += 1
                cur.append(c)
            elif c in ">]})":
                depth -= 1
                cur.append(c)
            elif c == "," and depth == 0:
                parts.append("".join(cur).strip())
                cur = []
            else:
                cur.append(c)
        i += 1
    if cur:
        parts.append("".join(cur).strip())
    return parts


def _fd(arg):
    m = re.match(r"^(-?\d+|AT_FDCWD)<(.*)>$", arg)
    if not m:
        m2 = re.match(r"^(-?\d+|AT_FDCWD)$", arg)
        return (m2.group(1) if m2 else arg), None
    return m.group(1), _unhex(m.group(2)).decode("utf8", "replace")


def _str(arg):
    m = re.match(r'^"(.*)"(\.\.\.)?$', arg, re.S)
    if not m:
        return None
    return _unhex(m.group(1))


def _path(dirarg, patharg):
    p = _str(patharg)
    if p is None:
        return None
    p = p.decode("utf8", "replace")
    if not p.startswith("/"):
        _, cwd = _fd(dirarg) if dirarg else (None, None)
        p = os.path.join(cwd or "/", p)
    return os.path.normpath(p)


def parse(trace_path, roots):
    """-> list of ops (dicts) in completion order restricted to paths under any of `roots` (absolute dirs/files).
    op kinds: create(path, trunc), write(path, off, data), truncate(path, len), rename(src,dst), unlink(path),
    rmdir(path), mkdir(path).  Each op carries 'pid' and 'n' (ordinal among all parsed calls)."""
    roots = [os.path.normpath(r) for r in roots]

    def inside(p):
        return p is not None and any(p == r or p.startswith(r + "/") for r in roots)
    pending = {}
    ops = []
    offs = {}      # fd number -> [path, offset, append]   (fd table is shared by all threads of the one process)
    n = 0
    unsupported = []
    with open(trace_path, errors="replace") as f:
        for raw in f:
            m = _line.match(raw.rstrip("\n"))
            if not m:
                continue
            pid, rest = m.group(1), m.group(2)
            mu = _unfinished.match(rest)
            if mu:
                pending[pid] = (mu.group(1), mu.group(2))
                if mu.group(1) == "close":
                    # the kernel releases the descriptor number when close() starts: another thread's openat can
                    # return the same number before this call is reported as finished.  Forget the descriptor now.
                    try:
                        fdn, _ = _fd(_split_args(mu.group(2))[0])
                        offs.pop(int(fdn), None)
                    except (IndexError, ValueError):
                        pass
                    pending[pid] = ("close_done", mu.group(2))
                continue
            mr = _resumed.match(rest)
            if mr:
                name, first = pending.pop(pid, (mr.group(1), ""))
                if name == "close_done":
                    continue
                rest = "%s(%s%s" % (name, first, mr.group(2))
            mc = _call.match(rest)
            if not mc:
                continue
            name, args, ret = mc.group(1), mc.group(2), mc.group(3)
            if ret == "?" or int(ret) < 0:
                continue
            ret = int(ret)
            a = _split_args(args)
            n += 1
            try:
                if name in ("openat", "open", "creat"):
                    if name == "openat":
                        path, flags = _path(a[0], a[1]), a[2]
                    elif name == "open":
                        path, flags = _path(None, a[0]), a[1]
                    else:
                        path, flags = _path(None, a[0]), "O_CREAT|O_WRONLY|O_TRUNC"
                    offs[ret] = [path, 0, "O_APPEND" in flags]
                    if inside(path) and ("O_CREAT" in flags or "O_TRUNC" in flags):
                        ops.append({"k": "create", "path": path, "trunc": "O_TRUNC" in flags, "creat": "O_CREAT" in flags, "pid": pid, "n": n})
                elif name == "close":
                    fdn, _ = _fd(a[0])
                    offs.pop(int(fdn), None)
                elif name == "close_done":
                    pass
                elif name in ("dup", "dup2", "dup3"):
                    fdn, _ = _fd(a[0])
                    if int(fdn) in offs:
                        offs[ret] = offs[int(fdn)]
                elif name == "lseek":
                    fdn, _ = _fd(a[0])
                    if int(fdn) in offs:
                        offs[int(fdn)][1] = ret
                elif name in ("write", "pwrite64"):
                    fdn, path = _fd(a[0])
                    fdn = int(fdn)
                    data = _str(a[1])
                    if data is None:
                        continue
                    data = data[:ret]
                    st = offs.get(fdn)
                    if name == "pwrite64":
                        off = int(a[3])
                    elif st is not None and st[2]:
                        off = -1     # append
                    else:
                        off = st[1] if st is not None else 0
                        if st is not None:
                            st[1] += ret
                    if inside(path):
                        ops.append({"k": "write", "path": os.path.normpath(path), "off": off, "data": data, "pid": pid, "n": n})
                elif name in ("writev", "pwritev", "copy_file_range", "sendfile", "fallocate", "link", "linkat", "symlink", "symlinkat"):
                    if any(r in args for r in roots):
                        unsupported.append(name)
                elif name in ("ftruncate", "truncate"):
                    if name == "ftruncate":
                        _, path = _fd(a[0])
                    else:
                        path = _path(None, a[0])
                    if inside(path):
                        ops.append({"k": "truncate", "path": os.path.normpath(path), "len": int(a[1]), "pid": pid, "n": n})
                elif name in ("rename", "renameat", "renameat2"):
                    if name == "rename":
                        src, dst = _path(None, a[0]), _path(None, a[1])
                    else:
                        src, dst = _path(a[0], a[1]), _path(a[2], a[3])
                    if inside(src) or inside(dst):
                        ops.append({"k": "rename", "src": src, "dst": dst, "pid": pid, "n": n})
                elif name in ("unlink", "unlinkat", "rmdir"):
                    if name == "unlinkat":
                        path = _path(a[0], a[1])
                        isdir = "AT_REMOVEDIR" in a[2]
                    else:
                        path = _path(None, a[0])
                        isdir = name == "rmdir"
                    if inside(path):
                        ops.append({"k": "rmdir" if isdir else "unlink", "path": path, "pid": pid, "n": n})
                elif name in ("mkdir", "mkdirat"):
                    path = _path(a[0], a[1]) if name == "mkdirat" else _path(None, a[0])
                    if inside(path):
                        ops.append({"k": "mkdir", "path": path, "pid": pid, "n": n})
            except (IndexError, ValueError):
                continue
    return ops, sorted(set(unsupported))


class Replayer:
    """Applies ops one by one onto `dest`, mapping absolute paths under `root` to dest/<relative>."""

    def __init__(self, root, dest):
        self.root = os.path.normpath(root)
        self.dest = dest
        os.makedirs(dest, exist_ok=True)

    def _map(self, p):
        p = os.path.normpath(p)
        if p == self.root:
            return self.dest
        if not p.startswith(self.root + "/"):
            return None
        return os.path.join(self.dest, p[len(self.root) + 1:])

    def apply(self, op):
        k = op["k"]
        if k == "rename":
            s, d = self._map(op["src"]), self._map(op["dst"])
            if s and d and os.path.lexists(s):
                os.makedirs(os.path.dirname(d), exist_ok=True)
                os.replace(s, d)
            return
        p = self._map(op["path"])
        if p is None:
            return
        if k == "mkdir":
            os.makedirs(p, exist_ok=True)
        elif k == "create":
            if not os.path.exists(p):
                if op["creat"]:
                    os.makedirs(os.path.dirname(p), exist_ok=True)
                    open(p, "wb").close()
            elif op["trunc"]:
                open(p, "wb").close()
        elif k == "write":
            if not os.path.exists(p):
                os.makedirs(os.path.dirname(p), exist_ok=True)
                open(p, "wb").close()
            with open(p, "r+b") as f:
                if op["off"] < 0:
                    f.seek(0, 2)
                else:
                    f.seek(op["off"])
                f.write(op["data"])
        elif k == "truncate":
            if os.path.exists(p):
                with open(p, "r+b") as f:
                    f.truncate(op["len"])
        elif k == "unlink":
            if os.path.lexists(p):
                os.unlink(p)
        elif k == "rmdir":
            if os.path.isdir(p):
                shutil.rmtree(p, ignore_errors=True)


def file_class(path):
    """coarse class of a data-directory file (used to label crash points with spec actions)"""
    b = os.path.basename(path)
    for suf, cls in ((".csg", "csg"), (".cmi", "cmi"), (".bsu", "bsu"), (".sst.tmp", "ssttmp"), (".sst", "sst"), (".sfm.tmp", "sfmtmp"), (".sfm", "sfm"),
                     (".pqmr", "pqmr"), (".crup", "rup"), (".suffix", "suffix"), ("segmeta.json", "segmeta"), (".strm.tmp", "strmtmp"), (".strm", "strm"), (".strl", "strl"),
                     (".wal", "wal"), (".tso", "tso"), (".tsg", "tsg"), (".mbsu", "mbsu"), (".mnm", "mnm"), ("metricmeta.json", "metricmeta"),
                     ("segment-validity.json", "validity"), (".srt", "sortidx")):
        if b.endswith(suf):
            return cls
    return "other"
