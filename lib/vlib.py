"""Shared machinery for the /verif checks (python3 stdlib only).

  * build helpers for the Go harnesses (always rebuilt from /repo's working tree)
  * Driver: one sigdrv process (= one server life) speaking JSON lines
  * TLC runner / behaviour exporter / trace validator
  * verdict + evidence + known-findings handling

Verdict discipline (DESIGN.md section 1): exit 1 only when the REAL code showed
behaviour contradicting the property; infrastructure trouble is exit 2.
"""
import atexit
import concurrent.futures as cf
import fcntl
import hashlib
import json
import os
import random
import re
import shutil
import subprocess
import sys
import tempfile
import threading
import time

VERIF = os.path.dirname(os.path.dirname(os.path.abspath(__file__)))
REPO = os.environ.get("VERIF_REPO", "/repo")
SPEC = os.path.join(VERIF, "spec")
BUILD = os.path.join(VERIF, ".build")
SCRATCH_ROOT = os.environ.get("VERIF_SCRATCH", os.path.join(VERIF, ".scratch"))
EVID = os.path.join(VERIF, "evidence")
REPLAYS = os.path.join(VERIF, ".replays")
NCPU = os.cpu_count() or 4

GOENV = dict(os.environ)
GOENV.update({"GOFLAGS": "-mod=mod", "GOPROXY": "off", "GOSUMDB": "off", "GOTOOLCHAIN": "local",
              "CGO_ENABLED": "1"})


class Infra(Exception):
    """Infrastructure failure: never a violation (exit 2)."""


def log(*a):
    print(*a, file=sys.stderr, flush=True)


# --------------------------------------------------------------------------- scratch

def scratch(prefix):
    os.makedirs(SCRATCH_ROOT, exist_ok=True)
    return tempfile.mkdtemp(prefix=prefix + "-", dir=SCRATCH_ROOT)


def rmtree(p):
    shutil.rmtree(p, ignore_errors=True)


# --------------------------------------------------------------------------- go builds

_build_lock = threading.Lock()
_built = {}
_tmp_bins = []


def _cleanup_bins():
    for p in _tmp_bins:
        try:
            os.unlink(p)
        except OSError:
            pass


atexit.register(_cleanup_bins)


def build_driver(name="sigdrv", tags="verif", race=False):
    """Build harness/<name> against REPO's current working tree (export shims from harness/overlay are injected
    with -overlay).  Safe against concurrent builds (flock per (name, REPO)); returns a per-process copy of the binary."""
    key = (name, tags, race)
    with _build_lock:
        if key in _built:
            return _built[key]
        src = os.path.join(VERIF, "harness", name)
        rh = hashlib.sha1(REPO.encode()).hexdigest()[:8]
        bdir = os.path.join(BUILD, "%s-%s%s%s" % (name, rh, "-race" if race else "", "" if tags else "-notag"))
        os.makedirs(bdir, exist_ok=True)
        os.makedirs(os.path.join(BUILD, "bin"), exist_ok=True)
        lockf = open(os.path.join(bdir, ".lock"), "w")
        fcntl.flock(lockf, fcntl.LOCK_EX)
        try:
            # fresh copy of the sources (so go.mod/go.sum rewriting never dirties the git tree)
            for f in os.listdir(bdir):
                if f.endswith(".go") or f in ("go.mod", "go.sum"):
                    os.unlink(os.path.join(bdir, f))
            for f in os.listdir(src):
                if f.endswith(".go") or f == "go.mod":
                    shutil.copy(os.path.join(src, f), bdir)
            gm = open(os.path.join(bdir, "go.mod")).read().replace("=> /repo", "=> " + REPO)
            open(os.path.join(bdir, "go.mod"), "w").write(gm)
            shutil.copy(os.path.join(REPO, "go.sum"), os.path.join(bdir, "go.sum"))
            out = os.path.join(bdir, name)
            ovroot = os.path.join(VERIF, "harness", "overlay")
            pairs = []
            for dp, _, fns in os.walk(ovroot):
                for fn in fns:
                    if fn.endswith(".go"):
                        full = os.path.join(dp, fn)
                        pairs.append((os.path.relpath(full, ovroot), full))
            ov = overlay_json(pairs, os.path.join(bdir, "overlay.json"))
            cmd = ["go", "build", "-overlay", ov, "-o", out]
            if tags:
                cmd += ["-tags", tags]
            if race:
                cmd += ["-race"]
            cmd += ["."]
            t0 = time.time()
            p = subprocess.run(cmd, cwd=bdir, env=GOENV, stdout=subprocess.PIPE, stderr=subprocess.STDOUT, text=True)
            if p.returncode != 0:
                raise Infra("go build %s failed:\n%s" % (name, p.stdout[-6000:]))
            log("[build] %s in %.1fs" % (name, time.time() - t0))
            mine = os.path.join(BUILD, "bin", "%s-%d-%d" % (name, os.getpid(), random.getrandbits(24)))
            shutil.copy2(out, mine)
            _tmp_bins.append(mine)
            _built[key] = mine
            return mine
        finally:
            fcntl.flock(lockf, fcntl.LOCK_UN)
            lockf.close()


def overlay_json(pairs, path):
    """pairs: list of (virtual path inside REPO, real file).  Writes a go -overlay file."""
    json.dump({"Replace": {os.path.join(REPO, v): r for v, r in pairs}}, open(path, "w"))
    return path


def go_test_inpkg(pkg_rel, harness_files, run_regex, env=None, tags="verif", timeout=3600, race=False,
                  extra_args=None, count=1):
    """Run in-package harness tests injected through -overlay (nothing is copied into REPO).
    harness_files: list of files under /verif/harness/inpkg/<...>; each appears inside REPO/<pkg_rel>/
    under its own base name.  Returns (returncode, combined output)."""
    sc = scratch("ovl")
    try:
        pairs = [(os.path.join(pkg_rel, os.path.basename(f)), f) for f in harness_files]
        ov = overlay_json(pairs, os.path.join(sc, "overlay.json"))
        cmd = ["go", "test", "-vet=off", "-overlay", ov, "-count=%d" % count, "-run", run_regex,
               "-timeout", "%ds" % timeout]
        if tags:
            cmd += ["-tags", tags]
        if race:
            cmd += ["-race"]
        if extra_args:
            cmd += extra_args
        cmd += ["./" + pkg_rel]
        e = dict(GOENV)
        if env:
            e.update(env)
        p = subprocess.run(cmd, cwd=REPO, env=e, stdout=subprocess.PIPE, stderr=subprocess.STDOUT, text=True,
                           timeout=timeout + 120)
        return p.returncode, p.stdout
    finally:
        rmtree(sc)


# --------------------------------------------------------------------------- driver

class DriverDead(Exception):
    """kind = 'exit' (the engine process ended by itself: crash/panic/os.Exit; rc in .rc) or
    'hang' (no answer within the timeout; we killed it).  A hang under machine load is not evidence."""

    def __init__(self, msg, kind="exit", rc=None):
        Exception.__init__(self, msg)
        self.kind, self.rc = kind, rc


class Driver:
    """One sigdrv process. Observations come back on fd 3 so engine logging cannot interleave."""

    def __init__(self, binary, env=None, wrapper=None, stderr_path=None, cwd=None):
        r, w = os.pipe()
        e = dict(os.environ)
        e["SIGDRV_OUT_FD"] = str(w)
        if env:
            e.update(env)
        cmd = (wrapper or []) + [binary]
        self._errf = open(stderr_path, "ab") if stderr_path else subprocess.DEVNULL
        self.p = subprocess.Popen(cmd, stdin=subprocess.PIPE, stdout=self._errf, stderr=self._errf,
                                  pass_fds=(w,), env=e, cwd=cwd)
        os.close(w)
        self.rf = os.fdopen(r, "rb")
        self.log = []

    def cmd(self, op, timeout=120, **kw):
        kw["op"] = op
        line = (json.dumps(kw) + "\n").encode()
        try:
            self.p.stdin.write(line)
            self.p.stdin.flush()
        except (BrokenPipeError, OSError):
            raise DriverDead("driver died before %s (rc=%s)" % (op, self.p.poll()), "exit", self.p.poll())
        res = [None]

        def rd():
            res[0] = self.rf.readline()
        t = threading.Thread(target=rd, daemon=True)
        t.start()
        t.join(timeout)
        if t.is_alive():
            self.kill()
            raise DriverDead("driver hang on %s (> %ss)" % (op, timeout), "hang")
        if not res[0]:
            rc = self.p.wait()
            raise DriverDead("driver exited during %s (rc=%s)" % (op, rc), "exit", rc)
        o = json.loads(res[0])
        self.log.append((kw, o))
        return o

    def ok(self, op, **kw):
        o = self.cmd(op, **kw)
        if not o.get("ok"):
            raise Infra("driver op %s failed: %s" % (op, o.get("err")))
        return o.get("res")

    def quit(self):
        try:
            self.cmd("quit", timeout=20)
        except Exception:
            pass
        try:
            self.p.wait(timeout=10)
        except Exception:
            self.kill()
        self.close()

    def kill(self):
        try:
            self.p.kill()
            self.p.wait(timeout=10)
        except Exception:
            pass
        self.close()

    def close(self):
        try:
            self.rf.close()
        except Exception:
            pass
        try:
            self.p.stdin.close()
        except Exception:
            pass
        if self._errf not in (None, subprocess.DEVNULL):
            try:
                self._errf.close()
            except Exception:
                pass


def pmap(fn, items, workers=None):
    """Parallel map preserving order; exceptions propagate."""
    workers = workers or NCPU
    with cf.ThreadPoolExecutor(max_workers=workers) as ex:
        return list(ex.map(fn, items))


# --------------------------------------------------------------------------- TLC

class TLCResult:
    def __init__(self):
        self.rc = None
        self.generated = 0
        self.distinct = 0
        self.depth = 0
        self.violated = []      # names of violated invariants / properties
        self.out = ""
        self.wall = 0.0
        self.coverage_zero = []
        self.error = None

    def ok(self):
        return self.rc == 0


def _stage_spec(sc, extra_files=None):
    for f in os.listdir(SPEC):
        if f.endswith((".tla", ".cfg")):
            shutil.copy(os.path.join(SPEC, f), sc)
    for f in (extra_files or []):
        shutil.copy(f, sc)


def run_tlc(module, cfg=None, workers=None, timeout=900, simulate=None, depth=None, seed=None, coverage=False,
            extra_files=None, java_opts=None, sc=None, deadlock=None, defines=None, dfs=False, keep=False, heap="6g"):
    """Run TLC on spec/<module>.tla with spec/<cfg>.  Returns TLCResult.
    simulate: 'num=N' style string for -simulate.  sc: existing staging dir (kept) or None (temp)."""
    own = sc is None
    if own:
        sc = scratch("tlc")
        _stage_spec(sc, extra_files)
    r = TLCResult()
    try:
        # TLC unpacks its standard modules into java.io.tmpdir on every start: keep that inside the scratch directory
        # (removed with it) instead of littering /tmp
        jtmp = os.path.join(sc, "jtmp")
        os.makedirs(jtmp, exist_ok=True)
        cmd = ["java", "-XX:+UseParallelGC", "-Xss64m", "-Xmx" + heap, "-Djava.io.tmpdir=" + jtmp]
        if dfs:
            cmd += ["-Dtlc2.tool.queue.IStateQueue=StateDeque"]
        for k, v in (defines or {}).items():
            cmd += ["-D%s=%s" % (k, v)]
        cmd += (java_opts or [])
        cmd += ["-cp", "/opt/veriftools/tla/tla2tools.jar:/opt/veriftools/tla/CommunityModules-deps.jar", "tlc2.TLC"]
        cmd += ["-workers", str(workers or NCPU), "-metadir", os.path.join(sc, "meta-%d" % random.getrandbits(32))]
        cmd += ["-config", cfg or (module + ".cfg")]
        if simulate:
            cmd += ["-simulate", simulate]
        if depth:
            cmd += ["-depth", str(depth)]
        if seed is not None:
            cmd += ["-seed", str(seed)]
        if coverage:
            cmd += ["-coverage", "1"]
        if deadlock is False:
            cmd += ["-deadlock"]
        cmd += [module + ".tla"]
        t0 = time.time()
        try:
            p = subprocess.run(cmd, cwd=sc, stdout=subprocess.PIPE, stderr=subprocess.STDOUT, text=True,
                               timeout=timeout)
            r.rc = p.returncode
            r.out = p.stdout
        except subprocess.TimeoutExpired as e:
            r.rc = -9
            r.out = (e.stdout or b"").decode("utf8", "replace") if isinstance(e.stdout, bytes) else (e.stdout or "")
            r.error = "timeout"
        r.wall = time.time() - t0
        m = None
        for m in re.finditer(r"(\d+) states generated, (\d+) distinct states found", r.out):
            pass
        if m:
            r.generated, r.distinct = int(m.group(1)), int(m.group(2))
        m = re.search(r"depth of the complete state graph search is (\d+)", r.out)
        if m:
            r.depth = int(m.group(1))
        r.violated = re.findall(r"Invariant (\S+) is violated", r.out) + \
            re.findall(r"Action property (\S+) is violated", r.out) + \
            re.findall(r"Temporal properties were violated", r.out)
        if "Deadlock reached" in r.out:
            r.violated.append("Deadlock")
        if coverage:
            r.coverage_zero = parse_coverage_zero(r.out)
        if r.rc not in (0, 12, 13) and r.error is None:
            r.error = "tlc rc=%s" % r.rc
        return r
    finally:
        if own and not keep:
            rmtree(sc)


def parse_coverage_zero(out):
    """Names of actions TLC reports with zero hits: lines '<Action line .. of module M>: 0:0' """
    z = []
    for m in re.finditer(r"^<(\w+) line \d+, col \d+ to line \d+, col \d+ of module (\w+)>: (\d+):(\d+)", out, re.M):
        if m.group(3) == "0" and m.group(4) == "0":
            z.append(m.group(2) + "!" + m.group(1))
    return sorted(set(z))


def tlc_must_hold(res, what):
    """A model-level failure is never a verdict about the code; it is an infrastructure/spec problem."""
    if res.error:
        raise Infra("%s: TLC failed (%s)\n%s" % (what, res.error, res.out[-3000:]))
    if res.violated:
        raise Infra("%s: model-level violation %s (spec or config wrong; not a code verdict)\n%s" %
                    (what, res.violated, res.out[-3000:]))


def tlc_generate(module, cfg, out_name="behaviours.ndjson", workers=1, timeout=900, simulate=None, depth=None,
                 seed=None, extra_files=None):
    """Run a Gen_* spec whose CONSTRAINT/POSTCONDITION serialises behaviours as JSON lines into out_name
    (relative to TLC's cwd).  Returns (list of behaviours, TLCResult)."""
    sc = scratch("gen")
    try:
        _stage_spec(sc, extra_files)
        r = run_tlc(module, cfg, workers=workers, timeout=timeout, simulate=simulate, depth=depth, seed=seed, sc=sc)
        if r.error and not (simulate and r.error == "timeout"):
            raise Infra("generation %s/%s failed: %s\n%s" % (module, cfg, r.error, r.out[-3000:]))
        path = os.path.join(sc, out_name)
        beh = []
        if os.path.exists(path):
            with open(path) as f:
                for line in f:
                    line = line.strip()
                    if line:
                        try:
                            beh.append(json.loads(line))
                        except ValueError:
                            pass  # torn line from a killed simulation
        return beh, r
    finally:
        rmtree(sc)


def trace_validate(module, cfg, trace_lines, trace_name="trace.ndjson", timeout=600, extra_files=None, dfs=True):
    """Write trace_lines (list of dicts) as ndjson next to the Trace_* spec and run TLC (workers 1).
    Returns TLCResult; accepted iff rc == 0."""
    sc = scratch("trc")
    try:
        _stage_spec(sc, extra_files)
        with open(os.path.join(sc, trace_name), "w") as f:
            for t in trace_lines:
                f.write(json.dumps(t) + "\n")
        return run_tlc(module, cfg, workers=1, timeout=timeout, sc=sc, deadlock=False, dfs=dfs)
    finally:
        rmtree(sc)


# --------------------------------------------------------------------------- sampling helpers

def dedup(items, key=lambda x: json.dumps(x, sort_keys=True)):
    seen, out = set(), []
    for it in items:
        k = key(it)
        if k not in seen:
            seen.add(k)
            out.append(it)
    return out


def sample(items, n, seed):
    if n is None or len(items) <= n:
        return list(items)
    rnd = random.Random(seed)
    return rnd.sample(list(items), n)


def sha(x):
    return hashlib.sha1(json.dumps(x, sort_keys=True).encode()).hexdigest()[:12]


# --------------------------------------------------------------------------- verdicts & evidence

class Check:
    """Collects what one run of one property check did and decides the exit code."""

    def __init__(self, pid, tier, seed, level="model_checking", clean=True):
        self.pid, self.tier, self.seed, self.level = pid, tier, seed, level
        self.t0 = time.time()
        self.cov = {"states": 0, "transitions": 0, "traces_validated_against_impl": 0, "samples": [],
                    "evaluations": 0, "distinct_nontrivial": 0, "rule": "", "tlc_runs": [], "exhaustive": False}
        self.assumptions = []
        self.violations = []     # (key, what, replay_obj)
        self.known_hits = []
        self.infra = []
        self.drift = []          # spec drift notes: exit 2 unless a real violation was found as well
        self.kf = load_known_findings(pid)
        self._distinct = set()
        # replay files of earlier runs of this property are stale (kept when a replay file is being re-run)
        if clean and os.path.isdir(REPLAYS):
            for f in os.listdir(REPLAYS):
                if f.startswith(pid + "-"):
                    try:
                        os.unlink(os.path.join(REPLAYS, f))
                    except OSError:
                        pass

    # -- model side
    def add_tlc(self, name, res, note=""):
        self.cov["states"] += res.distinct
        self.cov["transitions"] += res.generated
        self.cov["tlc_runs"].append({"name": name, "distinct_states": res.distinct, "states_generated": res.generated,
                                     "depth": res.depth, "wall_s": round(res.wall, 1), "rc": res.rc, "note": note,
                                     "vacuous_actions": res.coverage_zero})

    # -- implementation side
    def count(self, case_key=None, nontrivial=False, n=1):
        self.cov["evaluations"] += n
        if nontrivial and case_key is not None:
            self._distinct.add(case_key)

    def replayed(self, n=1):
        self.cov["traces_validated_against_impl"] += n

    def sample(self, obj, limit=5):
        if len(self.cov["samples"]) < limit:
            self.cov["samples"].append(obj)

    def violation(self, key, what, replay):
        """key: specific signature (used to match known findings)."""
        for k in self.kf:
            if k.get("key") == key or (k.get("key_prefix") and key.startswith(k["key_prefix"])):
                if k not in self.known_hits:
                    self.known_hits.append(k)
                return False
        self.violations.append((key, what, replay))
        return True

    def describe(self, rule=None, exhaustive=None, extra=None):
        if rule:
            self.cov["rule"] = rule
        if exhaustive is not None:
            self.cov["exhaustive"] = exhaustive
        if extra:
            self.cov.update(extra)

    def finish(self):
        self.cov["distinct_nontrivial"] = len(self._distinct)
        wall = time.time() - self.t0
        os.makedirs(EVID, exist_ok=True)
        os.makedirs(REPLAYS, exist_ok=True)
        vio_out = []
        # at most 30 replay files, distinct signatures first
        ordered, seen_keys = [], set()
        for v in self.violations:
            if v[0] not in seen_keys:
                seen_keys.add(v[0])
                ordered.append(v)
        ordered += [v for v in self.violations if v not in ordered][:max(0, 30 - len(ordered))]
        for i, (key, what, replay) in enumerate(ordered[:60]):
            rp = os.path.join(REPLAYS, "%s-%s-%d.json" % (self.pid, sha(key), i))
            json.dump({"property": self.pid, "key": key, "what": what, "replay": replay, "tier": self.tier,
                       "seed": self.seed}, open(rp, "w"), indent=1, default=str)
            vio_out.append((key, what, rp))
        self.cov["known_findings_hit"] = [k["key"] for k in self.known_hits]
        if vio_out:
            self.cov["violation_keys"] = [v[0] for v in vio_out]
        ev = {"property_id": self.pid, "tier": self.tier, "seed": self.seed, "level": self.level,
              "coverage": self.cov, "assumptions": self.assumptions, "wall_s": round(wall, 2),
              "violations": len(self.violations)}
        tmp = os.path.join(EVID, ".%s.json.tmp" % self.pid)
        json.dump(ev, open(tmp, "w"), indent=1, default=str)
        os.replace(tmp, os.path.join(EVID, "%s.json" % self.pid))
        for k in self.known_hits:
            print("KNOWN-FINDING: property=%s %s" % (self.pid, k["what"]), flush=True)
        shown = {}
        for key, what, rp in vio_out:
            shown[key] = shown.get(key, 0) + 1
            if shown[key] > 2:
                continue      # same signature again: the replay file exists, the line is not repeated
            print("VIOLATION property=%s replay=%s" % (self.pid, rp), flush=True)
            print("  key=%s :: %s" % (key, what[:600]), flush=True)
        print("[%s] tier=%s seed=%d states=%d evaluations=%d distinct_nontrivial=%d replayed=%d violations=%d wall=%.1fs" % (
            self.pid, self.tier, self.seed, self.cov["states"], self.cov["evaluations"],
            self.cov["distinct_nontrivial"], self.cov["traces_validated_against_impl"], len(self.violations), wall),
            flush=True)
        return 1 if self.violations else 0


def load_known_findings(pid):
    p = os.path.join(VERIF, "known_findings.json")
    if not os.path.exists(p):
        return []
    d = json.load(open(p))
    return [k for k in d.get("findings", []) if k["property"] == pid]
