#!/usr/bin/env python3
"""confirm_seed.py <PROPERTY> <n> <src out dir> <pkg dir for demo> <run regex> [tags]
Confirms a seeded change in the scratch worktree /tmp/mut and files it under /verif/seeded/<PROPERTY>-<n>/:
  demo passes on the clean tree, patch applies + builds (tag off and on), tests of the touched packages pass with the
  guard off, demo fails with the patch."""
import json, os, re, shutil, subprocess, sys, time
pid, n, src, pkg, rx = sys.argv[1:6]
tags = sys.argv[6] if len(sys.argv) > 6 else ""
MUT = os.environ.get("SEED_WT", "/tmp/mut")
env = dict(os.environ, GOFLAGS="-mod=mod", GOPROXY="off", GOSUMDB="off", GOTOOLCHAIN="local")
def sh(cmd, **kw):
    p = subprocess.run(cmd, shell=True, cwd=MUT, env=env, stdout=subprocess.PIPE, stderr=subprocess.STDOUT, text=True, **kw)
    return p.returncode, p.stdout
sh("git checkout -q -- . && git clean -fdq")
demo_dst = os.path.join(MUT, pkg, "zz_seed_demo_test.go")
shutil.copy(os.path.join(src, "demo_test.go"), demo_dst)
tagarg = ("-tags %s " % tags) if tags else ""
ran = {}
rc0, out0 = sh("go test %s-vet=off -count=1 -run '%s' ./%s/" % (tagarg, rx, pkg), timeout=1800)
ran["demo_without_patch"] = {"rc": rc0, "tail": out0[-600:]}
rc, out = sh("git apply %s" % os.path.join(src, "patch.diff"))
ran["apply"] = {"rc": rc, "out": out[-300:]}
rcb, outb = sh("go build ./... && go build -tags verif ./...", timeout=1800)
ran["build"] = {"rc": rcb, "tail": outb[-600:]}
touched = sorted(set(os.path.dirname(m) for m in re.findall(r"^\+\+\+ b/(.*\.go)$", open(os.path.join(src, "patch.diff")).read(), re.M)))
rct, outt = sh("go test -vet=off -count=1 -skip 'TestSeed|Test_zzSeed' %s" % " ".join("./" + t + "/" for t in touched), timeout=3000)
ran["touched_package_tests_guard_off"] = {"packages": touched, "rc": rct, "tail": outt[-800:]}
rc1, out1 = sh("go test %s-vet=off -count=1 -run '%s' ./%s/" % (tagarg, rx, pkg), timeout=1800)
ran["demo_with_patch"] = {"rc": rc1, "tail": out1[-900:]}
sh("git checkout -q -- . && git clean -fdq")
ok = rc0 == 0 and rc == 0 and rcb == 0 and rct == 0 and rc1 != 0
dst = "/verif/seeded/%s-%s" % (pid, n)
os.makedirs(dst, exist_ok=True)
shutil.copy(os.path.join(src, "patch.diff"), dst)
shutil.copy(os.path.join(src, "demo_test.go"), dst)
if os.path.exists(os.path.join(src, "README.md")):
    shutil.copy(os.path.join(src, "README.md"), os.path.join(dst, "SEEDER_README.md"))
meta = {"property": pid, "confirmed": ok, "demo_location": "%s/zz_seed_demo_test.go (run: go test %s-vet=off -count=1 -run '%s' ./%s/)" % (pkg, tagarg, rx, pkg),
        "what_i_ran": ran, "confirmed_at": time.strftime("%Y-%m-%dT%H:%M:%SZ", time.gmtime())}
json.dump(meta, open(os.path.join(dst, "meta.json"), "w"), indent=1)
print(pid, n, "CONFIRMED" if ok else "NOT CONFIRMED", {k: v["rc"] for k, v in ran.items()})
