#!/usr/bin/env python3
"""Regenerates MANIFEST.json from tools/manifest_src.py (single source of truth for per-check texts)."""
import json, os, subprocess, sys
HERE = os.path.dirname(os.path.abspath(__file__))
sys.path.insert(0, HERE)
import manifest_src as M
man = {
    "version": 1,
    "setup_cmd": M.SETUP,
    "hooks": M.HOOKS,
    "engines": M.ENGINES,
    "checks": [],
    "notes": M.NOTES,
    "not_applicable": M.NOT_APPLICABLE,
}
for pid in sorted(M.CHECKS):
    c = M.CHECKS[pid]
    man["checks"].append({
        "property_id": pid,
        "quick_cmd": "tools/vcheck %s --tier quick" % pid,
        "thorough_cmd": "tools/vcheck %s --tier thorough" % pid,
        "evidence_file": "/verif/evidence/%s.json" % pid,
        "replay_cmd_template": "tools/vcheck %s --replay {path}" % pid,
        "engine": c.get("engine", "tlc+sigdrv"),
        "level_claimed": {"category": c["category"], "text": c["text"], "design_ref": c.get("design_ref", "DESIGN.md section 4")},
        "level_note": c["note"],
        "technique": c["technique"],
    })
json.dump(man, open(os.path.join(os.path.dirname(HERE), "MANIFEST.json"), "w"), indent=1)
print("wrote MANIFEST.json with %d checks, %d not_applicable" % (len(man["checks"]), len(man["not_applicable"])))
