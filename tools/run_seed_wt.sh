#!/bin/sh
# run_seed_wt.sh <seeded dir name> [tier] : like run_seed.sh but applies the seeded change to a scratch worktree of /repo's HEAD
# (/tmp/mut, created on demand) and runs the check with VERIF_REPO pointing there; /repo itself is not touched.
set -u
S=$1; T=${2:-quick}; P=${S%%-*}
W=${SEED_WT:-/tmp/mut}
[ -d $W ] || git -C /repo worktree add -q --detach $W HEAD
git -C $W checkout -q -- . && git -C $W clean -fdq && git -C $W checkout -q --detach $(git -C /repo rev-parse HEAD) || exit 2
git -C $W apply /verif/seeded/$S/patch.diff || { echo "$S patch does not apply"; exit 2; }
cd /verif
VERIF_REPO=$W VERIF_SEED=${VERIF_SEED:-1} timeout 5400 tools/vcheck $P --tier $T > /var/tmp/seedrun_$S.log 2>&1
rc=$?
git -C $W checkout -q -- .
echo "$S rc=$rc $(grep -c '^VIOLATION' /var/tmp/seedrun_$S.log) violation lines"
grep '^VIOLATION' /var/tmp/seedrun_$S.log | cut -c1-260 | head -${LINES_SHOWN:-2}
[ $rc -eq 1 ] || tail -3 /var/tmp/seedrun_$S.log | cut -c1-300
