#!/bin/sh
# run_seed.sh <seeded dir name, e.g. C06-1> [tier] : apply the seeded change to /repo, run the property's check, undo it.
# Prints the verdict lines; never leaves /repo modified.
set -u
S=$1; T=${2:-quick}; P=${S%%-*}
cd /repo || exit 2
[ -z "$(git status --porcelain)" ] || { echo "/repo not clean"; exit 2; }
git apply /verif/seeded/$S/patch.diff || { echo "patch does not apply"; exit 2; }
cd /verif
VERIF_SEED=${VERIF_SEED:-1} timeout 5400 tools/vcheck $P --tier $T > /var/tmp/seedrun_$S.log 2>&1
rc=$?
git -C /repo checkout -- .
echo "$S rc=$rc $(grep -c '^VIOLATION' /var/tmp/seedrun_$S.log) violation lines"
grep '^VIOLATION' /var/tmp/seedrun_$S.log | cut -c1-260 | head -${LINES_SHOWN:-4}
[ $rc -eq 1 ] || tail -3 /var/tmp/seedrun_$S.log | cut -c1-300
