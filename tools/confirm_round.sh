#!/bin/sh
# confirm_round.sh <out-dir prefix, e.g. /tmp/seed3-> <property> : confirm every change k of <prefix><property>-out/k in the scratch worktree
# /tmp/mut2 and file it as /verif/seeded/<property>-<next free number>
export GOFLAGS=-mod=mod GOPROXY=off GOSUMDB=off GOTOOLCHAIN=local SEED_WT=/tmp/mut2
PFX=$1; P=$2
[ -d /tmp/mut2 ] || git -C /repo worktree add -q --detach /tmp/mut2 HEAD
git -C /tmp/mut2 checkout -q -- . ; git -C /tmp/mut2 clean -fdq; git -C /tmp/mut2 checkout -q --detach $(git -C /repo rev-parse HEAD)
cd /verif
for d in ${PFX}${P}-out/*/; do
  [ -f $d/patch.diff ] || continue
  n=1; while [ -d seeded/$P-$n ]; do n=$((n+1)); done
  pkg=$(sed -n 's/^PKG: *//p' $d/README.md | head -1); rx=$(sed -n 's/^RUN: *//p' $d/README.md | head -1); tags=$(sed -n 's/^TAGS: *//p' $d/README.md | head -1 | tr -d '`' )
  case "$tags" in *none*|*empty*|"-"|"") tags="";; esac
  python3 tools/confirm_seed.py $P $n $d "$pkg" "$rx" $tags 2>&1 | tail -1
  python3 - "$P-$n" <<'PY'
import json,sys,os
p="/verif/seeded/%s/meta.json"%sys.argv[1]
m=json.load(open(p))
if not m.get("confirmed"):
    import shutil; os.makedirs("/var/tmp/unconfirmed", exist_ok=True); dst="/var/tmp/unconfirmed/"+sys.argv[1]; shutil.rmtree(dst, ignore_errors=True); shutil.move(os.path.dirname(p), dst); print("  moved to", dst, "(not confirmed):", {k: v.get("rc") for k, v in m["what_i_ran"].items()})
PY
done
