#!/bin/sh
# Offline setup: build the harness binaries from files on disk and parse every spec.
set -e
cd "$(dirname "$0")/.."
export GOFLAGS=-mod=mod GOPROXY=off GOSUMDB=off GOTOOLCHAIN=local
mkdir -p .build .scratch evidence .replays
python3 - <<'PY'
import sys
sys.path.insert(0, "lib")
import vlib
vlib.build_driver()
PY
if [ -f tools/crashinj.c ]; then cc -O1 -o .build/crashinj tools/crashinj.c; fi
echo "setup ok"
