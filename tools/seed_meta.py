#!/usr/bin/env python3
"""Writes what / needs_to_manifest (from the seeders' reports) and detected_by (from /var/tmp/seedrun_<id>.log, if present)
into /verif/seeded/<id>/meta.json."""
import json, os, re, sys
W = {
"C01-1": ("packer.go backFillPastRecords hands out a shared package-level slice for backfill record lists; a later late column gets a wrong list and a record resolves to another event's value", "one block with a late column later absent from an event, followed by another late dictionary-encoded column"),
"C01-2": ("segstore.go adjustEarliestLatestTimes rewritten as if/else-if: latest stays 0 unless a later event is >= the running minimum, so time filtering skips the segment", "a segment with a single event, or events arriving newest-first / peak-first"),
"C01-3": ("segwriter.go writeToBloom lower-cases the value in place (a view into the column buffer) before it is compressed: stored strings come back altered", "a columnar (non-dictionary) block: >500 distinct values in a string column, with upper-case letters"),
"C02-1": ("segutils.go enclosureFromJsonNumber derives FloatVal from UnsignedVal: a negative integer literal gets a float view of ~1.8e19", "negative integer literal compared with a stored decimal value (f>-3)"),
"C02-2": ("utils/segutils.go IsSubWordPresent first-byte reject ignores case-insensitivity", "free-text term/phrase whose first matched character differs in case from the stored text"),
"C02-3": ("dtypeutils CheckRangeOverLap uses earliest < End: block/segment whose oldest timestamp equals endEpoch is skipped", "endEpoch exactly equal to the timestamp of the first event of a block or segment"),
"C03-1": ("dechecker.go dictionary search stops after the first matching dictionary word", "dict-encoded block with >=2 stored values matching the literal (case variants / int-float variants)"),
"C03-2": ("metacheckers.go range-index check drops '=' from '<=' for signed ints", "col<=N where a block's minimum equals N exactly (depends on flush boundaries)"),
"C03-3": ("packer.go processStats loses integers ingested after the first float from the pre-aggregated sum", "column mixing JSON ints and floats in one segment with an int after the first float; match-all stats sum/avg answered from segment stats"),
"C04-1": ("packer.go processStats: integer arriving after the sum turned float is added to the unused int field", "numeric column mixing floats and ints in one segment, int after first float; match-all stats without by"),
"C04-2": ("bincommand.go getTimeBucketWithAlign uses truncating int division instead of floor", "bin span=<sub-day> aligntime=<t> with events older than the align time, not on a bucket boundary"),
"C04-3": ("runningstats.go hllAddRawCval feeds integer values to Hll.AddRaw unhashed (0 ignored, small ints collapse)", "dc()/estdc of an integer field with by-clause or timechart; value 0 in the group or thousands of distinct ints"),
"C05-1": ("searcher.go shouldProcessBlock requires the block to be completely inside the cutoff window (LowTs >= cutoff)", ">=2 segments overlapping partially in time, a block straddling another segment's start"),
"C05-2": ("sortcommand.go getRank gives numeric rank to digit-looking strings without parsing", "sort column with strings made of 0-9.-+eE that are not floats (IPs, dates, versions), auto/num mode"),
"C05-3": ("scroller.go scrollProcessor underflows scrollFrom when from falls inside a batch", "from>0 strictly inside a batch and the page extends into the next batch"),
"C06-1": ("headcommand.go processHeadExpr clamps the per-batch budget to MaxRows instead of MaxRows - sent", "head with an eval expression plus limit, limit boundary strictly inside a batch that is not the first"),
"C06-2": ("streamer.go CachedStream: leftovers parked on a stream that already hit EOF are lost (IsExhausted stays true)", ">=2 ordered-merge inputs, an upstream returning its last batch together with EOF, batch partly consumed"),
"C06-3": ("bincommand.go per-batch min/max fold uses else-if: a later batch extending the range at both ends only updates the minimum", "bin without span on a numeric field, several first-pass batches, a non-first batch holding both a new min and a new max"),
"C09-1": ("tagstreereader.go regex anchoring '^'+p+'$' loses the grouping parentheses", "=~ / !~ with a top-level alternation and stored values that start/end with an alternative"),
"C09-2": ("seriesresult.go max reduction starts at the zero value", "every member value of a group at an evaluation timestamp is negative"),
"C09-3": ("seriesresult.go Series.Merge omits the re-slice after growing: samples lost, bogus (0,0) point", "a series' in-range samples coming from >=2 blocks/segments with merged total > 10"),
"C10-1": ("wal.go DPWalIterator.Next skips a block whose checksum mismatches instead of stopping", "WAL file with >=2 blocks and damage in a block that is not the last"),
"C10-2": ("metricssegment.go rotateBlock increments Blknum after cleanAndInitNewDpWal: the new WAL is named after the block just flushed and deleted unreplayed at restart", "a block rotation, then more ingest and a WAL flush, then crash + restart"),
"C10-3": ("metricssegment.go initNewDpWal shares one package-level DataPointEncoder between all datapoint WALs (race)", ">1 metrics segment with overlapping WAL appends"),
"C12-1": ("tracehandler.go ProcessSearchTracesRequest: SpanCount = count instead of +=", "a trace whose spans have mixed statuses"),
"C12-2": ("tracehandler.go ProcessGanttChartRequest page size 500 but From advances by 1000", "a trace with more than 500 spans"),
"C12-3": ("lineartimefinding.go quickSelect counts the pivot slot as 0/1 instead of the number of duplicates", "a service whose entry spans have repeated durations, percentile rank above the repeated pivot"),
"C13-1": ("esBulkHandler.go process-wide stream-id cache keyed by index name only", "two organisations ingesting into the same index name in one process"),
"C13-2": ("virtualtable.go ExpandAndReturnIndexNames loses the '$' anchor of the wildcard regex", "wildcard expression not ending in '*' plus an index whose name extends a matching name"),
"C13-3": ("metadata.go deleteTable deletes from the slice it ranges over: every second adjacent rotated segment stays in memory", "deleted (index, org) owning >=2 adjacent rotated segments; visible through column listing"),
"C14-1": ("metadata.go deleteSegmentKeyWithLock binary-searches by LatestEpochMS: on ties nothing is removed", ">=2 rotated segments of an index with identical LatestEpochMS in one deletion batch"),
"C14-2": ("metricsmeta.go removeMetricsSegmentsByList does the tags-tree bookkeeping during the scan: a still-used tags tree is deleted", "two metrics segments sharing a tags tree, survivor listed before the victim in metricmeta.json"),
"C14-3": ("retention.go DeleteSegmentData skips segments whose directory is already gone (also skips metadata removal)", "a pass interrupted after RemoveSegBasedirs and before RemoveSegMetas, restart, repeated pass"),
"C15-1": ("esBulkHandler.go errors flag computed as processedCount < inCount (malformed docs counted as processed)", "only failing items are malformed-JSON documents and at least one item succeeds"),
"C15-2": ("esBulkHandler.go ReleasePLEs called per batch and again deferred: pooled events handed out twice", "a later request with more documents than an earlier one before a GC empties the pool"),
"C15-3": ("esBulkHandler.go unknown action also consumes the following line", "a source-less unsupported action (delete) followed by more actions"),
"C16-1": ("otlp/logs.go reuses one json.Encoder/buffer for the whole export request: earlier records take a later record's body/attributes/ids", ">=2 log records under one resource in a single request"),
"C16-2": ("segwriter.go GetNewPLE no longer sets the timestamp: pooled event keeps an unrelated earlier time", "an earlier request with explicit times, then an event with no time of its own"),
"C16-3": ("otlp/metrics.go inherited attribute map hoisted per ResourceMetrics: scope attributes accumulate across scopes", "one resource with >=2 ScopeMetrics, earlier scope has an attribute the later does not set"),
"C18-1": ("checksumfile.go readChunkAt returns bare io.EOF for a chunk cut short: truncated timestamp block silently 'loaded' with stale values", "timestamp .csg truncated inside a block's data, same reader loaded another block earlier"),
"C18-2": ("timereader.go convertRawRecordsToTimestamps clamp computed before the 8-byte base is consumed: index out of range panic in worker goroutines", ".bsu record-count byte damaged to a larger count"),
"C18-3": ("segreader.go readBlock returns pooled buffers on a failed load but keeps using them: healthy segment serves another segment's bytes", "a column block that fails to load, same reader loads another block, interleaved second reader of the same pool class"),
"C19-1": ("lookups.go UploadLookupFile NFKC-normalises the name after validation", "name of compatibility code points normalising to '/' or '.' (full-width solidus / full stop)"),
"C19-2": ("inputlookupcommand.go allows sub-folders, checks only a leading '..' on the raw name", "dot-dot segments after a harmless first segment (geo/../../../secret.csv)"),
"C19-3": ("dashboards.go deleteDashboard cleans up details/<id>.json for ids unknown to the folder structure", "unknown id with enough ../ segments"),
"C20-1": ("cronJobHandler.go shouldUpdateAlertStateToFiring reads exactly N-1 history rows: 'Config Modified' rows use up slots", "N>=2, an edit between evaluations of the same window, the dropped evaluation having been false"),
"C20-2": ("notificationHandler.go 'last notified state equals current state: don't send' applied to every state", "alert Firing longer than the cool-down, or re-entering Firing after a held-back Normal"),
"C20-3": ("virtualtable.go RemoveAliases deletes the alias for every index that shares it (in memory only)", "an alias attached to >=2 indices of the same tenant and removed from one"),

"C01-4": ("logpacker.go unescapes escaped JSON strings into one per-event scratch buffer; the free offset is set with = instead of +=: values get pieces of other columns spliced in", "one event with >=3 string values containing a backslash escape"),
"C01-5": ("searcher.go getFilteredBlocks marks a block processed before shouldProcessBlock: blocks before the cut-off are never searched later", ">=2 segments with partially overlapping time ranges (out-of-order timestamps around a rotation)"),
"C02-4": ("dtypeutils CompareValues truncates the float operand in int64 <op> float64: `where n<5.5` loses n=5", "integer field, non-integral decimal literal, ordering operator, value equal to trunc(literal), in the where stage"),
"C02-5": ("filtersearch.go negated match bookkeeping no longer clears bits set by the dictionary pre-pass: NOT hello returns X and NOT X", "negated free-text term whose word sits in a dictionary-encoded column"),
"C03-4": ("segwriter.go doLogEventFilling drops cstartidx reset when backfilling absent columns: the ingest-time persistent-query search sees the previous event's value", "PQS on and query persistent at segment creation; event lacking column X after one whose X matches; predicate free text / number / wildcard / !="),
"C03-5": ("blockmeta.go bloom probing only with the term as typed: rotated blocks dropped for case variants", "case-insensitive col=value or free text typed in a case that is neither the stored spelling nor lower case; rotated segment"),
"C04-4": ("segstats.go AddSegStatsStr uses FastParseFloat: '-', '+', '.' count as number 0, decimals 1 ulp off", "string-typed field aggregated at query time holding sign/dot-only placeholders or certain decimals"),
"C04-5": ("segconsts.go GetValueAsString forgets SS_DT_BACKFILL: a null group key makes the whole stats-by query fail", "a matched event lacking a grouping field"),
"C05-4": ("sortcommand.go canSkipBatch compares only the first sort key when the sort already holds limit rows", "multi-key sort, several batches, ties on the first key straddling the limit"),
"C05-5": ("searcher.go fetchRRCs skips the clamp of the release time to the cut-off when all loaded blocks are returned", "three overlapping segments with out-of-order arrival; newest-first order / head n"),
"C06-4": ("evalcommand.go reuses its result column buffer between batches (earlier batch rows get later values)", ">=2 batches, later batch not larger than the buffer, a consumer still holding the earlier batch (final collector, tail)"),
"C06-5": ("dedupcommand.go consecutive=true keeps run state across Rewind", "dedup consecutive=true followed by a two-pass command; first key equals last key"),
"C07-4": ("segmetarw.go readSfmForSegMetas goroutine closes over the loop variable (go 1.21): after restart all rotated segments but the last lose their column names", ">=2 rotated segments, restart, content of returned events checked"),
"C07-5": ("suffix.go hands the previous segment number out again when its directory has no .sfm: a crashed first flush's files are appended to", "crash inside the first flush of a segment, restart + ingest + flush, second restart"),
"C08-5": ("decompressor.go reads the XOR window header in one call and drops 'length 0 means 64'", "two successive values whose XOR spans all 64 bits (+0 -> -5e-324, MaxFloat64 -> -0)"),
"C08-6": ("metricssegment.go updateTimeRange if/else-if: lowTS of a fresh segment never set for forward-only ingestion", "strictly increasing timestamps from the segment's first datapoint; query window ending before the newest datapoint"),
"C09-4": ("metricsquery.go mergeMetricSearchRequests uses maps.Copy: rotated segments' requests overwritten by the open segment's when they share a tags-tree directory", "segment rotated by size without tags-tree rotation, then more samples in the open segment"),
"C09-5": ("promql parser runs 'literal' =~ / !~ matchers as = / != but forgets ^ $ \\ {n}", "regex matcher whose only syntax is an anchor, escape class or counted repetition"),
"C10-4": ("wal.go decodeWALBlock does not shrink readDps: the tail of a larger block is replayed again after a smaller one", "a smaller block after a larger one in the same WAL file"),
"C10-5": ("metricssegment.go timeBasedMetaEntryWalFlush skips segments whose CURRENT block is empty: meta entry dropped after a block rotation", "block rotated without segment rotation, meta-entry timer ticks while idle, crash before the next datapoint"),
"C11-4": ("segwriter.go createSegStore drops the re-check under the lock: racing first ingests create two stores, one is orphaned", ">=2 truly parallel first ingests for a new stream on >=2 CPUs"),
"C11-5": ("segstore.go removes the segment from the unrotated info right after addSegmeta, before AddSegMetaToMetadata: in neither list for a window", "a search inside that window of a rotation"),
"C12-4": ("otlp/traces.go trims leading zero bytes of every parent span id", "a non-root span whose parent's span id starts with a 0x00 byte"),
"C12-5": ("buildspantree.go climbs to the top-most ancestor of a rootless trace without a cycle guard (hang)", "a trace with no root and a parent cycle reachable from its earliest span"),
"C13-4": ("virtualtable.go RemoveAliases updates the in-memory alias map after the early return for 'no aliases left'", "an index loses its last alias, then a query through that alias in the same process"),
"C13-5": ("segwriter.go DeleteVirtualTableSegStoreOfOrg removes suffix/<index>/ (shared by all orgs): the other org's segment counter restarts", "two orgs with an index of the same name, survivor has a rotated segment, other deletes, survivor rotates again"),
"C14-4": ("segmetarw.go removeSegmetasOfOrg reuses one struct for json.Unmarshal: omitted fields (orgid 0) keep the previous line's values", "multi-tenant segmeta.json with a non-zero-org line before a surviving org-0 line; a pass that rewrites the file"),
"C14-5": ("retention.go shared sort helper compares metrics seconds with log milliseconds", "volume/inode pass over a store with both log and metrics segments"),
"C15-4": ("esBulkHandler.go itemPosOfIndex records the slot in the event list instead of the response", "store-level failure for one index plus an earlier item that produced no event"),
"C15-5": ("segwriter.go AddEntry skips events with no column but still acknowledges them", "a valid document with no leaf column ({} / timestamp-only / empty containers)"),
"C16-4": ("metricssegment.go extractTagsFromJson unescapes into one scratch array: escaped tag values of one datapoint alias", "one datapoint with >=2 attribute values carrying a JSON escape"),
"C16-5": ("splunk.go getPLE reads HEC time only as json.Number: a quoted time string is ignored", "HEC event whose time is a quoted string"),
"C17-5": ("querystatus.go puller admits a batch of waiting queries; admittingQuery holds only the last: cancel of earlier batch members is lost", ">=2 waiting queries and >=2 free slots, cancel of a batch member other than the last in the window"),
"C17-6": ("evaluationstructs.go handleMVIndex drops the startIndex<0 check: slice bounds panic in the query goroutine", "mvindex with negative start and in-range end over a record with fewer values"),
"C18-4": ("segreader.go loadBlockUsingBuffer returns (false, err) on a checksum failure: treated as 'column absent', previous block's values served", "checksum failure in a column block after the reader loaded another block"),
"C18-5": ("seriesreader.go GetTimeSeriesIterator recovers the panic into a local variable: damaged series silently skipped", ".tso offset / .tsg length pointing past the buffer"),
"C19-4": ("scroll.go looks an unknown scroll id up on disk without checking it (read / delete of a .csv outside the data dir)", "ES scroll request with an unknown id containing ../ segments"),
"C19-5": ("lookups.go percent-decodes the name after validating the raw segment (get / delete)", "percent-encoded separators in the lookup file name"),
"C20-4": ("cronJobHandler.go returns before recording the evaluation when the notification fails", "delivery failure exactly at an evaluation that enters Firing or returns to Normal"),
"C20-5": ("lookups.go UploadLookupFile drops O_TRUNC: overwrite with shorter content keeps the stale tail", "overwrite=true with content shorter than what is stored"),
}
for sid, (what, needs) in sorted(W.items()):
    p = "/verif/seeded/%s/meta.json" % sid
    if not os.path.exists(p):
        print("missing", sid); continue
    m = json.load(open(p))
    m["breaks_property"] = sid.split("-")[0]
    m["what"] = what
    m["needs_to_manifest"] = needs
    lg = "/var/tmp/seedrun_%s.log" % sid
    if os.path.exists(lg):
        t = open(lg, errors="replace").read()
        keys = sorted(set(re.findall(r"^\s+key=(\S+)", t, re.M)))
        nviol = len(re.findall(r"^VIOLATION", t, re.M))
        m["detected_by"] = ("%s quick (seed 1): %d VIOLATION lines; keys %s" % (m["breaks_property"], nviol, ", ".join(keys[:6]) + (" ..." if len(keys) > 6 else ""))) if nviol else m.get("detected_by", "NOT detected by the quick tier as of this run")
    json.dump(m, open(p, "w"), indent=1)
print("ok")
