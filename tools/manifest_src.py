SETUP = "tools/setup.sh"
HOOKS = {
    "guard": "verif",
    "enable": "go build/test -tags verif (harness binaries are always built with the tag; pkg/verifhook.At is a no-op without it)",
    "baseline_off_cmd": "cd /repo && GOFLAGS=-mod=mod GOPROXY=off GOSUMDB=off GOTOOLCHAIN=local go test -vet=off -count=1 -timeout 25m ./...",
    "source_commits": ["4ff2e5f"],
    "add_only": True,
}
ENGINES = [
    {"name": "tlc", "path": "spec/", "kind_free_text": "TLA+ specifications checked exhaustively by TLC; Gen_* configs export behaviours as JSON; Trace_* specs validate recorded traces",
     "serves_properties": []},
    {"name": "sigdrv", "path": "harness/sigdrv", "kind_free_text": "Go driver over the real engine (replace => /repo, export shims injected with -overlay), one process per server life",
     "serves_properties": []},
    {"name": "vcheck", "path": "tools/vcheck", "kind_free_text": "python3 orchestrator: TLC runs, behaviour replay, trace validation, verdicts, evidence", "serves_properties": []},
]
NOTES = ("Every check: TLA+ spec (spec/) model-checked with TLC, then bound to the real code by replaying TLC-generated "
         "behaviours / schedules into the engine built from /repo's working tree and/or validating recorded traces. "
         "Exit 2 = infrastructure problem, never a verdict. See DESIGN.md.")
NOT_APPLICABLE = []
CHECKS = {}

CHECKS["C08"] = dict(
    category="model_checking",
    technique="TLA+ spec of the Gorilla codec case analysis (TLC exhaustive) + replay of every TLC-enumerated class sequence on the real codec and through OpenTSDB ingest/selector query across rotation and restart",
    text=("spec/Gorilla.tla transcribes the encoder/decoder case analysis (delta-of-delta classes, XOR window reuse/new window, "
          "field widths); TLC checks BitExact/InSync/Geometry over all class sequences up to MaxLen. Every enumerated sequence "
          "is concretised against the real encoder state and run through the real compress package (round trip after each step "
          "+ spec-predicted stream length), and a seeded sample goes end to end: OpenTSDB ingest, selector query while open, "
          "after block flush, size-driven segment rotation, shutdown rotation and restart, with colliding tag sets."),
    note=("Classes are (dod class, leading/trailing zero geometry); middle bits random per VERIF_SEED, not all 2^64 values. "
          "32-bit dod arithmetic modelled with unbounded integers. e2e uses finite values (JSON cannot carry NaN/Inf); several "
          "datapoints in the same second are not compared. Prometheus remote-write / OTLP metric ingest paths are covered by C16."),
    design_ref="DESIGN.md 4/C08",
)
