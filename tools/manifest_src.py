SETUP = "tools/setup.sh"
HOOKS = {
    "guard": "verif",
    "enable": "go build/test -tags verif (harness binaries are always built with the tag; pkg/verifhook.At is a no-op without it)",
    "baseline_off_cmd": "cd /repo && GOFLAGS=-mod=mod GOPROXY=off GOSUMDB=off GOTOOLCHAIN=local go test -vet=off -count=1 -timeout 25m ./...",
    "source_commits": ["4ff2e5f", "c87a6cd", "7859b27", "c762f15", "8b4d4ce", "6e75e81", "af17ec1", "dfc1fea", "7167230", "ba0808b", "7c1f068"],
    "add_only": True,
}
ENGINES = [
    {"name": "tlc", "path": "spec/", "kind_free_text": "TLA+ specifications checked exhaustively by TLC; Gen_* configs export behaviours as JSON; Trace_* specs validate recorded traces",
     "serves_properties": []},
    {"name": "sigdrv", "path": "harness/sigdrv", "kind_free_text": "Go driver over the real engine (replace => /repo, export shims injected with -overlay), one process per server life",
     "serves_properties": []},
    {"name": "vcheck", "path": "tools/vcheck", "kind_free_text": "python3 orchestrator: TLC runs, behaviour replay, trace validation, verdicts, evidence", "serves_properties": []},
]
NOTES = ("Every check: TLA+ spec (spec/) model-checked with TLC, then bound to the real code by replaying TLC-generated "
         "behaviours / schedules into the engine built from /repo's working tree and/or validating recorded traces. "
         "Exit 2 = infrastructure problem, never a verdict. See DESIGN.md.")

# per-check texts live next to the check: checks/cNN.py defines MANIFEST = dict(category, technique, text, note, design_ref)
import importlib, json, os, sys
_here = os.path.dirname(os.path.abspath(__file__))
sys.path.insert(0, os.path.join(os.path.dirname(_here), "lib"))
sys.path.insert(0, os.path.join(os.path.dirname(_here), "checks"))
CHECKS = {}
ALL = [json.loads(l)["id"] for l in open(os.path.join(os.path.dirname(_here), "properties.jsonl"))]
for _pid in ALL:
    if os.path.exists(os.path.join(os.path.dirname(_here), "checks", _pid.lower() + ".py")):
        _m = importlib.import_module(_pid.lower())
        if getattr(_m, "MANIFEST", None) and getattr(_m, "CLAIMED", False):
            CHECKS[_pid] = _m.MANIFEST
# explicit reasons for properties that are deliberately not claimed (none so far)
NOT_CLAIMED_REASON = {}
NOT_APPLICABLE = [{"property_id": p, "reason": NOT_CLAIMED_REASON.get(p, "not claimed yet: its specification/binding is still under construction (DESIGN.md section 7); no check is registered for it")}
                  for p in ALL if p not in CHECKS]

