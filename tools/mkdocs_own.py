#!/usr/bin/env python3
"""Generates docs/C07.md, C08.md, C11.md, C17.md (the properties built by the lead) from the check modules' docstrings, the
spec headers, known_findings.json and seeded/*/meta.json."""
import ast, os, json, glob, re
V = os.path.dirname(os.path.dirname(os.path.abspath(__file__)))
def doc(path):
    return ast.get_docstring(ast.parse(open(path).read())) or ""
def spechead(mod):
    t = open(os.path.join(V, 'spec', mod + '.tla')).read()
    m = re.search(r"\(\*(.*?)\*\)", t, re.S)
    return m.group(1).strip() if m else ""
plan = {"C07": (["c07.py"], ["FlushProtocol", "Trace_FlushProtocol"]),
        "C08": (["c08.py"], ["Gorilla", "SeriesIdentity", "MetricsLifecycle"]),
        "C11": (["c11.py", "c11_stress.py"] + (["c11_metrics.py"] if os.path.exists(os.path.join(V, "checks", "c11_metrics.py")) else []),
                ["Visibility"] + (["MetricsVisibility"] if os.path.exists(os.path.join(V, "spec", "MetricsVisibility.tla")) else [])),
        "C17": (["c17.py", "c17_sched.py", "c17_async.py", "c17_grammar.py"], ["QueryLifecycle", "Trace_QueryLifecycle", "Grammar", "GrammarClauses", "GrammarEval", "GrammarProm"])}
props = {json.loads(l)["id"]: json.loads(l) for l in open(V + '/properties.jsonl')}
kf = json.load(open(V + '/known_findings.json'))
for pid, (checks, mods) in plan.items():
    out = ["# %s - %s\n" % (pid, props[pid]["title"]), "*(assembled by tools/mkdocs_own.py from the check modules' own descriptions and the spec headers; the checks are the source of truth)*\n",
           "## Statement\n", props[pid]["statement"] + "\n", "Quantifier: " + props[pid]["quantifier"]["text"] + "\n"]
    out.append("## Check modules\n")
    for c in checks:
        out.append("### checks/%s\n\n```\n%s\n```\n" % (c, doc(os.path.join(V, 'checks', c))))
    out.append("## Specification\n")
    for m in mods:
        out.append("### spec/%s.tla\n\n```\n%s\n```\n" % (m, spechead(m)))
        cf = sorted(os.path.basename(x) for x in glob.glob(V + '/spec/*%s*.cfg' % m))
        if cf:
            out.append("Configs: " + ", ".join("`%s`" % x for x in cf) + "\n")
    out.append("## Findings\n")
    for f in kf["fixed"]:
        if "property=%s " % pid in f:
            out.append("* " + f)
    for f in kf["findings"]:
        if f["property"] == pid:
            out.append("* known finding `%s`: %s" % (f.get("key_prefix") or f.get("key"), f["what"]))
    out.append("\n## Seeded changes\n")
    for d in sorted(glob.glob(V + '/seeded/%s-*/meta.json' % pid)):
        m = json.load(open(d))
        out.append("* %s: %s - needs: %s - detected by: %s" % (os.path.basename(os.path.dirname(d)), m.get("what"), m.get("needs_to_manifest"), m.get("detected_by")))
    open(V + '/docs/%s.md' % pid, 'w').write("\n".join(out) + "\n")
print("ok")
