#!/usr/bin/env python3
"""Assembles /verif/DESIGN.md from docs/design/*.md (hand-written) and from the machine-readable sources of truth:
checks/cNN.py MANIFEST blocks, evidence/*.json (last runs), known_findings.json, seeded/*/meta.json, spec/*.tla|cfg."""
import glob
import json
import os
import re
import subprocess
import sys

V = os.path.dirname(os.path.dirname(os.path.abspath(__file__)))
sys.path.insert(0, os.path.join(V, "tools"))
sys.path.insert(0, os.path.join(V, "lib"))
sys.path.insert(0, os.path.join(V, "checks"))


def frag(name):
    return open(os.path.join(V, "docs", "design", name)).read().rstrip("\n") + "\n\n"


def props():
    return {json.loads(l)["id"]: json.loads(l) for l in open(os.path.join(V, "properties.jsonl"))}


def manifest():
    return {c["property_id"]: c for c in json.load(open(os.path.join(V, "MANIFEST.json")))["checks"]}


def evidence(pid):
    p = os.path.join(V, "evidence", pid + ".json")
    return json.load(open(p)) if os.path.exists(p) else None


def esc(s):
    return str(s).replace("|", "\\|").replace("\n", " ")


def spec_section():
    out = ["## 3. The specification (as built)\n",
           "One module per subsystem, written to be bound: one action per critical section / system-call class / processing "
           "step of the Go code, deliberate deviations of the code from an idealised design kept as named constants "
           "(`Dedup`, `Recheck`, `ReaderFallback`, `SfmAtomic`, `MetKeyWraps`, ...) so that the pre-fix behaviour stays "
           "checkable as a *model-sensitivity* config that must violate the invariant the fix restores.  Reference-semantics "
           "modules (`SearchSemantics`, `Aggregations`, `SortOrder`, `MetricsQuery`, `Traces`, `AlertsLaw`, `KVStore`) give the "
           "oracle as operators with *admissible-outcome sets* where the property statement leaves an outcome open.\n",
           "| module | lines | what it specifies | variables |", "|---|---|---|---|"]
    mods = sorted(glob.glob(os.path.join(V, "spec", "*.tla")))
    for m in mods:
        b = os.path.basename(m)[:-4]
        if b.startswith(("MC_", "Gen_", "Trace_", "Judge_")) or b.endswith(("Consts", "Pick")) or b == "GenPick":
            continue
        t = open(m).read()
        hm = re.search(r"\(\*(.*?)\*\)", t, re.S)
        head = " ".join((hm.group(1) if hm else "").split())
        head = head[:300] + ("..." if len(head) > 300 else "")
        vs = re.findall(r"^VARIABLES?\s+(.*?)(?=^\S|\Z)", t, re.S | re.M)
        names = []
        for blk in vs:
            blk = re.sub(r"\\\*.*", "", blk)
            blk = re.sub(r"\(\*.*?\*\)", "", blk, flags=re.S)
            names += [x.strip() for x in blk.replace("\n", " ").split(",") if re.match(r"^\w+$", x.strip())]
        out.append("| `%s` | %d | %s | %s |" % (b, t.count("\n"), esc(head), esc(", ".join(names[:16]) + (" ..." if len(names) > 16 else "")) or "- (operators only)"))
    aux = [os.path.basename(m)[:-4] for m in mods if os.path.basename(m).startswith(("Trace_", "Judge_"))]
    out.append("")
    out.append("Trace-validation / judging modules: " + ", ".join("`%s`" % a for a in aux) + ".  `Gen_<Module>.tla` extend their module with a "
               "history variable and `Emit`; `MC_<Module>.tla` bind model values and symmetry sets.  %d `.cfg` files: `MC_*` "
               "(exhaustive), `Gen_*` (generation), `*_no*/_mut_*/_defect_*/_ascoded_*` (must-violate sensitivity configs)." % len(glob.glob(os.path.join(V, "spec", "*.cfg"))))
    out.append("")
    out.append("**What TLC checked in the last run of each property** (from `evidence/<id>.json`; the note column is written by the check):\n")
    out.append("| property | tier | TLC run | distinct states | generated | depth | s | what |")
    out.append("|---|---|---|---|---|---|---|---|")
    for pid in sorted(manifest()):
        e = evidence(pid)
        if not e:
            continue
        for r in e["coverage"].get("tlc_runs", []):
            out.append("| %s | %s | `%s` | %s | %s | %s | %s | %s |" % (pid, e.get("tier"), r.get("name"), r.get("distinct_states"), r.get("states_generated"),
                                                                      r.get("depth"), r.get("wall_s"), esc(r.get("note", ""))[:200]))
    out.append("")
    out.append("Vacuity: every exhaustive config is run with `-coverage 1` at least in one tier and actions with a zero count are "
               "recorded under `vacuous_actions` in the evidence (empty for all runs above); every sensitivity config is "
               "asserted to violate on every run (a sensitivity config that stops violating is exit 2: the model lost its "
               "teeth).\n")
    out.append("---------------------------------------------------------------------------\n")
    return "\n".join(out) + "\n"


def property_section():
    P, M = props(), manifest()
    out = ["## 4. Per property: model, binding, oracle, bounds (as built)\n",
           "Generated from the MANIFEST block of each `checks/cNN.py` (the same text that `MANIFEST.json` carries) and the last "
           "evidence file.  `docs/CNN.md` has the long form: spec walk-through, generator design, what each seeded / "
           "builder-made mutant needs, and the reproduction of every finding.\n"]
    for pid in sorted(P):
        p = P[pid]
        out.append("### %s - %s\n" % (pid, p["title"]))
        c = M.get(pid)
        if not c:
            out.append("Not claimed (see `not_applicable` in MANIFEST.json).\n")
            continue
        out.append("* **Deciding method.** %s" % c["technique"])
        out.append("* **Model and binding.** %s" % c["level_claimed"]["text"])
        out.append("* **Limits (not decided / bounds).** %s" % c.get("level_note", ""))
        e = evidence(pid)
        if e:
            cov = e["coverage"]
            out.append("* **Last run** (%s tier, seed %s): %s model states, %s behaviours / traces replayed on the real code, %s distinct "
                       "non-trivial cases, %.0f s.  Counting rule: %s" % (e.get("tier"), e.get("seed"), cov.get("states"), cov.get("traces_validated_against_impl"),
                                                                             cov.get("distinct_nontrivial"), e.get("wall_s", 0), cov.get("rule", "")[:500]))
        out.append("* Commands: `%s` / `%s`; long form: `docs/%s.md`.\n" % (c["quick_cmd"], c["thorough_cmd"], pid))
    out.append("---------------------------------------------------------------------------\n")
    return "\n".join(out) + "\n"


def defects_section():
    kf = json.load(open(os.path.join(V, "known_findings.json")))
    out = ["## 6. Genuine defects found in siglens/siglens\n",
           "Every entry was reproduced against the real code by the machinery (input, schedule, crash point or history in the "
           "replay file / docs/CNN.md).  Repairs are single unguarded `fix:` commits in `/repo` (the pinned test suite, unedited, "
           "passes with the tag off on the final tree: 1789/1789); what was not small and safe to repair is a *known finding* "
           "with a specific key - a different violation of the same property is still reported.\n",
           "### 6.1 Repaired (`fix:` commits, %d)\n" % sum(1 for f in kf.get("fixed", []) if f.startswith("fixed:")),
           "| property | commit | what failed |", "|---|---|---|"]
    for f in kf.get("fixed", []):
        m = re.match(r"fixed: property=(\S+) (\S+) (.*)", f, re.S)
        if m:
            out.append("| %s | `%s` | %s |" % (m.group(1), m.group(2), esc(m.group(3))))
        else:
            out.append("| | | %s |" % esc(f))
    out.append("")
    fs = kf.get("findings", [])
    out.append("### 6.2 Recorded as known findings (%d entries in `known_findings.json`)\n" % len(fs))
    out.append("| property | key (prefix*) | what fails |")
    out.append("|---|---|---|")
    for f in sorted(fs, key=lambda x: (x["property"], x.get("key_prefix") or x.get("key"))):
        k = (f["key_prefix"] + "*") if f.get("key_prefix") else f.get("key")
        out.append("| %s | `%s` | %s |" % (f["property"], esc(k), esc(f["what"])[:420]))
    out.append("")
    out.append(frag("06_notes.md") if os.path.exists(os.path.join(V, "docs", "design", "06_notes.md")) else "")
    out.append("---------------------------------------------------------------------------\n")
    return "\n".join(out) + "\n"


def seeded_section():
    out = ["## 9. Seeded changes (independent sub-agents) and which checks catch them\n",
           frag("09_intro.md") if os.path.exists(os.path.join(V, "docs", "design", "09_intro.md")) else "",
           "| id | seeded change | needs to manifest | detected by |", "|---|---|---|---|"]
    n = det = 0
    for d in sorted(glob.glob(os.path.join(V, "seeded", "*", "meta.json"))):
        m = json.load(open(d))
        sid = os.path.basename(os.path.dirname(d))
        if not m.get("confirmed"):
            continue
        n += 1
        db = m.get("detected_by", "")
        if db and not db.startswith("NOT"):
            det += 1
        out.append("| %s | %s | %s | %s |" % (sid, esc(m.get("what", ""))[:300], esc(m.get("needs_to_manifest", ""))[:200], esc(db)[:300]))
    out.append("")
    out.append("%d confirmed seeded changes, %d detected by the quick tier of the owning check.\n" % (n, det))
    return "\n".join(out) + "\n"


def main():
    parts = [frag("00_head.md"), frag("01_why.md"), frag("02_arch.md"), spec_section(), property_section(), frag("05_notcovered.md"),
             defects_section(), frag("07_run.md"), frag("08_corrections.md"), seeded_section()]
    open(os.path.join(V, "DESIGN.md"), "w").write("".join(parts))
    print("DESIGN.md written, %d lines" % sum(p.count("\n") for p in parts))


if __name__ == "__main__":
    main()
