#!/usr/bin/env python3
"""kf.py add <property> <key> <what>   |  kf.py fixed <property> <sha> <what>   (hand-maintained known_findings.json helper)"""
import json, sys
p = "/verif/known_findings.json"
d = json.load(open(p))
if sys.argv[1] == "add":
    _, _, prop, key, what = sys.argv[:5]
    kind = "key_prefix" if key.endswith(":") or key.endswith("*") else "key"
    key = key.rstrip("*")
    if not any(f["property"] == prop and f.get(kind) == key for f in d["findings"]):
        e = {"property": prop, "what": what}
        e[kind] = key
        if kind == "key_prefix":
            e["key"] = "<prefix>"
        d["findings"].append(e)
elif sys.argv[1] == "fixed":
    _, _, prop, sha, what = sys.argv[:5]
    d["fixed"].append("fixed: property=%s %s %s" % (prop, sha, what))
json.dump(d, open(p, "w"), indent=1)
