#!/bin/sh
# finalize.sh : regenerate every evidence file from a quick run against /repo itself (clean tree), then the generated documents.
export GOFLAGS=-mod=mod GOPROXY=off GOSUMDB=off GOTOOLCHAIN=local
cd /repo && [ -z "$(git status --porcelain)" ] || { echo "/repo not clean"; exit 2; }
cd /verif
unset VERIF_REPO
for id in C01 C02 C03 C04 C05 C06 C07 C08 C09 C10 C11 C12 C13 C14 C15 C16 C17 C18 C19 C20; do
  VERIF_SEED=${VERIF_SEED:-1} timeout 3600 tools/vcheck $id --tier quick > /var/tmp/final_$id.log 2>&1
  echo "$id rc=$? viol=$(grep -c '^VIOLATION' /var/tmp/final_$id.log) known=$(grep -c '^KNOWN-FINDING' /var/tmp/final_$id.log) $(tail -1 /var/tmp/final_$id.log | grep -o 'wall=[0-9.]*s')"
done
python3 tools/seed_meta.py; python3 tools/mkdocs_own.py; python3 tools/mkmanifest.py; python3 tools/mkdesign.py
