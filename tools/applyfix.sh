#!/bin/sh
# applyfix.sh <patch file> <commit message file>  : apply a repair to /repo, build (tag off and on), run the tests of the
# touched packages with the guard off, commit as one "fix:" commit.  Aborts (and reverts) on any failure.
set -e
P="$1"; M="$2"
cd /repo
export GOFLAGS=-mod=mod GOPROXY=off GOSUMDB=off GOTOOLCHAIN=local
test -z "$(git status --porcelain)" || { echo "repo not clean"; exit 3; }
git apply "$P"
PK=$(git diff --name-only | grep '\.go$' | xargs -n1 dirname | sort -u | sed 's#^#./#; s#$#/#')
fail() { echo "FAILED: $1"; git checkout -q -- .; git clean -fdq pkg; exit 4; }
test -z "$(gofmt -l $(git diff --name-only | grep '\.go$'))" || fail "gofmt"
go build ./pkg/... ./cmd/... || fail "build"
go build -tags verif ./pkg/... || fail "build -tags verif"
go test -vet=off -count=1 $PK 2>&1 | tail -15 | grep -v "no test files" > /tmp/applyfix.log || true
if grep -q "^FAIL\|^--- FAIL\|panic:" /tmp/applyfix.log; then cat /tmp/applyfix.log; fail "tests"; fi
cat /tmp/applyfix.log | tail -6
head -1 "$M" | grep -q "^fix:" || fail "message must start with fix:"
git add -A
git commit -q -F "$M"
git log --oneline | head -1
