"""C04 - aggregations equal the mathematical aggregate of the matching events.

Model: spec/Aggregations.tla.  Direct(E) is the mathematical aggregate of a set of events; the
  engine's way (running partial per open part, CloseSegment at any point, Merge of the closed
  partials, group-by tables merged row by row, Bucket) is a state machine whose behaviours are all
  segmentations of the dataset.  TLC checks Merge-over-every-segmentation = Direct, every key once,
  rows partition the events, Merge commutes, buckets partition the time line.
Binding: Gen_Aggregations exports every complete behaviour (dataset, segmentation, expected global
  aggregates / group rows / bucket tables).  Each sampled behaviour is ingested into the real engine
  with exactly that segmentation (flush / rotate between the parts) and queried with
  `| stats ...`, `| stats ... by g`, `| timechart span=`, `| bin span= | stats ... by timestamp`,
  on the pre-aggregation path (`*`, aggs enabled), on the raw path (a preceding filter) and in a
  separate server life with aggregations disabled; the response tables (measure[].MeasureVal /
  GroupByValues) are compared with the expected tables.
"""
import json
import os
import random
from fractions import Fraction

import vlib

LEVEL = "model_checking"

CLAIMED = True   # set by the lead after review; only claimed checks enter MANIFEST.json
MANIFEST = dict(
    category="model_checking",
    technique="TLA+ partial-aggregate algebra (Add/CloseSegment/Merge state machine vs direct set aggregates, TLC exhaustive over all "
              "datasets x segmentations of the bound) + replay of TLC-exported (dataset, segmentation, expected table) behaviours as "
              "stats/group-by/timechart/bin queries on the real engine along the pre-aggregated and raw paths",
    text=("spec/Aggregations.tla: Direct(E) for count,sum,min,max,avg,range,values,list,earliest,latest,dc; running partial Add, Merge, "
          "group table TAdd/TMerge, Bucket; invariants Merge-over-every-segmentation = Direct, every occurring key exactly once "
          "(absent, empty-string, numeric, bool keys), rows partition the events, Merge commutative, buckets partition the time line "
          "for spans dividing and not dividing the range and for align times before, inside and after the data (bin aligntime=, floor of a negative quotient). Gen_Aggregations exports each complete behaviour; checks/c04.py ingests the "
          "dataset with that segmentation through sigdrv and compares measure[].MeasureVal/GroupByValues of the real responses."),
    note=("Bounds: 3 events (4 in thorough) per dataset, measure values {3,-2,0,1.5,-0.75,'2','zz',absent} plus a string-typed family "
          "{'1.14','1.36','0.1','2.675','2', look-alikes '-' '+' '.' 'e5' '0x10', absent} with respellings, 6 group keys, timestamps "
          "around bucket boundaries. min/max/values are compared bit-exactly, sums within 1e-9; percentiles, "
          "var/stdev (unsupported in stats), large-cardinality dc (sketch error) and multi-column group-by are not modelled. "
          "Bool measure values are excluded. Which path (segment stats / agile tree / raw) the engine took is not observed, only forced "
          "by configuration."),
    design_ref="DESIGN.md 4/C04, docs/C04.md",
)

T0 = 42000 * 40476191          # multiple of every span used (700, 1000, 1500, 2000 ms)
STATS = "count, count(x), sum(x), min(x), max(x), avg(x), range(x), dc(x), values(x), list(x), earliest(x), latest(x)"
GSTATS = "count, count(x), sum(x), min(x), max(x), avg(x), range(x), dc(x), values(x)"
SSTATS = "count, sum(x), min(x), max(x), avg(x), range(x)"      # answerable from ingest-time segment statistics alone
SPAN_TXT = {1000: "1s", 2000: "2s", 1500: "1500ms", 700: "700ms", 500: "500ms", 60000: "1m"}
# relative align times the grammar accepts (resolved against the wall clock at parse time, i.e. long after the data):
# only the partition property can be demanded for them, the align time itself is not known to the check
REL_ALIGN = ["now", "-1h", "@d", "-1d@h+300s"]
SCALE = 1000                   # the spec's numbers are thousandths
# other spellings of the same number (all accepted by strconv.ParseFloat: long fractions, exponents, a leading +)
SPELLINGS = {"1.14": ["1.14", "1.1400000000000000000", "114e-2", "+1.14"], "1.36": ["1.36", "1.360000000000000000", "136e-2", "+1.36"],
             "0.1": ["0.1", "0.1000000000000000000", "1e-1"], "2.675": ["2.675", "2.67500000000000000000", "2675e-3"],
             "2": ["2", "2.0", "2e0", "+2"]}
# text that only looks like a number: members of the family the spec's label stands for
LOOKALIKES = {"-": ["-", "+", ".", "-."], "e5": ["e5", "1e", "0x10"]}


# ----------------------------------------------------------------------------- concretisation

def conc_x(v):
    k = v["k"]
    if k == "absent":
        return None
    if k == "int":
        return v["n"] // SCALE
    if k == "flt":
        return v["n"] / float(SCALE)
    return v["c"]           # numstr: its spelling; text: the label


def conc_g(g):
    k = g["k"]
    if k == "absent":
        return None
    if k == "num":
        return int(g["c"])
    if k == "bool":
        return True
    return g["c"]          # str / empty


def conc_events(ds):
    out = []
    for e in ds:
        o = {"id": e["id"], "timestamp": T0 + e["ts"]}
        x, g = conc_x(e["x"]), conc_g(e["g"])
        if x is not None:
            o["x"] = x
        if g is not None:
            o["g"] = g
        out.append(o)
    return out


def canon(v):
    """canonical token of a value as it appears in values()/list()/earliest(): numbers by value, text as is"""
    if v is None:
        return None
    if isinstance(v, bool):
        return "true" if v else "false"
    if isinstance(v, (int, float)):
        # exact: 1.3599999999999999 and 1.36 are different values
        return str(int(v)) if float(v).is_integer() else repr(float(v))
    s = str(v)
    try:
        f = Fraction(s)
        return str(f.numerator) if f.denominator == 1 else repr(float(f))
    except (ValueError, ZeroDivisionError):
        return s


def canon_spec(v):
    return canon(conc_x(v))


def tokens(v):
    """values(x)/list(x): '[a b c]' without group-by, JSON list with group-by"""
    if v is None:
        return []
    if isinstance(v, list):
        return [canon(x) for x in v]
    s = str(v).strip()
    if s.startswith("[") and s.endswith("]"):
        s = s[1:-1]
    return [canon(x) for x in s.split()] if s else []


# ----------------------------------------------------------------------------- engine

def run_case(binary, case, aggs):
    """ingest with the behaviour's segmentation, run the queries -> {qname: response or {'qerr':..}}; DriverDead propagates"""
    d = vlib.scratch("c04")
    dr = None
    try:
        dr = vlib.Driver(binary)
        dr.ok("init", dir=d, aggs=aggs)
        evs = case["events"]
        pos = 0
        for cut in case["cuts"]:
            part = evs[pos:pos + cut["n"]]
            pos += cut["n"]
            body = "".join(json.dumps({"index": {"_index": "c04"}}) + "\n" + json.dumps(e) + "\n" for e in part)
            r = dr.ok("bulk", body=body)
            if r.get("processed") != len(part) or r["response"].get("errors"):
                raise vlib.Infra("bulk rejected events: %s" % json.dumps(r)[:300])
            dr.ok("flush")
            if cut["act"] == "rotate":
                dr.ok("rotate")
        out = {}
        for q in case["queries"]:
            r = dr.ok("query", index="c04", text=q["text"], start=q["start"], end=q["end"])
            if r.get("hang"):
                raise vlib.Infra("query did not finish: %s" % q["text"])
            out[q["name"]] = r
        return out
    finally:
        if dr is not None:
            dr.quit()
        vlib.rmtree(d)


def rows_of(resp):
    return [(m.get("GroupByValues") or [], [(x or {}).get("CVal") for x in (m.get("IGroupByValues") or [])], m.get("MeasureVal") or {})
            for m in (resp.get("measure") or [])]


# ----------------------------------------------------------------------------- comparison

def parts_of(ds, cuts):
    out, pos = [], 0
    for c in cuts:
        out.append(ds[pos:pos + c["n"]])
        pos += c["n"]
    return out


def part_lacks(ds, cuts, field):
    """some block/segment of the segmentation has no event with the field although the dataset has it"""
    has = lambda e: e[field]["k"] != "absent"
    return any(has(e) for e in ds) and any(not any(has(e) for e in part) for part in parts_of(ds, cuts))


def feature(events_of_group, fn, ds=None, cuts=None, fields=("x",)):
    """dataset class of the events an aggregate ranges over (part of the violation key)"""
    ks = [e["x"]["k"] for e in events_of_group]
    looks = [fam for fam, members in LOOKALIKES.items() for e in events_of_group if e["x"]["k"] == "text" and e["x"]["c"] in members]
    if looks:
        # known root cause D takes precedence where it applies: a block/segment whose values are all text next to one that
        # holds numbers (their statistics are merged as "not numeric" in either order)
        isnum = lambda e: e["x"]["k"] in ("int", "flt", "numstr")
        if ds is not None and any(isnum(e) for e in ds) and any(
                part and not any(isnum(e) for e in part) and any(e["x"]["k"] == "text" for e in part) for part in parts_of(ds, cuts)):
            return "text-mixed"
        return "number-lookalike"          # text such as "-" or "e5" next to numeric strings
    if any(e["x"]["k"] == "numstr" and e["x"]["n"] % SCALE != 0 for e in events_of_group):
        return "decimal-string"            # numeric strings that are not binary fractions / integers
    if ds is not None and any(part_lacks(ds, cuts, f) for f in fields):
        return "part-lacks-field"
    if fn in ("earliest", "latest") and events_of_group:
        edge = (min if fn == "earliest" else max)(events_of_group, key=lambda e: e["ts"])
        if edge["x"]["k"] == "absent" and any(k != "absent" for k in ks):
            return "edge-event-lacks-field"
    nums = [k for k in ks if k in ("int", "flt", "numstr")]
    if "text" in ks:
        return "text-mixed" if nums else "text-only"
    if "numstr" in ks:
        return "numeric-string"
    if "absent" in ks:
        return "sparse" if nums else "all-absent"
    if "flt" in ks:
        return "float"
    return "plain"


def cmp_final(f, mv, evs, f_ns=None, asked_for=None):
    """both admissible readings of numeric strings (numbers / text); the row must match one of them entirely"""
    bad = cmp_final1(f, mv, evs, asked_for)
    if bad and f_ns is not None and f_ns != f:
        bad2 = cmp_final1(f_ns, mv, evs, asked_for)
        if not bad2:
            return []
    return bad


def cmp_final1(f, mv, evs, asked_for=None):
    """f: expected Final record of the spec, mv: MeasureVal of the engine.  -> list of (measure, detail)"""
    bad = []

    def numeq(name, got, want):
        if got is None:
            bad.append((name, "missing in the response (want %s)" % float(want)))
            return
        try:
            g = Fraction(got).limit_denominator(10 ** 12) if isinstance(got, float) else Fraction(got)
        except (TypeError, ValueError):
            bad.append((name, "got %r, want %s" % (got, float(want))))
            return
        tol = abs(want) * Fraction(1, 10 ** 9)
        if abs(g - want) > tol:
            bad.append((name, "got %s, want %s" % (got, float(want) if want.denominator != 1 else want.numerator)))
    asked = lambda fn: asked_for is None or fn in asked_for
    if asked("count") and ("count(*)" in mv or f["count"]):
        numeq("count", mv.get("count(*)"), Fraction(f["count"]))
    if asked("count(x)"):
        numeq("count-field", mv.get("count(x)"), Fraction(f["countx"]))
    if f["hasnum"]:
        for fn, name, want in (("sum(x)", "sum", Fraction(f["sum"], SCALE)), ("avg(x)", "avg", Fraction(f["avgnum"], SCALE * f["avgden"]))):
            if asked(fn):
                numeq(name, mv.get(fn), want)
        # min / max are values of events: the double nearest to the written number, bit for bit
        for fn, name, want in (("min(x)", "min", Fraction(f["min"], SCALE)), ("max(x)", "max", Fraction(f["max"], SCALE))):
            if asked(fn):
                got = mv.get(fn)
                if isinstance(got, bool) or not isinstance(got, (int, float)) or float(got) != float(want):
                    bad.append((name, "got %r, want %r" % (got, float(want) if want.denominator != 1 else want.numerator)))
        if "range(x)" in mv:
            numeq("range", mv.get("range(x)"), Fraction(f["range"], SCALE))
    if not f["hasnum"] and asked("sum(x)") and mv.get("sum(x)") not in (None, 0):
        # no number among the values (under this reading of numeric strings): nothing may have been summed
        bad.append(("sum", "got %r although no value is a number" % (mv.get("sum(x)"),)))
    # distinct count: by spelling or by numeric value (the statement does not say whether 2 and "2" are distinct)
    dc = mv.get("cardinality(x)")
    if asked("dc(x)") and (dc is None or int(dc) not in (f["dc"], f["dcnum"])):
        if not (dc is None and f["dc"] == 0):
            bad.append(("dc", "got %r, want %s" % (dc, sorted(set([f["dc"], f["dcnum"]])))))
    want_vals = sorted(set(canon_spec(v) for v in f["values"]))
    if asked("values(x)") and ("values(x)" in mv or want_vals):
        got_vals = tokens(mv.get("values(x)"))
        if sorted(set(got_vals)) != want_vals or len(got_vals) != len(set(got_vals)):
            bad.append(("values", "got %s, want %s" % (got_vals, want_vals)))
    if "list(x)" in mv:
        want_list = sorted(t for it in f["list"] for t in [canon_spec(it["v"])] * it["n"])
        if sorted(tokens(mv.get("list(x)"))) != want_list:
            bad.append(("list", "got %s, want the multiset %s" % (tokens(mv.get("list(x)")), want_list)))
    for name, key in (("earliest", "earliest(x)"), ("latest", "latest(x)")):
        if key in mv and f[name]["k"] != "absent":
            if canon(mv.get(key)) != canon_spec(f[name]):
                bad.append((name, "got %r, want %s" % (mv.get(key), canon_spec(f[name]))))
    return bad


def gkey_spec(g):
    if g["k"] == "absent":
        return ("", True)
    return (g["c"], False)


def check_case(case, results):
    """-> list of (key, what)"""
    beh = case["beh"]
    ds = beh["ds"]
    cuts = beh["cuts"]
    out = []
    for path, res in results.items():
        for q in case["queries"]:
            r = res.get(q["name"])
            if r is None:
                continue
            kind = q["kind"]
            q = dict(q, text=q.get("texts", {}).get(path.rsplit("/", 1)[1], q["text"]))
            if "qerr" in r:
                out.append(("C04:%s:%s:query-error" % (feature(ds, "", ds, cuts, ("x", "g")), kind), "[%s] `%s` failed: %s" % (path, q["text"], r["qerr"][-200:])))
                continue
            rows = rows_of(r)
            if kind == "global":
                if len(rows) != 1:
                    out.append(("C04:plain:global:rows", "[%s] `%s` returned %d rows" % (path, q["text"], len(rows))))
                    continue
                asked_for = [x.strip() for x in q["stats"].split(",")]
                for m, detail in cmp_final(beh["global"], rows[0][2], ds, beh.get("global_ns"), asked_for):
                    feat = feature(ds, m, ds, cuts)
                    if feat in ("number-lookalike", "decimal-string"):
                        # which code classified the strings: the statistics written at ingest (a `*` query that needs nothing but
                        # count/sum/min/max of the column is answered from them) or stats.AddSegStatsStr at query time
                        feat += "@ingest-stats" if path.endswith("/star") and q["name"] in ("simple", "avgonly") else "@query-time"
                    out.append(("C04:%s:global:%s" % (feat, m), "[%s] `%s`: %s: %s" % (path, q["text"], m, detail)))
            elif kind == "groupby":
                exp = {gkey_spec(rw["key"]): rw for rw in beh["rows"]}
                seen = {}
                for gv, igv, mv in rows:
                    k = (gv[0] if gv else "", bool(igv) and igv[0] is None)
                    seen.setdefault(k, []).append(mv)
                gfeat = "+".join(sorted(set(rw["key"]["k"] for rw in beh["rows"])))
                for k, mvs in seen.items():
                    if len(mvs) > 1:
                        out.append(("C04:%s:groupby:key-twice" % ("null-key" if k[1] else "part-lacks-field" if part_lacks(ds, cuts, "g") else
                                                                  "mixed-type-group-column" if len(set(e["g"]["k"] for e in ds) - {"absent"}) > 1 else "plain"),
                                    "[%s] `%s`: group key %r appears in %d rows" % (path, q["text"], k, len(mvs))))
                    if len(mvs) > 1:
                        continue        # the rows of a duplicated key are not compared one by one (reported as key-twice)
                    if k not in exp:
                        out.append(("C04:%s:groupby:key-invented" % ("part-lacks-field" if part_lacks(ds, cuts, "g") else "keys=" + gfeat), "[%s] `%s`: row for key %r, occurring keys are %s" % (
                            path, q["text"], k, sorted(exp))))
                        continue
                    gev = [e for e in ds if gkey_spec(e["g"]) == k]
                    for m, detail in cmp_final(exp[k]["f"], mvs[0], gev, exp[k].get("f_ns")):
                        out.append(("C04:%s:groupby:%s" % (feature(gev, m, ds, cuts, ("x", "g")), m),
                                    "[%s] `%s`: key %r: %s: %s" % (path, q["text"], k, m, detail)))
                for k in exp:
                    if k not in seen and not k[1]:      # a row for events lacking the group field is optional
                        out.append(("C04:%s:groupby:key-missing" % ("part-lacks-field" if part_lacks(ds, cuts, "g") or part_lacks(ds, cuts, "x")
                                                                    else "key-" + exp[k]["key"]["k"]),
                                    "[%s] `%s`: no row for the occurring key %r (rows: %s)" % (path, q["text"], k, sorted(seen))))
            elif kind in ("timechart", "bin", "binalign"):
                span = q["span"]
                tss = [T0 + e["ts"] for e in ds if q["start"] <= T0 + e["ts"] <= q["end"]]
                keys = []
                at_end = any(t == q["end"] for t in tss)
                tag = "event-at-range-end" if at_end else ("span-divides" if (q["end"] - q["start"]) % span == 0 else "span-not-dividing")
                if kind == "binalign":
                    # where the align time lies relative to the events: the quotient (ts - align) / span is negative for older events
                    al = q.get("align")
                    tag = "align-relative-form" if al is None else "align-before-data" if al <= min(tss) else \
                        "align-after-data" if al > max(tss) else "align-inside-data"
                for gv, igv, mv in rows:
                    try:
                        k = int(gv[0])
                    except (ValueError, IndexError):
                        out.append(("C04:bucket:%s:bucket-key" % kind, "[%s] `%s`: bucket key %r" % (path, q["text"], gv)))
                        continue
                    cnt = mv.get("count(*)", 0) or 0
                    want = [t for t in tss if k <= t < k + span]
                    if cnt != len(want):
                        out.append(("C04:%s:%s:bucket-count" % (tag, kind), "[%s] `%s` on [%d,%d]: bucket %d (+%d ms) reports count %s, "
                                    "%d events have their timestamp in it (event times %s)" % (
                                        path, q["text"], q["start"] - T0, q["end"] - T0, k - T0, span, cnt, len(want), [t - T0 for t in tss])))
                    elif "sum(x)" in mv and want and Fraction(mv["sum(x)"] or 0) != sum(
                            Fraction(e["x"]["n"], SCALE) for e in ds if k <= T0 + e["ts"] < k + span and e["x"]["k"] in ("int", "flt", "numstr")):
                        out.append(("C04:%s:%s:bucket-sum" % (tag, kind), "[%s] `%s`: bucket %d sum %s" % (path, q["text"], k - T0, mv.get("sum(x)"))))
                    if cnt:
                        keys.append(k)
                if len(set(keys)) != len(keys):
                    out.append(("C04:bucket:%s:bucket-twice" % kind, "[%s] `%s`: a bucket appears twice: %s" % (path, q["text"], [k - T0 for k in keys])))
                for a in keys:
                    for b in keys:
                        if a < b and (b - a) % span != 0:
                            out.append(("C04:%s:%s:buckets-overlap" % (tag, kind), "[%s] `%s` on [%d,%d]: buckets %d and %d (+%d ms) overlap" % (
                                path, q["text"], q["start"] - T0, q["end"] - T0, a - T0, b - T0, span)))
                for t in tss:
                    n = sum(1 for k in keys if k <= t < k + span)
                    if n != 1:
                        out.append(("C04:%s:%s:event-not-in-one-bucket" % (tag, kind), "[%s] `%s` on [%d,%d]: the event at %d lies in %d returned "
                                    "buckets %s (+%d ms)" % (path, q["text"], q["start"] - T0, q["end"] - T0, t - T0, n, [k - T0 for k in keys], span)))
                if kind == "binalign" and q.get("align") is not None:
                    for k in keys:
                        if (k - q["align"]) % span != 0:
                            out.append(("C04:%s:binalign:bucket-not-aligned" % tag, "[%s] `%s`: bucket %d is not aligntime %d + k*%d ms" % (
                                path, q["text"], k - T0, q["align"] - T0, span)))
                    want = {T0 + rw["b"]: rw["count"] for b in beh["aligned"] if b["span"] == span and T0 + b["align"] == q["align"] for rw in b["rows"]}
                    got = {int(gv[0]): mv.get("count(*)") for gv, igv, mv in rows if gv and gv[0].lstrip("-").isdigit()}
                    if got != want:
                        out.append(("C04:%s:binalign:table" % tag, "[%s] `%s` (aligntime = T0%+d, events at %s): got %s, want %s" % (
                            path, q["text"], q["align"] - T0, [t - T0 for t in tss], {k - T0: v for k, v in sorted(got.items())},
                            {k - T0: v for k, v in sorted(want.items())})))
                if kind == "bin":
                    want = {T0 + rw["b"]: rw["count"] for b in beh["buckets"] if b["span"] == span for rw in b["rows"]}
                    got = {int(gv[0]): mv.get("count(*)") for gv, igv, mv in rows if gv and gv[0].lstrip("-").isdigit()}
                    if got != want:
                        out.append(("C04:bucket:bin:table", "[%s] `%s`: got %s, want %s" % (path, q["text"], {k - T0: v for k, v in got.items()},
                                                                                   {k - T0: v for k, v in want.items()})))
    # the same query must give the same table on every path
    for q in case["queries"]:
        if q["kind"] not in ("global", "groupby"):
            continue
        tabs = tables(results, q)
        ps = sorted(tabs)
        for a in ps[1:]:
            if tabs[a] != tabs[ps[0]]:
                out.append(("C04:%s:path-dependent:%s" % (feature(ds, "", ds, cuts, ("x", "g")), q["kind"]),
                            "`%s`: path %s gives %s, path %s gives %s" % (q["stats"], ps[0], tabs[ps[0]], a, tabs[a])))
                break
    return out


def norm_mv(mv):
    o = {}
    for k, v in mv.items():
        if k.startswith(("values", "list")):
            o[k] = sorted(tokens(v))
        elif k.startswith(("earliest", "latest", "min", "max")):
            o[k] = canon(v)
        elif isinstance(v, float):
            o[k] = float("%.9g" % v)      # sums / averages: equal up to rounding error (order of summation)
        else:
            o[k] = v
    return json.dumps(o, sort_keys=True)


def tables(results, q):
    tabs = {}
    for p in sorted(results):
        r = results[p].get(q["name"])
        if r is None or "qerr" in r:
            continue
        tabs[p] = sorted((tuple(gv), tuple(x is None for x in igv), norm_mv(mv)) for gv, igv, mv in rows_of(r))
    return tabs


def flatten(res):
    """{process: {query name/path: response}} -> {process/path: {query name: response}}"""
    flat = {}
    for proc, r in res.items():
        for pname in ("star", "filt"):
            flat["%s/%s" % (proc, pname)] = {k.rsplit("/", 1)[0]: v for k, v in r.items() if k.endswith("/" + pname)}
        flat[proc + "/star"].update({k: v for k, v in r.items() if not k.endswith(("/star", "/filt"))})
    return flat


def logical_queries(case):
    """one entry per logical query (the star / filt variants share it); texts per path"""
    out, byname = [], {}
    for q in case["queries"]:
        if q["name"].endswith(("/star", "/filt")):
            base, pname = q["name"].rsplit("/", 1)
        else:
            base, pname = q["name"], "star"
        if base not in byname:
            byname[base] = dict(q, name=base, texts={})
            out.append(byname[base])
        byname[base]["texts"][pname] = q["text"]
    return out


def respell(beh, rnd):
    """numstr mode: replace the spec's spelling of a numeric string by another spelling of the SAME number, and its look-alike
    label by another member of the family, consistently in the dataset and in the expected tables"""
    pick = {}
    for sp, alts in list(SPELLINGS.items()) + list(LOOKALIKES.items()):
        pick[sp] = rnd.choice(alts)

    def walk(o):
        if isinstance(o, dict):
            if set(o) == {"k", "n", "c"} and o["k"] in ("numstr", "text") and o["c"] in pick:
                return dict(o, c=pick[o["c"]])
            return {k: walk(v) for k, v in o.items()}
        if isinstance(o, list):
            return [walk(x) for x in o]
        return o
    return walk(beh)


def build_case(idx, mode, beh):
    evs = conc_events(beh["ds"])
    maxts = max(e["ts"] for e in beh["ds"])
    mints = min(e["ts"] for e in beh["ds"])
    wide = (T0 - 250, T0 + maxts + 4017)
    qs = []
    for pname, pre in (("star", "*"), ("filt", "id>=1")):
        qs.append(dict(name="global/" + pname, kind="global", stats=STATS, text="%s | stats %s" % (pre, STATS), start=wide[0], end=wide[1]))
        qs.append(dict(name="simple/" + pname, kind="global", stats=SSTATS, text="%s | stats %s" % (pre, SSTATS), start=wide[0], end=wide[1]))
        qs.append(dict(name="avgonly/" + pname, kind="global", stats="avg(x)", text="%s | stats avg(x)" % pre, start=wide[0], end=wide[1]))
        if mode != "numstr":     # string-typed measure: group-by is left out (its known count(x)/avg finding C would only repeat here)
            qs.append(dict(name="groupby/" + pname, kind="groupby", stats=GSTATS, text="%s | stats %s by g" % (pre, GSTATS), start=wide[0], end=wide[1]))
    if mode == "bucket":
        for span in (1000, 1500, 2000, 700):
            # (a) range start not aligned, nothing at the end; (b) start aligned, span divides the range; (c) an event exactly at the range end
            ranges = [("wide", wide[0], wide[1]), ("div", T0, T0 + span * ((maxts // span) + 2)), ("tight", T0 + mints, T0 + maxts)]
            for rname, s_, e_ in ranges:
                if e_ <= s_:
                    continue
                qs.append(dict(name="timechart/%d/%s" % (span, rname), kind="timechart", span=span, stats="timechart",
                               text="* | timechart span=%s count, sum(x)" % SPAN_TXT[span], start=s_, end=e_))
            if span in (1000, 2000):
                qs.append(dict(name="bin/%d" % span, kind="bin", span=span, stats="bin",
                               text="* | bin span=%s timestamp | stats count, sum(x) by timestamp" % SPAN_TXT[span], start=wide[0], end=wide[1]))
        # bin with an explicit align time before / inside / after the data (epoch form), every exported (span, align)
        for al in sorted(beh.get("aligned", []), key=lambda a: (a["span"], a["align"])):
            span, a = al["span"], T0 + al["align"]
            opts = "span=%s aligntime=%d" % (SPAN_TXT[span], a) if (span + al["align"]) % 3 else "aligntime=%d span=%s" % (a, SPAN_TXT[span])
            qs.append(dict(name="binalign/%d/%d" % (span, al["align"]), kind="binalign", span=span, align=a, stats="binalign",
                           text="* | bin %s timestamp | stats count, sum(x) by timestamp" % opts, start=wide[0], end=wide[1]))
        for i, rel in enumerate(REL_ALIGN):
            span = (1000, 2000, 500, 1000)[i]
            qs.append(dict(name="binalign/rel/%s" % rel, kind="binalign", span=span, align=None, stats="binalign",
                           text="* | bin span=%s aligntime=%s timestamp | stats count, sum(x) by timestamp" % (SPAN_TXT[span], rel),
                           start=wide[0], end=wide[1]))
    return dict(idx=idx, mode=mode, beh=beh, events=evs, cuts=beh["cuts"], queries=qs)


def extra_known(chk):
    """VERIF_EXTRA_KNOWN=<file in known_findings.json format>: additional findings for this run (used to demonstrate that a
    mutant produces a NEW signature while the proposed findings of docs/C04.known_findings.json are not yet registered)."""
    p = os.environ.get("VERIF_EXTRA_KNOWN")
    if p:
        chk.kf = chk.kf + [k for k in json.load(open(p)).get("findings", []) if k["property"] == chk.pid]


def run(chk):
    quick = chk.tier == "quick"
    extra_known(chk)
    binary = vlib.build_driver()
    sfx = "" if quick else "_deep"

    # ---- model + behaviours (all TLC runs side by side, 2 workers each)
    mc = [("agg", "measure domain: all datasets x all segmentations"), ("group", "group-key domain (absent/empty/numeric/bool/string keys)"),
          ("bucket", "timestamps on/around span boundaries, spans dividing and not dividing")]
    mc.append(("numstr", "string-typed measure: decimal strings, integer string, number look-alikes, absent"))
    jobs = [("mc", c) for c in mc] + [("gen", x) for x in ("agg", "group", "bucket", "numstr")] + [("defect", x) for x in ("min", "avg", "latest", "key", "align")]

    def tlc(job):
        kind, a = job
        if kind == "mc":
            return job, vlib.run_tlc("MC_Aggregations", "MC_Aggregations_%s%s.cfg" % (a[0], sfx), workers=2, timeout=1500,
                                     coverage=bool(os.environ.get("C04_COVERAGE")))
        if kind == "defect":
            return job, vlib.run_tlc("MC_Aggregations", "MC_Aggregations_defect_%s.cfg" % a, workers=1, timeout=300)
        return job, vlib.tlc_generate("Gen_Aggregations", "Gen_Aggregations_%s%s.cfg" % (a, sfx), timeout=1500)
    sens, gens = {}, {}
    for (kind, a), r in vlib.pmap(tlc, jobs, workers=5):
        if kind == "mc":
            vlib.tlc_must_hold(r, "Aggregations/" + a[0])
            chk.add_tlc("MC_Aggregations/" + a[0] + sfx, r, a[1])
        elif kind == "defect":
            if not r.violated:
                raise vlib.Infra("model sensitivity lost: defect variant %s no longer violates an invariant" % a)
            sens[a] = sorted(set(r.violated))
        else:
            beh, rr = r
            chk.add_tlc("Gen_Aggregations/" + a + sfx, rr, "behaviour export")
            if not beh:
                raise vlib.Infra("no behaviours for " + a)
            beh.sort(key=lambda b: json.dumps(b, sort_keys=True))
            gens[a] = beh
    chk.cov["model_sensitivity"] = sens

    # sample DATASETS; each is replayed with the one-part segmentation and with other segmentations of the same dataset
    n = {"agg": 42, "group": 30, "bucket": 16, "numstr": 36} if quick else {"agg": 512, "group": 500, "bucket": 343, "numstr": 250}
    per_ds = 2 if quick else 4
    cases = []
    rnd = random.Random(chk.seed)
    for mode in ("agg", "group", "bucket", "numstr"):
        byds = {}
        for b in gens[mode]:
            byds.setdefault(json.dumps(b["ds"], sort_keys=True), []).append(b)
        for dk in vlib.sample(sorted(byds), n[mode], chk.seed * 31 + len(mode)):
            bs = byds[dk]
            one = [b for b in bs if len(b["cuts"]) == 1 and b["cuts"][0]["act"] == "rotate"]
            multi = [b for b in bs if len(b["cuts"]) > 1]
            pick = one[:1] + rnd.sample(multi, min(per_ds - 1, len(multi)))
            for b in pick:
                if mode == "numstr":
                    b = respell(b, random.Random("%d/%s" % (chk.seed, dk)))    # the same spellings for every segmentation of a dataset
                c = build_case(len(cases), mode, b)
                c["dskey"] = dk
                cases.append(c)

    def do(case):
        res = {}
        try:
            res["aggs-on"] = run_case(binary, case, True)
            if case["idx"] % 3 == 0:
                res["aggs-off"] = run_case(binary, case, False)
        except vlib.DriverDead as ex:
            if ex.kind == "hang":
                raise vlib.Infra("engine did not answer in time (machine load?): %s" % ex)
            return ex
        return flatten(res)
    results = vlib.pmap(do, cases, workers=6)

    found = {}
    for case, res in zip(cases, results):
        chk.replayed(1)
        rp = dict(events=case["events"], cuts=case["cuts"], queries=case["queries"], beh=case["beh"], mode=case["mode"])
        if isinstance(res, vlib.DriverDead):
            feats = "+".join(sorted(set(e["g"]["k"] for e in case["beh"]["ds"])))
            key = "C04:engine-died:group-keys=%s" % feats
            found.setdefault(key, ["engine process died while answering stats queries (%s); dataset %s cuts %s" % (
                res, json.dumps(case["events"]), json.dumps(case["cuts"])), rp, 0])[2] += 1
            continue
        c2 = dict(case, queries=logical_queries(case))
        chk.count((case["mode"], case["idx"]), nontrivial=len(case["cuts"]) > 1 or case["mode"] != "agg", n=len(case["queries"]))
        for key, what in check_case(c2, res):
            found.setdefault(key, [what + "  dataset=%s cuts=%s" % (json.dumps(case["events"]), json.dumps(case["cuts"])), rp, 0])[2] += 1
    # the same dataset, the same query, the same path: the table must not depend on the segmentation
    bydk = {}
    for case, res in zip(cases, results):
        if not isinstance(res, vlib.DriverDead):
            bydk.setdefault(case["dskey"], []).append((case, res))
    for dk, lst in bydk.items():
        base_case, base_res = lst[0]
        for q in logical_queries(base_case):
            if q["kind"] not in ("global", "groupby"):
                continue
            t0 = tables(base_res, q)
            dup = lambda t: len(set((r[0], r[1]) for r in t)) != len(t)
            for case, res in lst[1:]:
                t1 = tables(res, q)
                for p in sorted(set(t0) & set(t1)):
                    if t0[p] != t1[p] and not dup(t0[p]) and not dup(t1[p]):
                        ds, cuts = case["beh"]["ds"], case["beh"]["cuts"]
                        key = "C04:%s:segmentation-dependent:%s" % (feature(ds, "", ds, cuts, ("x", "g")), q["kind"])
                        what = "[%s] `%s` on the same dataset %s: segmentation %s gives %s, segmentation %s gives %s" % (
                            p, q["texts"].get(p.rsplit("/", 1)[1], q["text"]), json.dumps(case["events"]),
                            json.dumps(base_case["cuts"]), t0[p], json.dumps(case["cuts"]), t1[p])
                        rp = dict(events=case["events"], cuts=case["cuts"], queries=case["queries"], beh=case["beh"], mode=case["mode"],
                                  other_cuts=base_case["cuts"])
                        found.setdefault(key, [what, rp, 0])[2] += 1
                        break
    for key in sorted(found):
        what, rp, cnt = found[key]
        chk.violation(key, "%s   [%d occurrences]" % (what, cnt), rp)
    chk.cov["violation_families"] = {k: {"occurrences": v[2], "first": v[0][:700]} for k, v in sorted(found.items())}
    ok = [(c, r) for c, r in zip(cases, results) if not isinstance(r, vlib.DriverDead)]
    for c, r in ok[:2]:
        chk.sample({"events": c["events"], "cuts": c["cuts"], "query": c["queries"][0]["text"],
                    "expected_global": c["beh"]["global"], "got": rows_of(r["aggs-on/star"].get("global", {}))})
    chk.assumptions += [
        "numeric strings count as numbers in sum/min/max/avg (the engine's ingest-time statistics do so); text values are ignored by them",
        "dc may count by spelling or by numeric value; list() is compared as a multiset; a row for events lacking the group field is optional",
        "timestamps are distinct within the measure/group datasets (earliest/latest have no ties); numbers are thousandths, min/max/values compared bit-exactly against the nearest double",
        "time buckets: any alignment is accepted as long as the returned buckets are disjoint, aligned with each other and every event "
        "is counted in the one bucket whose span contains its timestamp",
    ]
    chk.describe(rule="a seeded sample (quick) of TLC's complete behaviours (dataset x segmentation) per domain; each is ingested with its "
                      "segmentation and queried along 2-3 paths. distinct_nontrivial = behaviours with more than one part or from the "
                      "group/bucket domains", exhaustive=False)


def replay(chk, path):
    d = json.load(open(path))
    rp = d["replay"]
    print("key:", d["key"])
    print("what:", d["what"][:1500])
    binary = vlib.build_driver()
    case = dict(idx=0, mode=rp["mode"], beh=rp["beh"], events=rp["events"], cuts=rp["cuts"], queries=rp["queries"])
    flat = flatten({"aggs-on": run_case(binary, case, True), "aggs-off": run_case(binary, case, False)})
    c2 = dict(case, queries=logical_queries(case))
    for p, r in flat.items():
        for qn, resp in r.items():
            print("  [%s] %s -> %s" % (p, qn, json.dumps(rows_of(resp) if "qerr" not in resp else resp)[:600]))
    rc = 0
    for key, what in check_case(c2, flat):
        if key == d["key"]:
            print("REPRODUCED:", what[:800])
            rc = 1
    if rp.get("other_cuts"):
        case2 = dict(case, cuts=rp["other_cuts"])
        flat2 = flatten({"aggs-on": run_case(binary, case2, True), "aggs-off": run_case(binary, case2, False)})
        for q in c2["queries"]:
            if q["kind"] in ("global", "groupby"):
                ta, tb = tables(flat, q), tables(flat2, q)
                for p in sorted(set(ta) & set(tb)):
                    if ta[p] != tb[p]:
                        print("REPRODUCED: [%s] %s: cuts %s -> %s ; cuts %s -> %s" % (p, q["name"], rp["cuts"], ta[p], rp["other_cuts"], tb[p]))
                        rc = 1
    return rc
