"""C11 (I): "ingest calls on one or several indexes" - sequential histories that interleave ingest, flush and rotation of TWO
indexes with the persistent-query machinery on and primed (production default), checked after every round against the
sequential meaning: per index, `stats count by g` and `stats sum(v) by g` must equal the aggregates of exactly the events
ingested into that index (what the spec's quiescent state says: contents = what was ingested, per stream).  Added after the
concurrent two-index stress with the persistent-query machinery on found the pooled StarTreeBuilder defect (group keys of two
indexes' agile trees mixed up); the defect itself needs background activity to manifest and is caught by the stress
(c11_stress, runs with pqs), these sequential histories pin the sequential meaning for several indexes."""
import json
import random

import vlib


def G(idx, i):
    """group of event i: the two indexes meet the group values in different orders"""
    return i % 3 if idx == "a" else (2 * i + 1) % 3


def one(binary, seed, rounds, asym=False):
    d = vlib.scratch("c11ti")
    dr = None
    bad = []
    try:
        dr = vlib.Driver(binary)
        dr.ok("init", dir=d, pqs=True, newpipe=True)
        n = {"a": 0, "b": 0}
        rnd = random.Random(seed)
        hist = []

        def add(idx, k):
            ids = list(range(n[idx] + 1, n[idx] + k + 1))
            n[idx] += k
            body = "".join('{"index":{"_index":"ti%s"}}\n%s\n' % (idx, json.dumps({"id": i, "g": G(idx, i), "v": i, "timestamp": 1700000000000 + i * 10})) for i in ids)
            r = dr.ok("bulk", body=body)
            if r["processed"] != len(ids):
                raise vlib.Infra("bulk ingest failed: %s" % r)
            hist.append("ingest:%s:%d" % (idx, k))

        def q(idx, text, key):
            r = dr.ok("query", text=text, index="ti" + idx, start=1)
            if "qerr" in r or r.get("hang"):
                return {"error": r.get("qerr", "hang")}
            out = {}
            for m in r.get("measure") or []:
                try:
                    out[m["GroupByValues"][0]] = int(float(str(m["MeasureVal"].get(key)).replace(",", "")))
                except (TypeError, ValueError):
                    out[m["GroupByValues"][0]] = None
            return out
        for idx in "ab":
            add(idx, 3)
            dr.ok("flush")
            hist.append("flush")
            for t, k in (("* | stats count by g", "count(*)"), ("* | stats sum(v) by g", "sum(v)")):
                q(idx, t, k)          # primes the tracking of the group-by columns
        dr.ok("rotate")
        hist.append("rotate")
        if asym:
            # one index alone fills and rotates a segment, then the other index starts its segment first
            add("a", 4)
            dr.ok("flush")
            dr.ok("rotate")
            add("b", 5)
            dr.ok("flush")
            add("a", 2)
            dr.ok("flush")
            hist += ["flush", "rotate", "flush", "flush"]
        for rd in range(rounds):
            for _ in range(rnd.randrange(2, 6)):
                add(rnd.choice("ab"), rnd.randrange(1, 9))
                if rnd.random() < 0.6:
                    dr.ok("flush")
                    hist.append("flush")
            if rnd.random() < 0.7:
                dr.ok("rotate")
                hist.append("rotate")
            dr.ok("flush")
            hist.append("flush")
            for idx in "ab":
                expc = {str(g): c for g in range(3) for c in [sum(1 for i in range(1, n[idx] + 1) if G(idx, i) == g)] if c}
                exps = {str(g): sum(i for i in range(1, n[idx] + 1) if G(idx, i) == g) for g in range(3) if str(g) in expc}
                gotc = q(idx, "* | stats count by g", "count(*)")
                gots = q(idx, "* | stats sum(v) by g", "sum(v)")
                if gotc != expc:
                    bad.append(("count_by", "index ti%s after round %d: count by g = %s, ingested %s" % (idx, rd, gotc, expc), list(hist)))
                if gots != exps:
                    bad.append(("sum_by", "index ti%s after round %d: sum(v) by g = %s, ingested %s" % (idx, rd, gots, exps), list(hist)))
            if bad:
                break
        return bad, dict(n)
    finally:
        if dr is not None:
            dr.quit()
        vlib.rmtree(d)


def run(chk, binary):
    quick = chk.tier == "quick"
    seeds = [chk.seed * 100 + i for i in range(6 if quick else 40)]

    def f(s):
        try:
            return one(binary, s, 10 if quick else 16, asym=s % 2 == 0)
        except vlib.DriverDead as e:
            return e
    res = vlib.pmap(f, seeds, workers=6)
    for s, r in zip(seeds, res):
        if isinstance(r, vlib.DriverDead):
            if r.kind == "hang":
                raise vlib.Infra("two-index history did not answer: %s" % r)
            chk.violation("C11:crash:two-index", "engine died during a sequential two-index history (seed %d): %s" % (s, r), {"seed": s})
            continue
        bad, n = r
        chk.replayed(1)
        chk.count(("two-index", s), nontrivial=True)
        seen = set()
        for kind, what, hist in bad:
            if kind in seen:
                continue
            seen.add(kind)
            chk.violation("C11:seq:two-index:" + kind, "sequential history over two indexes with the persistent-query machinery on (seed %d): %s" % (s, what),
                          {"seed": s, "history": hist[-60:], "what": what})
    chk.cov["two_index"] = {"histories": len(seeds)}
