"""C05 - result order, limits and pagination are correct.

Model:
  spec/Searcher.tla   the streaming block scheduler of processor.Searcher (cut-off rule, getNextBlocks with ties and
                      maxBlocks, endTime, merge with unsent records, getValidRRCs), both sort modes, ALL assignments of
                      small timestamps to records in segments x blocks.  Invariants: Sorted, NoDupOut, Complete,
                      PrefixFinal (every released prefix is final), HeadOK, PagesPartition, NoLivelock.
  spec/SortOrder.tla  the order `sort` must produce (rank numeric < string < missing, asc/desc, multi-key) over an
                      abstract value domain with values closer than 1e-4; strict-weak-order laws.
Binding:
  (fn)  every TLC-generated Searcher behaviour is replayed transition by transition on the real getQSRSToProcess /
        getFilteredBlocks / sortBlocks / getNextBlocks / sortRRCs / MergeSortedSlices / getValidRRCs; the output composed
        from the real return values is checked against the property itself.  Sort: every TLC-generated (spec, table) runs
        through the real sort processor (all chunkings) and the real `less` is evaluated on every pair.
  (e2e) sigdrv ingests TLC-enumerated layouts (one bulk+flush per block, rotate per segment; GOMAXPROCS = maxBlocks), runs
        `*`, `* | head n`, paged requests and `* | sort ...` (with and without sort index) and compares with the model.
"""
import json
import os
import random
import re
import subprocess
import time

import vlib

LEVEL = "model_checking"

CLAIMED = True   # set by the lead after review; only claimed checks enter MANIFEST.json
MANIFEST = dict(
    category="model_checking",
    technique="TLA+ spec of the searcher's block scheduler and of the sort order (TLC exhaustive over all small timestamp layouts / value tables) + transition-by-transition replay on the real scheduler functions and the real sort processor, and e2e replay of enumerated layouts through ingest/flush/rotate/query with head, sort and paging",
    text=("spec/Searcher.tla transcribes getQSRSToProcess/getFilteredBlocks/sortBlocks/getNextBlocks/fetchRRCs/getValidRRCs for "
          "recentFirst and recentLast; TLC checks Sorted, NoDupOut, Complete, PrefixFinal, HeadOK, PagesPartition and NoLivelock "
          "for ALL layouts of <=3 segments x <=2 blocks x <=2 records with timestamps 1..3/4 (ties, partial overlaps and containment of up to three ranges, out-of-order), "
          "maxBlocks 1..3. spec/SortOrder.tla states the documented sort order (rank, asc/desc, multi-key, values closer than "
          "1e-4) and TLC checks the strict-weak-order laws. Every generated scheduler behaviour is replayed step by step on the "
          "real functions (in-package) and the composed output checked against the property; every (sort spec, table) runs "
          "through the real sort processor under every chunking; a sample of layouts/tables goes end to end through sigdrv "
          "(flush per block, rotate per segment, GOMAXPROCS=maxBlocks, sort index on/off, head n, from/size paging)."),
    note=("recentLast is never selected by NewQueryProcessor, so it is bound at function level only (the model shows it can "
          "livelock; reported as a note, not a violation). The six glue lines of fetchRRCs are transcribed in the fn harness and "
          "exercised for real only at e2e level. Sort values are an abstract domain of 17 representatives (incl. numeric-looking non-number strings); multi-key tables "
          "have 2 keys x 2 rows; ip() sort and sort on missing columns are not covered. PQS-accelerated blocks are not covered."),
    design_ref="DESIGN.md 4/C05",
)

PKG = "pkg/segment/query/processor"
HDIR = os.path.join(vlib.VERIF, "harness", "inpkg", PKG)
T0 = 1_700_000_000_000


_T = [time.time()]


def _phase(name):
    now = time.time()
    vlib.log("[%s] phase %-28s +%.1fs" % (os.path.basename(__file__)[:3], name, now - _T[0]))
    _T[0] = now


# --------------------------------------------------------------------------- helpers shared with c06

def build_test_binary(sc):
    out = os.path.join(sc, "proc.test")
    files = [os.path.join(HDIR, f) for f in ("zz_verif_pipeline_test.go", "zz_verif_pipelinex_test.go", "zz_verif_searcher_test.go")]
    rc, o = vlib.go_test_inpkg(PKG, files, "XXX_NONE", extra_args=["-c", "-o", out], timeout=1200)
    if rc != 0 or not os.path.exists(out):
        raise vlib.Infra("building the in-package harness failed:\n" + o[-4000:])
    return out


def run_test(binary, sc, test, env):
    e = dict(os.environ)
    e.update(env)
    try:
        p = subprocess.run([binary, "-test.run", test + "$", "-test.timeout", "3000s"], env=e, cwd=sc,
                           stdout=subprocess.PIPE, stderr=subprocess.STDOUT, text=True, timeout=3200)
    except subprocess.TimeoutExpired:
        raise vlib.Infra("in-package harness %s timed out" % test)
    return p.returncode, p.stdout


# --------------------------------------------------------------------------- scheduler, function level

PROP_KINDS = {"prop-unsorted": "returns records out of order", "prop-lost": "loses a record", "prop-dup": "returns a record twice",
              "prop-no-termination": "never reaches EOF"}


def searcher_fn(chk, binary, sc, cfgs, keep):
    total = 0
    drift = []
    for cfg, note in cfgs:
        beh, r = vlib.tlc_generate("Gen_Searcher", cfg + ".cfg", timeout=1500)
        keep[cfg] = beh
        chk.add_tlc(cfg, r, "behaviour generation: " + note)
        if not beh:
            raise vlib.Infra("no behaviours from " + cfg)
        inp, outp = os.path.join(sc, cfg + ".ndjson"), os.path.join(sc, cfg + ".out.json")
        with open(inp, "w") as f:
            for b in beh:
                f.write(json.dumps(b) + "\n")
        rc, o = run_test(binary, sc, "TestVerifSearcher", {"VERIF_SRCH_IN": inp, "VERIF_SRCH_OUT": outp})
        if rc != 0 or not os.path.exists(outp):
            raise vlib.Infra("TestVerifSearcher failed:\n" + o[-3000:])
        res = json.load(open(outp))
        total += res["behaviours"]
        chk.replayed(res["behaviours"])
        chk.count(n=res["steps"])
        for b in beh[:: max(1, len(beh) // 400)]:
            chk.count(("fn", cfg, json.dumps(b["cfg"])), nontrivial=sum(len(s) for s in b["cfg"]) >= 3, n=0)
        chk.cov.setdefault("fn_searcher", {})[cfg] = {"behaviours": res["behaviours"], "transitions": res["transitions"],
                                                     "fail_counts": res["fail_counts"]}
        if beh:
            chk.sample({"kind": "fn-searcher/" + cfg, "case": beh[len(beh) // 2]}, limit=3)
        firstconf = {}
        for fl in res["fails"]:
            if not fl["kind"].startswith("prop-"):
                firstconf.setdefault(fl["beh"], fl)
        seen = set()
        for fl in res["fails"]:
            if fl["kind"].startswith("prop-") and not (fl.get("input") or {}).get("rf", True):
                # recentLast is never selected by NewQueryProcessor: a failure there is not observable behaviour -> drift, not a verdict
                drift.append({"kind": "recentLast:" + fl["kind"], "detail": fl["detail"], "input": fl["input"]})
            elif fl["kind"].startswith("prop-"):
                cause = firstconf.get(fl["beh"])
                fn = cause["kind"] if cause else "composition"
                key = "C05:fn:%s:%s" % (fn, fl["kind"][5:])
                if key in seen:
                    continue
                seen.add(key)
                what = "scheduler composed of the real searcher.go functions %s: %s; layout (segments x blocks x record timestamps) %s, maxBlocks=%s, mode=%s, output %s" % (
                    PROP_KINDS[fl["kind"]], fl["detail"], fl["input"].get("cfg"), fl["input"].get("maxb"),
                    "recentFirst" if fl["input"].get("rf") else "recentLast", fl["input"].get("out"))
                if cause:
                    what += "; first deviation from the spec: real %s %s (input %s)" % (cause["kind"], cause["detail"], json.dumps(cause["input"])[:600])
                chk.violation(key, what, {"kind": "fn-searcher", "behaviour": fl["input"], "cause": cause})
            else:
                drift.append(fl)
        if res["fail_counts"] and not any(k.startswith("prop-") for k in res["fail_counts"]):
            pass
    return total, drift


# --------------------------------------------------------------------------- sort order, function level

# byte-ordered string table of spec/SortOrderConsts.tla: ords 1, 2, 4, 5, 6 only LOOK numeric (0-9 . - + e E), 3 and 7 are numbers
STR_OF_ORD = {1: "1-2", 2: "1.2.3", 3: "10", 4: "10.0.0.7", 5: "10.0.0.9", 6: "2024-01-17", 7: "9", 8: "A", 9: "a", 10: "b"}


def val_class(v):
    if v["k"] == "z":
        return "null"
    if v["k"] == "n":
        return "num"
    return "numstr" if v["isnum"] else ("numlike" if v.get("nl") else "word")


def table_signature(b):
    """which value classes meet in each key column (a class counted up to twice: two values of a class must be ordered
    against each other), whether two numbers are closer than 1e-4, the ops and directions"""
    cols = []
    for ki in range(len(b["spec"])):
        cnt = {}
        for r in b["tbl"]:
            c = val_class(r[ki])
            cnt[c] = min(2, cnt.get(c, 0) + 1)
        cols.append(tuple(sorted(cnt.items())))
    return (tuple(cols), close_pair(b["tbl"]), tuple((e["op"], e["asc"]) for e in b["spec"]))


def table_features(b):
    """coarse features of a (sort spec, table): every unordered pair of value classes that meet in a key column
    (same class twice included: two IPs, two close numbers ...), op and direction of each key, number of keys"""
    f = set()
    for ki, e in enumerate(b["spec"]):
        cls = [val_class(r[ki]) for r in b["tbl"]]
        for i in range(len(cls)):
            for j in range(i + 1, len(cls)):
                if b["tbl"][i][ki] != b["tbl"][j][ki]:
                    f.add(("pair", ki > 0) + tuple(sorted((cls[i], cls[j]))) + (e["op"], e["asc"]))
    if close_pair(b["tbl"]):
        f.add(("close",))
    f.add(("keys", len(b["spec"]), len(b["tbl"])))
    return f


def behaviour_features(b):
    """what the scheduler model DID on a layout (one TLC behaviour): the e2e layouts are chosen so that every kind of
    model transition is exercised in the engine - a cut-off clamp that is active (also when the fetch takes every loaded
    block while segments are still waiting), records carried over in unsentRRCs, a segment that straddles the cut-off and is
    revisited, later rounds, tie groups, fetches without blocks - plus how the segment ranges relate to each other"""
    f = set()
    rem = 0
    rounds = 0
    steps = b["steps"]
    for si, st in enumerate(steps):
        if st["a"] == "GetBlocks":
            rem = len(st["remaining"])
            if st["taken"]:
                rounds += 1
            if set(st["taken"]) & set(st["unproc"]):
                f.add(("segment-straddles-cut-off",))
            if len(st["newBlocks"]) < sum(len(b["cfg"][sg - 1]) for sg in st["taken"]):
                f.add(("block-left-for-a-later-round-or-already-done",))
        elif st["a"] == "Fetch":
            n = len(st["next"])
            takes_all = rem > 0 and n == rem
            if st["endTime"] != st["endTime0"]:
                f.add(("clamp-active", "takes-all-loaded-blocks" if takes_all else "blocks-left"))
                if takes_all and any(x["a"] == "GetBlocks" and x["taken"] for x in steps[si + 1:]):
                    f.add(("clamp-active", "takes-all-loaded-blocks", "segments-still-waiting"))
            if st["nmerged"] > len(st["released"]):
                f.add(("unsent-carried-over",))
            if n == 0:
                f.add(("fetch-without-blocks",))
            if n >= 2:
                f.add(("tie-group-or-several-blocks",))
            rem -= n
    f.add(("rounds", min(rounds, 3)))
    segr = [(min(min(x) for x in sg), max(max(x) for x in sg)) for sg in b["cfg"]]
    for i, a in enumerate(segr):
        for c in segr[i + 1:]:
            if a[1] < c[0] or c[1] < a[0]:
                f.add(("segments", "disjoint"))
            elif a == c:
                f.add(("segments", "same-range"))
            elif (a[0] <= c[0] and c[1] <= a[1]) or (c[0] <= a[0] and a[1] <= c[1]):
                f.add(("segments", "nested"))
            else:
                f.add(("segments", "partial-overlap"))
    f.add(("nseg", len(b["cfg"])))
    return f


def by_features(lines, n, rnd, feat=None):
    """n lines such that every feature is represented as evenly as possible (greedy round-robin over the features)"""
    feat = feat or table_features
    if n is None or len(lines) <= n:
        return list(lines)
    idx = {}
    for i, b in enumerate(lines):
        for f in feat(b):
            idx.setdefault(f, []).append(i)
    feats = sorted(idx, key=repr)
    for f in feats:
        rnd.shuffle(idx[f])
    taken, out = set(), []
    while len(out) < n:
        progressed = False
        for f in feats:
            while idx[f] and idx[f][-1] in taken:
                idx[f].pop()
            if idx[f]:
                i = idx[f].pop()
                taken.add(i)
                out.append(lines[i])
                progressed = True
                if len(out) >= n:
                    break
        if not progressed:
            break
    return out


def stratified(lines, n, rnd, sig=table_signature):
    """n lines, round-robin over the signatures (every combination of value classes is represented, however rare)"""
    if n is None or len(lines) <= n:
        return list(lines)
    strata = {}
    for b in lines:
        strata.setdefault(sig(b), []).append(b)
    keys = sorted(strata, key=repr)
    for k in keys:
        rnd.shuffle(strata[k])
    out = []
    while len(out) < n:
        progressed = False
        for k in keys:
            if strata[k]:
                out.append(strata[k].pop())
                progressed = True
                if len(out) >= n:
                    break
        if not progressed:
            break
    return out


def concrete_val(v):
    """abstract SortOrder value -> JSON value ingested / fed to the processor"""
    if v["k"] == "z":
        return None
    if v["k"] == "s":
        return STR_OF_ORD[v["ord"]]
    x = v["v"]
    if x % 100000 == 0:
        return x // 100000
    return {"f": round(x * 1e-5, 5)}


def sort_spl(spec, limit=0):
    els = []
    for i, e in enumerate(spec):
        f = "k%d" % (i + 1)
        if e["op"] == "num":
            f = "num(%s)" % f
        elif e["op"] == "str":
            f = "str(%s)" % f
        els.append(("" if e["asc"] else "-") + f)
    return "sort %s%s" % ("%d " % limit if limit else "", ", ".join(els))


def close_pair(tbl):
    """does the table contain two numeric values that differ by less than 1e-4 (but differ)?"""
    for ki in range(len(tbl[0])):
        nums = [r[ki]["v"] for r in tbl if r[ki]["isnum"]]
        for i in range(len(nums)):
            for j in range(i + 1, len(nums)):
                if nums[i] != nums[j] and abs(nums[i] - nums[j]) < 10:
                    return True
    return False


def compositions(n):
    if n == 0:
        return [[]]
    out = []
    for k in range(1, n + 1):
        for rest in compositions(n - k):
            out.append([k] + rest)
    return out


def sort_cases(lines, rnd, quick):
    cases, meta = [], {}
    for li, b in enumerate(lines):
        tbl = b["tbl"]
        n = len(tbl)
        nk = len(b["spec"])
        cols = ["id"] + ["k%d" % (i + 1) for i in range(nk)]
        rows = [[i + 1] + [concrete_val(v) for v in r] for i, r in enumerate(tbl)]
        limits = [0] + ([rnd.randrange(1, n)] if n >= 2 else [])
        chunks = compositions(n)
        if quick and len(chunks) > 3:
            chunks = [[n]] + rnd.sample(chunks[1:], 2)
        for lim in limits:
            for ci, sz in enumerate(chunks):
                batches, i = [], 0
                for k in sz:
                    batches.append(list(range(i, i + k)))
                    i += k
                cid = "s%d/%d/%d" % (li, lim, ci)
                cases.append({"id": cid, "spl": sort_spl(b["spec"], lim), "cols": cols, "rows": rows, "streams": [batches], "eof_last": False, "par": 1})
                meta[cid] = (li, lim, sz)
    return cases, meta


def run_pipe_cases(binary, sc, cases, shards=6):
    if not cases:
        return {}
    shards = max(1, min(shards, len(cases) // 300 + 1))
    parts = [cases[i::shards] for i in range(shards)]

    def one(ix):
        inp, outp = os.path.join(sc, "pin%d.ndjson" % ix), os.path.join(sc, "pout%d.ndjson" % ix)
        with open(inp, "w") as f:
            for c in parts[ix]:
                f.write(json.dumps(c) + "\n")
        if os.path.exists(outp):
            os.unlink(outp)
        run_test(binary, sc, "TestVerifPipeline", {"VERIF_PIPE_IN": inp, "VERIF_PIPE_OUT": outp})
        res = {}
        if os.path.exists(outp):
            for line in open(outp):
                try:
                    r = json.loads(line)
                    res[r["id"]] = r
                except ValueError:
                    pass
        return res
    allres = {}
    for res in vlib.pmap(one, range(shards), workers=shards):
        allres.update(res)
    return allres


def admissible(ids, expect, limit):
    for p in expect:
        want = p[:limit] if limit else p
        if ids == want:
            return True
    return False


def sort_key(b, level):
    cls = "values-closer-than-1e-4" if close_pair(b["tbl"]) else "order"
    return "C05:sort:%s:%s" % (cls, level)


def sort_fn(chk, binary, sc, lines, rnd, quick):
    cases, meta = sort_cases(lines, rnd, quick)
    t0 = time.time()
    res = run_pipe_cases(binary, sc, cases)
    vlib.log("[c05] sort fn: %d runs of the real sort processor in %.1fs" % (len(cases), time.time() - t0))
    reported = {}
    missing = 0
    for cid, (li, lim, sz) in meta.items():
        b = lines[li]
        r = res.get(cid)
        if r is None or r.get("hang"):
            missing += 1
            continue
        chk.count(("sortfn", li), nontrivial=len(b["tbl"]) >= 2)
        if r.get("panic") or r.get("err"):
            key = "C05:sort:%s:fn" % ("crash" if r.get("panic") else "error")
            if key not in reported:
                reported[key] = 1
                chk.violation(key, "`%s` on rows %s: %s" % (r.get("spl", sort_spl(b["spec"], lim)), b["tbl"], (r.get("panic") or r.get("err"))[:600]),
                              {"kind": "sort-fn", "spec": b["spec"], "tbl": b["tbl"], "limit": lim, "sizes": sz})
            continue
        ids = [int(x["id"][1]) for x in r.get("rows") or []]
        if not admissible(ids, b["expect"], lim):
            key = sort_key(b, "fn")
            reported[key] = reported.get(key, 0) + 1
            if reported[key] > 1:
                continue
            rows = [[i + 1] + [concrete_val(v) for v in rr] for i, rr in enumerate(b["tbl"])]
            chk.violation(key, "`%s` over rows (id, keys) %s delivered in batches of %s: real sort processor returned ids %s; orders with no adjacent pair out of order: %s" % (
                sort_spl(b["spec"], lim), rows, sz, ids, [p[:lim] if lim else p for p in b["expect"][:4]]),
                {"kind": "sort-fn", "spl": sort_spl(b["spec"], lim), "cols": ["id"] + ["k%d" % (i + 1) for i in range(len(b["spec"]))],
                 "rows": rows, "sizes": sz, "expect": b["expect"], "got": ids})
    for li in range(0, len(lines), max(1, len(lines) // 3)):
        chk.replayed(1)
    chk.replayed(len(lines))
    chk.cov["fn_sort"] = {"tables": len(lines), "runs": len(cases), "violating": reported}
    if missing > len(cases) // 20 + 5:
        raise vlib.Infra("sort fn: %d runs without result" % missing)


def less_fn(chk, binary, sc, lines):
    """the real compareValues / less on every ordered pair of 1-key values: derived from the 2-row tables"""
    pairs = []
    for b in lines:
        if len(b["tbl"]) == 2 and len(b["spec"]) == 1:
            e = b["expect"]
            rel = "eq" if len(e) == 2 else ("lt" if e[0] == [1, 2] else "gt")
            pairs.append({"a": concrete_val(b["tbl"][0][0]), "b": concrete_val(b["tbl"][1][0]), "asc": b["spec"][0]["asc"],
                          "op": b["spec"][0]["op"], "rel": rel, "close": close_pair(b["tbl"])})
    inp, outp = os.path.join(sc, "less.json"), os.path.join(sc, "less.out.json")
    json.dump(pairs, open(inp, "w"))
    rc, o = run_test(binary, sc, "TestVerifSortLess", {"VERIF_LESS_IN": inp, "VERIF_LESS_OUT": outp})
    if rc != 0 or not os.path.exists(outp):
        raise vlib.Infra("TestVerifSortLess failed:\n" + o[-3000:])
    res = json.load(open(outp))
    chk.count(n=len(pairs))
    seen = set()
    for f in res["fails"]:
        p = pairs[f["i"]]
        key = "C05:sort:%s:less" % ("values-closer-than-1e-4" if p["close"] else "order")
        if key in seen:
            continue
        seen.add(key)
        chk.violation(key, "real compareValues(%s, %s, asc=%s, op=%s) = %s, documented order says %s" % (
            json.dumps(p["a"]), json.dumps(p["b"]), p["asc"], p["op"], f["got"], p["rel"]),
            {"kind": "less", "pair": p, "got": f["got"]})
    chk.cov["fn_less"] = {"pairs": len(pairs), "mismatches": len(res["fails"])}


# --------------------------------------------------------------------------- e2e

def bulk_body(index, docs):
    return "".join(json.dumps({"index": {"_index": index}}) + "\n" + json.dumps(d) + "\n" for d in docs)


def ingest_layout(dr, index, segs, rotate_last):
    """segs: list of segments; a segment is a list of blocks; a block is a list of docs"""
    for si, seg in enumerate(segs):
        for blk in seg:
            r = dr.ok("bulk", body=bulk_body(index, blk))
            if r["response"].get("errors") or r.get("herr"):
                raise vlib.Infra("bulk rejected: %s" % r)
            dr.ok("flush")
        if si < len(segs) - 1 or rotate_last:
            dr.ok("rotate")


def layout_matches(lay, segs, tsof):
    got = sorted(sorted((b["lo"], b["hi"], b["n"]) for b in s["blocks"]) for s in lay)
    want = sorted(sorted((min(tsof(d) for d in blk), max(tsof(d) for d in blk), len(blk)) for blk in seg) for seg in segs)
    return got == want, got, want


def hits(resp):
    if not isinstance(resp, dict) or resp.get("qerr") or resp.get("hang"):
        return None
    return (resp.get("hits") or {}).get("records") or []


def e2e_layout_case(binary, case):
    d = vlib.scratch("c05e2e")
    dr = None
    out = {"fails": [], "queries": 0}
    try:
        dr = vlib.Driver(binary, env={"SIGDRV_GOMAXPROCS": str(case["maxb"])})
        dr.ok("init", dir=d, newpipe=True)
        segs, rid = [], 0
        allrecs = []
        for seg in case["cfg"]:
            sblocks = []
            for blk in seg:
                docs = []
                for ts in blk:
                    rid += 1
                    docs.append({"rid": rid, "timestamp": T0 + ts, "v": ts})
                    allrecs.append((rid, ts))
                random.Random(case["seed"] + rid).shuffle(docs)
                sblocks.append(docs)
            segs.append(sblocks)
        ingest_layout(dr, "c05", segs, case["rotate_last"])
        lay = dr.ok("c05_layout")
        ok, got, want = layout_matches(lay, segs, lambda dd: dd["timestamp"])
        if not ok:
            out["infra"] = "layout on disk %s differs from the intended %s" % (got, want)
            return out
        total = sorted((ts for _, ts in allrecs), reverse=True)
        ids_all = sorted(r for r, _ in allrecs)
        tsof = dict(allrecs)

        class Hang(Exception):
            pass

        def q(text, **kw):
            out["queries"] += 1
            r = dr.ok("query", text=text, index="c05", start=T0 - 1000, end=T0 + 100000, timeout_ms=20000, **kw)
            if isinstance(r, dict) and r.get("hang"):
                out["hang"] = out.get("hang", 0) + 1
                out["hang_query"] = text + (" %s" % kw if kw else "")
                raise Hang()       # the engine is still spinning on that query: abandon this driver
            return r

        def check(name, resp, want_ts, exact_ids=None):
            h = hits(resp)
            if h is None:
                if isinstance(resp, dict) and resp.get("hang"):
                    out["hang"] = out.get("hang", 0) + 1
                    return None
                out["fails"].append(("query-error", name, str(resp)[:300]))
                return None
            got_ts = [x.get("timestamp", 0) - T0 for x in h]
            got_ids = [x.get("rid") for x in h]
            if any(tsof.get(i) != t for i, t in zip(got_ids, got_ts)):
                out["fails"].append(("content", name, "records %s carry timestamps %s, ingested %s" % (got_ids, got_ts, [tsof.get(i) for i in got_ids])))
            if len(set(got_ids)) != len(got_ids):
                out["fails"].append(("duplicate", name, "ids %s" % got_ids))
            if got_ts != want_ts:
                kind = "unsorted" if sorted(got_ts, reverse=True) != got_ts else ("wrong-set" if len(got_ts) == len(want_ts) else "wrong-count")
                out["fails"].append((kind, name, "timestamps %s, expected %s (ids %s)" % (got_ts, want_ts, got_ids)))
            elif exact_ids is not None and sorted(got_ids) != exact_ids:
                out["fails"].append(("wrong-set", name, "ids %s, expected a permutation of %s" % (got_ids, exact_ids)))
            return got_ids

        check("*", q("*"), total, ids_all)
        for n in case["heads"]:
            check("* | head %d" % n, q("* | head %d" % n), total[:n])
        for k in case["pages"]:
            seen, tsseq = [], []
            frm = 0
            while frm <= len(total):
                r = q("*", size=k, **{"from": frm})
                ids = check("* from=%d size=%d" % (frm, k), r, total[frm:frm + k])
                if ids is None:
                    break
                seen += ids
                frm += k
            if sorted(seen) != ids_all and not out.get("hang"):
                dup = sorted(set(x for x in seen if seen.count(x) > 1))
                lost = sorted(set(ids_all) - set(seen))
                tied = all(tsof[x] in [tsof[y] for y in dup] for x in lost) and all(tsof[x] in [tsof[y] for y in lost] for x in dup)
                out["fails"].append(("ties-duplicated-and-lost" if tied and dup and lost else "paging", "pages of %d" % k,
                                     "ids over all pages %s: returned twice %s, never returned %s (timestamps %s)" % (
                                         seen, dup, lost, {i: tsof[i] for i in dup + lost})))
        return out
    except vlib.DriverDead as e:
        if e.kind == "hang":
            out["hang"] = out.get("hang", 0) + 1
        else:
            out["fails"].append(("engine-died", "", str(e)))
        return out
    except Exception as e:
        if type(e).__name__ == "Hang":
            return out
        raise
    finally:
        if dr is not None:
            if out.get("hang"):
                dr.kill()
            else:
                dr.quit()
        vlib.rmtree(d)


def e2e_sort_case(binary, case):
    """tables of SortOrder ingested over blocks/segments, optionally with a sort index on k1"""
    d = vlib.scratch("c05srt")
    dr = None
    out = {"fails": [], "queries": 0}
    try:
        dr = vlib.Driver(binary, env={"SIGDRV_GOMAXPROCS": str(case["maxb"])})
        dr.ok("init", dir=d, newpipe=True)
        if case["sortindex"]:
            dr.ok("c05_sortcols", index="c05s", columns=["k1"])
        b = case["line"]
        n = len(b["tbl"])
        docs = []
        for i, r in enumerate(b["tbl"]):
            dd = {"rid": i + 1, "timestamp": T0 + (n - i) * 1000}
            for ki, v in enumerate(r):
                cv = concrete_val(v)
                if cv is not None:
                    dd["k%d" % (ki + 1)] = cv["f"] if isinstance(cv, dict) else cv
            docs.append(dd)
        segs, i = [], 0
        cur = []
        for k, kind in zip(case["sizes"], case["layout"]):
            cur.append(docs[i:i + k])
            i += k
            if kind == "seg":
                segs.append(cur)
                cur = []
        if cur:
            segs.append(cur)
        ingest_layout(dr, "c05s", segs, case["rotate_last"])
        if case["sortindex"]:
            dr.ok("c05_wait_sortindex")
        for lim in case["limits"]:
            spl = sort_spl(b["spec"], lim)
            out["queries"] += 1
            r = dr.ok("query", text="* | " + spl, index="c05s", start=T0 - 1000, end=T0 + 10_000_000, timeout_ms=30000)
            h = hits(r)
            if h is None:
                if isinstance(r, dict) and r.get("hang"):
                    out["hang"] = 1
                else:
                    out["fails"].append(("error", spl, str(r)[:400]))
                continue
            ids = [x.get("rid") for x in h]
            if len(set(ids)) != len(ids):
                out["fails"].append(("duplicate-records", spl, "engine returned ids %s for %d ingested records" % (ids, n)))
                ded = []
                for x in ids:
                    if x not in ded:
                        ded.append(x)
                ids = ded if not lim else None
            if ids is not None and not admissible(ids, b["expect"], lim):
                out["fails"].append(("order", spl, "engine returned ids %s; orders with no adjacent pair out of order: %s" % (
                    ids, [p[:lim] if lim else p for p in b["expect"][:4]])))
        return out
    except vlib.DriverDead as e:
        if e.kind == "hang":
            out["hang"] = 1
        else:
            out["fails"].append(("engine-died", "", str(e)))
        return out
    finally:
        if dr is not None:
            dr.quit()
        vlib.rmtree(d)


def run(chk):
    quick = chk.tier == "quick"
    rnd = random.Random(chk.seed)
    _T[0] = time.time()

    # ---- model: scheduler
    if quick:
        mcs = [("MC_Searcher_q_rf1", "recentFirst maxBlocks=1, 2 seg x <=2 blk x <=2 rec, ts 1..3"),
               ("MC_Searcher_q_rf2", "recentFirst maxBlocks=2"),
               ("MC_Searcher_q_rl1", "recentLast maxBlocks=1 (all but NoLivelock)"),
               ("MC_Searcher_q_rf3seg", "recentFirst, 3 segments x <=2 single-record blocks, maxBlocks=2"),
               ("MC_Searcher_q_rf3ov", "recentFirst, 3 segments x 1 block x <=2 records, ts 1..4 (partial overlaps / containment of three ranges), maxBlocks=2")]
    else:
        mcs = [("MC_Searcher_rf1", "recentFirst maxBlocks=1, 2 seg x <=2 blk x <=2 rec, ts 1..4"), ("MC_Searcher_rf2", "maxBlocks=2"),
               ("MC_Searcher_rf3", "maxBlocks=3"), ("MC_Searcher_rl1", "recentLast maxBlocks=1"), ("MC_Searcher_rl2", "recentLast maxBlocks=2"),
               ("MC_Searcher_q_rf3ov", "recentFirst, 3 segments x 1 block x <=2 records, ts 1..4, maxBlocks=2"),
               ("MC_Searcher_deep_rf2", "recentFirst, 3 seg x <=2 blk x <=2 rec, ts 1..3, maxBlocks=2")]
    if os.environ.get("VERIF_DEV_SKIP_MC"):   # development only (mutant runs): the model runs do not depend on the Go tree
        mcs = []
    for i, (cfg, note) in enumerate(mcs):
        r = vlib.run_tlc("MC_Searcher", cfg + ".cfg", timeout=1500, workers=6, coverage=(quick and i == 3))
        vlib.tlc_must_hold(r, cfg)
        chk.add_tlc(cfg, r, "Sorted/NoDupOut/NoInvent/Complete/PrefixFinal/HeadOK/PagesPartition/NoLivelock: " + note)
    _phase("tlc searcher")
    rl = vlib.run_tlc("MC_Searcher", "MC_Searcher_q_rl1_livelock.cfg", timeout=600, workers=4)
    chk.cov["model_findings"] = ["recentLast mode (never selected by NewQueryProcessor): NoLivelock %s - getNextBlocks returns 0 for 'no blocks', "
                                 "min(0, cutOff) = 0 releases nothing, unsent records are never returned" % ("violated" if rl.violated else "holds")]
    # ---- model: sort order
    for cfg in ("MC_SortOrderLaw_auto", "MC_SortOrderLaw_str", "MC_SortOrderLaw_2key"):
        r = vlib.run_tlc("MC_SortOrderLaw", cfg + ".cfg", timeout=600, workers=4)
        if r.error or "is false" in r.out:
            raise vlib.Infra("%s: order laws do not hold for the documented order\n%s" % (cfg, r.out[-2000:]))
        chk.add_tlc(cfg, r, "strict weak order + rank order of the documented sort order (constant-level, checked as ASSUME)")
    for cfg in ("MC_SortOrder_auto", "MC_SortOrder_str", "MC_SortOrder_2key"):
        r = vlib.run_tlc("MC_SortOrder", cfg + ".cfg", timeout=600, workers=4)
        vlib.tlc_must_hold(r, cfg)
        chk.add_tlc(cfg, r, "SortExists/AdjacentIsTotal over all tables")
    rt = vlib.run_tlc("MC_SortOrderLaw", "MC_SortOrderLaw_tol.cfg", timeout=600, workers=4)
    if "is false" not in rt.out:
        raise vlib.Infra("model sensitivity lost: tolerance 1e-4 in the numeric comparison no longer breaks the order laws")
    rk = vlib.run_tlc("MC_SortOrderLaw", "MC_SortOrderLaw_looks.cfg", timeout=600, workers=4)
    if "is false" not in rk.out:
        raise vlib.Infra("model sensitivity lost: ranking numeric-LOOKING strings as numbers no longer breaks the StringOrder law")
    chk.cov["model_sensitivity_2"] = ("RankByLooks=TRUE (a string made of 0-9.-+eE ranks as a number although it does not convert) makes "
                                      "StringOrder fail at model level: IPs / dates / versions are no longer ordered against each other")
    chk.cov["model_sensitivity"] = ("Tol=10 (compareFloat uses dtypeutils.AlmostEquals, |a-b|<1e-4 => EQUAL) makes `less` fail the "
                                    "strict-weak-order laws at model level - replay candidate, see the C05:sort:values-closer-than-1e-4 keys")

    _phase("tlc sortorder")
    sc = vlib.scratch("c05")
    try:
        binary = build_test_binary(sc)
        # ---- scheduler, fn level
        if quick:
            gens = [("Gen_Searcher_q_rf1", "recentFirst maxBlocks=1"), ("Gen_Searcher_q_rf2", "recentFirst maxBlocks=2"),
                    ("Gen_Searcher_q_rl1", "recentLast maxBlocks=1"), ("Gen_Searcher_q_rf3seg", "3 segments"),
                    ("Gen_Searcher_q_rf3ov", "3 overlapping segments")]
        else:
            gens = [("Gen_Searcher_rf1", "recentFirst maxBlocks=1"), ("Gen_Searcher_rf2", "maxBlocks=2"), ("Gen_Searcher_rf3", "maxBlocks=3"),
                    ("Gen_Searcher_rl1", "recentLast maxBlocks=1"), ("Gen_Searcher_rl2", "recentLast maxBlocks=2"),
                    ("Gen_Searcher_q_rf3seg", "3 segments"), ("Gen_Searcher_q_rf3ov", "3 overlapping segments")]
        _phase("build")
        kept = {}
        total, drift = searcher_fn(chk, binary, sc, gens, kept)
        _phase("searcher fn")
        # ---- sort order, fn level
        slines = []
        for cfg in (("Gen_SortOrder_auto", "Gen_SortOrder_str", "Gen_SortOrder_2key") if quick else
                    ("Gen_SortOrder_auto4", "Gen_SortOrder_str", "Gen_SortOrder_2key")):
            beh, r = vlib.tlc_generate("Gen_SortOrder", cfg + ".cfg", timeout=1500)
            chk.add_tlc(cfg, r, "behaviour generation: sort tables with their admissible orders")
            slines += beh
        _phase("gen sort")
        less_fn(chk, binary, sc, slines)
        sample = by_features(slines, 4000 if quick else 30000, random.Random(chk.seed))
        sort_fn(chk, binary, sc, sample, rnd, quick)
    finally:
        vlib.rmtree(sc)

    _phase("sort fn")
    # ---- e2e
    drv = vlib.build_driver()
    beh_rf = []
    for cfg in (("Gen_Searcher_q_rf2", "Gen_Searcher_q_rf3seg", "Gen_Searcher_q_rf3ov") if quick else
                ("Gen_Searcher_rf2", "Gen_Searcher_q_rf3seg", "Gen_Searcher_q_rf3ov")):
        beh_rf += kept[cfg]
    # distinct layouts; the features of a layout are those of all its behaviours (orders of tied segments)
    layouts = {}
    for b in beh_rf:
        k = json.dumps(b["cfg"])
        if k not in layouts:
            layouts[k] = {"cfg": b["cfg"], "feat": set()}
        layouts[k]["feat"] |= behaviour_features(b)
    lay = [x for x in layouts.values() if sum(len(bk) for sg in x["cfg"] for bk in sg) >= 2]
    lay.sort(key=lambda x: json.dumps(x["cfg"]))
    n_lay = 96 if quick else 700
    chosen = by_features(lay, n_lay, rnd, feat=lambda x: x["feat"])
    chk.cov["e2e_layout_features"] = sorted(set(repr(f) for x in chosen for f in x["feat"]))
    cases = []
    for i, cfg in enumerate(x["cfg"] for x in chosen):
        nrec = sum(len(b) for s in cfg for b in s)
        cases.append({"cfg": cfg, "maxb": rnd.choice([1, 1, 2, 3]), "rotate_last": rnd.random() < 0.5, "seed": chk.seed * 1000 + i,
                      "heads": sorted(set(rnd.randrange(1, nrec + 1) for _ in range(2))) if nrec else [],
                      "pages": [rnd.choice([1, 2, 3])]})
    _phase("gen e2e")
    results = vlib.pmap(lambda c: e2e_layout_case(drv, c), cases, workers=6)
    _phase("e2e layouts")
    hangs = infra = nq = 0
    seen = set()
    for c, r in zip(cases, results):
        nq += r["queries"]
        if r.get("infra"):
            infra += 1
            continue
        hangs += r.get("hang", 0)
        chk.replayed(1)
        chk.count(("e2e-layout", json.dumps(c["cfg"])), nontrivial=sum(len(s) for s in c["cfg"]) >= 2, n=r["queries"])
        for kind, name, detail in r["fails"]:
            key = "C05:e2e:%s:%s" % ("head" if "head" in name else "page" if ("from=" in name or name.startswith("pages of")) else "default-order", kind)
            if key in seen:
                continue
            seen.add(key)
            chk.violation(key, "layout (segments x blocks x record timestamps) %s, GOMAXPROCS=%d, last segment %s: `%s`: %s" % (
                c["cfg"], c["maxb"], "rotated" if c["rotate_last"] else "unrotated", name, detail), {"kind": "e2e-layout", "case": c})
    if cases:
        chk.sample({"kind": "e2e-layout", "case": cases[0]})
    chk.cov["e2e_layout"] = {"layouts": len(cases), "queries": nq, "hangs_ignored": hangs, "layout_mismatch_skipped": infra}
    if hangs:
        # a hang under machine load is not evidence: re-run up to three hanging layouts alone, one at a time
        confirmed = []
        for c, r in list(zip(cases, results)):
            if r.get("hang") and len(confirmed) < 3:
                again = [e2e_layout_case(drv, c) for _ in range(2)]
                if all(x.get("hang") for x in again):
                    confirmed.append((c, again[0].get("hang_query")))
        if len(confirmed) >= 2:
            c, qtext = confirmed[0]
            chk.violation("C05:e2e:query-never-completes", "layout %s, GOMAXPROCS=%d: query `%s` did not answer within 20 s in three separate engine processes "
                          "(8 or fewer records; the other queries of the run answer in milliseconds)" % (c["cfg"], c["maxb"], qtext),
                          {"kind": "e2e-layout", "case": c})
        elif hangs > max(3, len(cases) // 5):
            raise vlib.Infra("e2e: %d hangs, not reproducible in isolation" % hangs)
    if infra > len(cases) // 4:
        raise vlib.Infra("e2e: %d layouts not realised" % infra)

    # sort e2e
    scand = by_features([b for b in slines if len(b["tbl"]) >= 2], 72 if quick else 500, rnd)
    scases = []
    for b in scand:
        n = len(b["tbl"])
        sizes = rnd.choice(compositions(n))
        scases.append({"line": b, "sizes": sizes, "layout": [rnd.choice(["blk", "seg"]) for _ in sizes], "rotate_last": rnd.random() < 0.5,
                       "sortindex": rnd.random() < 0.5, "maxb": rnd.choice([1, 2, 4]), "limits": [0] + ([rnd.randrange(1, n)] if n >= 2 else [])})
    sres = vlib.pmap(lambda c: e2e_sort_case(drv, c), scases, workers=6)
    _phase("e2e sort")
    shang = 0
    for c, r in zip(scases, sres):
        shang += r.get("hang", 0)
        chk.replayed(1)
        chk.count(("e2e-sort", json.dumps(c["line"]["tbl"]), json.dumps(c["line"]["spec"])), nontrivial=True, n=r["queries"])
        for kind, name, detail in r["fails"]:
            b = c["line"]
            key = sort_key(b, "e2e") if kind == "order" else "C05:sort:e2e:%s%s" % (kind, ":with-sort-index" if c["sortindex"] else "")
            if (kind == "order" and c["sortindex"] and not b["spec"][0]["asc"] and re.match(r"sort \d+ ", name)
                    and any(r[0]["k"] == "z" for r in b["tbl"])):
                # the sort index lists records without the field last; read in reverse for a descending sort they come
                # first and the searcher's early exit at the limit keeps them (was masked by the duplicate-records finding)
                key = "C05:sort:e2e:sort-index-desc-limit-keeps-missing-values"
            if key in seen:
                continue
            seen.add(key)
            rows = [[i + 1] + [concrete_val(v) for v in rr] for i, rr in enumerate(b["tbl"])]
            chk.violation(key, "rows (id, keys) %s ingested as blocks %s %s (sort index on k1: %s, GOMAXPROCS=%d): `* | %s`: %s" % (
                rows, c["sizes"], c["layout"], c["sortindex"], c["maxb"], name, detail),
                {"kind": "e2e-sort", "rows": rows, "sizes": c["sizes"], "layout": c["layout"], "sortindex": c["sortindex"],
                 "rotate_last": c["rotate_last"], "maxb": c["maxb"], "spl": name})
    chk.cov["e2e_sort"] = {"cases": len(scases), "hangs_ignored": shang}

    if drift and not chk.violations:
        f = drift[0]
        raise vlib.Infra("SPEC-DRIFT: real %s deviates from spec/Searcher.tla while every composed output still satisfies the property: %s (input %s)" % (
            f["kind"], f["detail"], json.dumps(f["input"])[:800]))
    if drift:
        chk.cov["spec_drift"] = [{"fn": f["kind"], "detail": f["detail"]} for f in drift[:5]]

    chk.assumptions += [
        "timestamps are small integers added to a fixed epoch; a record is (timestamp, segment, block, ordinal)",
        "ties (equal timestamps / equal sort keys) may be returned in any order: compared as timestamp sequences and id sets",
        "the order of segments with equal end time is the model's nondeterministic choice (sort.Slice), all choices explored",
        "sort values: 17 representatives (numbers in 1e-5 units incl. pairs closer than 1e-4, numeric strings, numeric-looking non-number strings (IP, date, a-b), words, missing)",
    ]
    chk.describe(rule="TLC enumerates every layout / every (sort spec, table); each generated behaviour is one replay. distinct_nontrivial = "
                      "distinct layouts with >= 3 records replayed at fn level (sampled count) + sort tables with >= 2 rows + e2e layouts / sort "
                      "cases with >= 2 records",
                 exhaustive=False)


def replay(chk, path):
    d = json.load(open(path))
    print(json.dumps({k: d[k] for k in ("property", "key", "what")}, indent=1))
    rp = d.get("replay", {})
    if rp.get("kind") == "sort-fn":
        sc = vlib.scratch("c05r")
        try:
            binary = build_test_binary(sc)
            rows = rp["rows"]
            n = len(rows)
            variants = [("single batch", [list(range(n))]), ("one row per batch", [[i] for i in range(n)])]
            cases = [{"id": nm, "spl": rp["spl"], "cols": rp["cols"], "rows": rows, "streams": [bs], "eof_last": False, "par": 1} for nm, bs in variants]
            res = run_pipe_cases(binary, sc, cases, shards=1)
            for nm, _ in variants:
                print("%-20s -> ids %s" % (nm, [x["id"][1] for x in (res.get(nm, {}).get("rows") or [])]))
        finally:
            vlib.rmtree(sc)
    elif rp.get("kind") == "e2e-layout":
        r = e2e_layout_case(vlib.build_driver(), rp["case"])
        print(json.dumps(r, indent=1)[:3000])
    else:
        print(json.dumps(rp, indent=1)[:4000])
    return 0
