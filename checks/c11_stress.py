"""C11 (C): free-running concurrent stress on the real engine (harness op vis_stress): ingesters on several indexes,
millisecond flush timers, forced rotations and concurrent queries of several forms; each answer is checked against the
bounds the spec gives (ids flushed-visible before the query began  subset-of  answer  subset-of  ids ever ingested, each once);
a watchdog reports a stall as deadlock; at quiescence the contents must equal the sequential result.  Every third run
lets events bring late columns; two (quick) / six (thorough) runs bring 12 never-seen column names per event with six
searchers, so that every flush rewrites the open segment's column tables while searches copy them."""
import vlib


def one(binary, case):
    d = vlib.scratch("c11s")
    dr = None
    try:
        dr = vlib.Driver(binary, env={"SIGDRV_GOMAXPROCS": str(case["procs"])},
                         stderr_path=("%s/stderr-%s.txt" % (case["diag"], case["seed"])) if case.get("diag") else None)
        # persistent-query acceleration (production default) is on in every third run: rotations then write agile trees and
        # queries are answered from persisted match results where they exist
        dr.ok("init", dir=d, pqs=bool(case.get("pqs")), **({"logfile": "%s/log-%s.txt" % (case["diag"], case["seed"])} if case.get("diag") else {}))
        return dr.ok("vis_stress", indexes=case["indexes"], ms=case["ms"], seed=case["seed"], queriers=case["queriers"], diag=case.get("diag", ""), new_cols=case.get("new_cols", False), new_cols_n=case.get("new_cols_n", 1), timeout=180)
    finally:
        if dr is not None:
            dr.quit()
        vlib.rmtree(d)


def first_ingest(chk, binary, quick):
    """racing FIRST ingests of new indexes: every acknowledged event must be searchable exactly once after the flush"""
    def one_proc(k):
        d = vlib.scratch("c11fi")
        dr = None
        try:
            dr = vlib.Driver(binary, env={"SIGDRV_GOMAXPROCS": "16"})
            dr.ok("init", dir=d, pqs=False)
            return dr.ok("first_ingest", goroutines=8, events=3, rounds=12 if quick else 40, timeout=120)
        except vlib.DriverDead as e:
            return e
        finally:
            if dr is not None:
                dr.quit()
            vlib.rmtree(d)
    res = vlib.pmap(one_proc, list(range(3 if quick else 10)), workers=3)
    rounds = 0
    for r in res:
        if isinstance(r, vlib.DriverDead):
            if r.kind == "hang":
                raise vlib.Infra("first-ingest scenario did not answer: %s" % r)
            chk.violation("C11:crash:first-ingest", "engine died while the first ingest requests of new indexes raced: %s" % r, {})
            continue
        chk.replayed(1)
        for rd in r["rounds"]:
            rounds += 1
            chk.count(("first-ingest", rounds), nontrivial=True)
            if rd.get("query_error") or rd["errors"]:
                chk.violation("C11:error:first-ingest", "racing first ingests of index %s: ingest/query error %s %s" % (rd["index"], rd["errors"][:2], rd.get("query_error")), rd)
            elif rd["found"] < rd["acked"]:
                chk.violation("C11:loss:first-ingest", "8 goroutines made the first ingest into the new index %s at the same time: %d events were acknowledged, "
                              "only %d are searchable after the flush" % (rd["index"], rd["acked"], rd["found"]), rd)
            elif rd["dup"] or rd["found"] > rd["acked"]:
                chk.violation("C11:dup:first-ingest", "racing first ingests of index %s: %d acknowledged, %d found, %d duplicated" % (rd["index"], rd["acked"], rd["found"], rd["dup"]), rd)
    chk.cov["first_ingest"] = {"processes": len(res), "rounds": rounds}


def run(chk, binary):
    quick = chk.tier == "quick"
    first_ingest(chk, binary, quick)
    cases = []
    n = 6 if quick else 40
    for i in range(n):
        pqs = i % 3 == 1
        # runs with the persistent-query machinery on use two indexes and last longer: agile trees of several indexes are
        # built from one pool of builders, and persisted match results are back-filled by a background loop
        cases.append({"idx": i, "procs": [1, 2, 4, 16][i % 4], "indexes": 2 if pqs else 1 + i % 2, "ms": (4000 if pqs else 2500) if quick else 6000,
                      "seed": chk.seed * 1000 + i, "queriers": 2 + i % 3, "new_cols": i % 3 == 2, "pqs": i % 3 == 1})
    # wide late columns: every event brings 12 column names the open segment has not seen (each flush rewrites the
    # segment's column tables while 6 searches copy them)
    for j in range(2 if quick else 6):
        cases.append({"idx": n + j, "procs": [4, 16][j % 2], "indexes": 1, "ms": 2500 if quick else 5000, "seed": chk.seed * 1000 + 500 + j,
                      "queriers": 6, "new_cols": True, "new_cols_n": 12, "pqs": False})

    def f(c):
        try:
            return one(binary, c)
        except vlib.DriverDead as e:
            return e
    results = vlib.pmap(f, cases, workers=3 if quick else 4)
    tot_q = 0
    for c, r in zip(cases, results):
        if isinstance(r, vlib.DriverDead):
            if r.kind == "hang":
                raise vlib.Infra("stress run did not answer: %s" % r)
            chk.violation("C11:crash:stress", "engine process died during concurrent ingest/flush/rotation/search: %s" % r, c)
            continue
        chk.replayed(1)
        tot_q += r["queries"]
        chk.count(("stress", c["idx"]), nontrivial=r["queries"] > 20)
        if r.get("deadlock"):
            chk.violation("C11:deadlock:stress", "no progress for 25 s during concurrent activity (GOMAXPROCS=%d)" % c["procs"],
                          {"case": c, "goroutines": r["deadlock"]})
            continue
        seen = set()
        for fl in r["fails"]:
            key = "C11:%s:stress:%s" % (fl["kind"], fl["query"].replace(" ", ""))
            if key in seen:
                continue
            seen.add(key)
            chk.violation(key, "concurrent stress (GOMAXPROCS=%d), query %r: %s" % (c["procs"], fl["query"], fl["what"]),
                          {"case": c, "fail": fl})
    chk.cov["stress"] = {"runs": len(cases), "queries_checked": tot_q,
                         "indexes": [r.get("indexes") for r in results if isinstance(r, dict)][:3]}
    if results and isinstance(results[0], dict):
        chk.sample({"kind": "stress", "case": cases[0], "queries": results[0]["queries"], "indexes": results[0].get("indexes")})
