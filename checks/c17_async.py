"""C17 (A): the asynchronous (websocket) query path on the real engine.  spec/QueryLifecycle.tla with ASYNC = TRUE says
which goroutines exist (handler, executor streaming QUERY_UPDATEs into the bounded state channel, timer, canceller) and
TLC reports the states in which a sender is stuck after the handler returned (NoStuckSender candidate).  Here seeded
batches of real websocket queries (in-memory listener, the production upgrade + ProcessPipeSearchWebsocket) are run
with client-side cancel messages, abrupt disconnects after k messages and slow readers; afterwards the running / waiting
tables must be empty and no goroutine of a finished query may remain; every query must end in exactly one terminal
message (or the client left)."""
import random

import vlib

TEXTS = ["*", "* | stats count by x", "x=3", "* | stats count", "* | stats sum(x) by x", "x>2 | head 5", "* | sort -x | head 3"]
TERMINAL = {"COMPLETE", "CANCELLED", "TIMEOUT", "error"}


def one(binary, case):
    d = vlib.scratch("c17a")
    dr = None
    try:
        dr = vlib.Driver(binary, env={"SIGDRV_GOMAXPROCS": str(case["procs"])})
        dr.ok("init", dir=d)
        n = 0
        for s in range(case["segments"]):
            dr.ok("bulk", body="".join('{"index":{"_index":"w"}}\n{"id":%d,"x":%d,"timestamp":%d}\n' % (n + i, (n + i) % 7, 1700000000000 + (n + i) * 1000)
                                       for i in range(15)))
            n += 15
            dr.ok("rotate")
        dr.ok("hook_start")
        return dr.ok("ws_queries", plans=case["plans"], index="w", max_running=case["maxrun"], timeout_secs=5, timeout=200)
    finally:
        if dr is not None:
            dr.quit()
        vlib.rmtree(d)


def run(chk, binary):
    quick = chk.tier == "quick"
    rnd = random.Random(chk.seed + 77)
    cases = []
    for i in range(5 if quick else 40):
        plans = []
        for _ in range(8 if quick else 16):
            p = {"text": rnd.choice(TEXTS), "start_ms": rnd.randrange(0, 20)}
            r = rnd.random()
            if r < 0.3:
                p["cancel_after"] = rnd.choice([1, 1, 2, 3, 6])
            elif r < 0.55:
                p["close_after"] = rnd.choice([1, 1, 2, 4, 8])
            if rnd.random() < 0.3:
                p["slow_ms"] = rnd.choice([5, 30, 120])
            plans.append(p)
        cases.append({"idx": i, "procs": rnd.choice([1, 2, 4, 16]), "maxrun": rnd.choice([1, 2, 3]), "segments": rnd.choice([6, 20, 35]), "plans": plans})

    def f(c):
        try:
            return one(binary, c)
        except vlib.DriverDead as e:
            return e
    results = vlib.pmap(f, cases, workers=3)
    nq = 0
    for c, r in zip(cases, results):
        if isinstance(r, vlib.DriverDead):
            if r.kind == "hang":
                raise vlib.Infra("websocket batch did not answer: %s" % r)
            chk.violation("C17:async:process-died", "engine process died during websocket queries: %s" % r, c)
            continue
        chk.replayed(1)
        nq += len(c["plans"])
        chk.count(("async", c["idx"]), nontrivial=any("cancel_after" in p or "close_after" in p for p in c["plans"]))
        rep = {"case": c, "outs": r["outs"], "extra_goroutines": r["extra_goroutines"]}
        if r["stuck"]:
            chk.violation("C17:async:no-answer", "a websocket query neither finished nor failed within 60 s", rep)
        if r["running_left"]:
            chk.violation("C17:async:cleanup:running-table", "%d entries left in the running table after all websocket queries ended" % r["running_left"], rep)
        if r["waiting_left"]:
            chk.violation("C17:async:cleanup:waiting-table", "%d entries left in the waiting queue after all websocket queries ended" % r["waiting_left"], rep)
        for g in (r["extra_goroutines"] or []):
            fn = g.split("x ", 1)[-1].split(" < ")[0].split("/")[-1]
            chk.violation("C17:async:goroutine-left:" + fn, "goroutines of finished websocket queries remain: %s" % g[:300], rep)
        for p, o in zip(c["plans"], r["outs"]):
            terms = [s for s in o["states"] if s in TERMINAL]
            if o.get("err"):
                chk.violation("C17:async:client-error", "websocket client error for %r: %s" % (p["text"], o["err"][:200]), rep)
            elif "close_after" not in p and len(terms) != 1:
                chk.violation("C17:async:terminal-count", "websocket query %r (plan %s) saw terminal messages %s" % (p["text"], p, o["states"][-4:]), rep)
    chk.cov["async"] = {"batches": len(cases), "queries": nq}
    if results and isinstance(results[0], dict):
        chk.sample({"kind": "websocket-batch", "plans": cases[0]["plans"][:3], "outs": results[0]["outs"][:3]})
