"""C17 (B): forced-schedule replay.  TLC (spec/Gen_QueryLifecycle.tla) enumerates every behaviour of one query
(sync path) projected on the steps the harness can force with blocking hooks: enq, deq, run, cancel, recv:<m>,
xfin.  Each distinct step sequence is forced on the real goroutines (puller, handler, executor, a canceller);
what could not be forced (a step that needs a preemption point inside a critical section) is counted as
infeasible, never as a failure.  Oracle = the property, not the model outcome:
  * the query is answered (ok / error / cancelled), nothing stays in the tables;
  * a CancelQuery call issued while the query was live (enqueued, executor not finished, handler not returned)
    must not be followed by a normal 'ok' answer.
The event log of every forced run is also validated against Trace_QueryLifecycle."""
import vlib


def norm(steps):
    return tuple("recv:FINISH" if s in ("recv:COMPLETE", "recv:ERROR") else s for s in steps)


def force(binary, steps):
    d = vlib.scratch("c17s")
    dr = None
    try:
        dr = vlib.Driver(binary)
        dr.ok("init", dir=d)
        dr.ok("bulk", body="".join('{"index":{"_index":"a"}}\n{"id":%d,"x":%d,"timestamp":%d}\n' % (i, i % 7, 1700000000000 + i * 1000)
                                   for i in range(60)))
        dr.ok("flush")
        dr.ok("hook_start")
        return dr.ok("qsched", steps=[("recv:COMPLETE" if s == "recv:FINISH" else s) for s in steps], timeout=90)
    finally:
        if dr is not None:
            dr.quit()
        vlib.rmtree(d)


def _force2(binary, steps):
    try:
        return force(binary, steps)
    except vlib.DriverDead as e:
        return e


def run(chk, binary):
    beh, r = vlib.tlc_generate("Gen_QueryLifecycle", "Gen_QueryLifecycle.cfg", timeout=600)
    chk.add_tlc("Gen_QueryLifecycle", r, "schedule generation: one query, MAXRUN=1, one client cancel, no timer")
    scheds = sorted(set(norm(b["steps"]) for b in beh))
    if not scheds:
        raise vlib.Infra("no schedules generated")
    if chk.tier == "quick":
        # all schedules containing a cancel + a seeded sample of the others
        withc = [s for s in scheds if "cancel" in s]
        scheds = withc + vlib.sample([s for s in scheds if "cancel" not in s], 4, chk.seed)

    def one(s):
        try:
            return force(binary, s)
        except vlib.DriverDead as e:
            return e
    results = vlib.pmap(one, scheds, workers=8)
    feasible = 0
    runs_for_trace = []
    for s, res in zip(scheds, results):
        if isinstance(res, vlib.DriverDead):
            if res.kind == "hang":
                raise vlib.Infra("forced schedule did not answer: %s" % res)
            chk.violation("C17:life:process-died", "engine died under forced schedule %s: %s" % (list(s), res), {"steps": list(s)})
            continue
        full = res["forced"] == res["of"]
        feasible += full
        chk.count(("sched", s), nontrivial=full and "cancel" in s)
        chk.replayed(1)
        names = [e["ev"] for e in res["events"]]
        rep = {"steps": list(s), "forced": res["forced"], "infeasible": res["infeasible"], "outcome": res["outcome"], "events": names}
        if res["outcome"] == "stuck":
            chk.violation("C17:life:no-answer", "forced schedule %s: query never answered" % list(s), rep)
        if res["running_left"] or res["waiting_left"]:
            chk.violation("C17:cleanup:tables", "forced schedule %s left running=%d waiting=%d" % (
                list(s), res["running_left"], res["waiting_left"]), rep)
        if "t.cancel.call" in names and not res["xdone_at_cancel"] and not res["hret_at_cancel"] and res["outcome"] == "ok":
            i_call = names.index("t.cancel.call")
            before = names[:i_call]
            if "q.enqueue" in before:
                if "q.dequeue" in before and "q.run" not in before:
                    key = "C17:cancel:ignored-between-dequeue-and-run"
                elif "q.dequeue" not in before:
                    key = "C17:cancel:ignored-while-waiting"
                else:
                    key = "C17:cancel:ignored-while-running"
                chk.violation(key, "forced schedule %s: CancelQuery on a live query had no effect, the query returned a normal "
                                   "answer (events %s)" % (list(s), names), rep)
        runs_for_trace.append(res)
        if len(chk.cov["samples"]) < 4 and "cancel" in s:
            chk.sample({"kind": "forced-schedule", **rep})
    chk.cov["forced_schedules"] = {"schedules": len(scheds), "fully_forced": feasible}
    # ---- two queries racing for one admission slot: every order of (enq q1, enq q2) against the puller's dequeue / run pair
    beh2, r2 = vlib.tlc_generate("Gen_QueryLifecycle", "Gen_QueryLifecycle2.cfg", timeout=600)
    chk.add_tlc("Gen_QueryLifecycle2", r2, "schedule generation: two queries, MAXRUN=1")
    sch2 = sorted(set(tuple(x.replace(":ERROR", ":COMPLETE") for x in b["steps"]) for b in beh2))
    # three queries: one can hold the slot while a second waits and a third is submitted inside the puller's dequeue -> run gap;
    # one representative per permutation of the query names (the model is symmetric in Q)
    beh3, r3 = vlib.tlc_generate("Gen_QueryLifecycle", "Gen_QueryLifecycle3.cfg", timeout=900)
    chk.add_tlc("Gen_QueryLifecycle3", r3, "schedule generation: three queries, MAXRUN=1")
    sch3 = sorted(set(tuple(x.replace(":ERROR", ":COMPLETE") for x in b["steps"]) for b in beh3))
    sch3 = [x for x in sch3 if [y for y in x if y.startswith("enq")] == ["enq:q1", "enq:q2", "enq:q3"]]
    sch2 = sch2 + sch3
    res2 = vlib.pmap(lambda s: _force2(binary, s), sch2, workers=8)
    full2 = 0
    for s, res in zip(sch2, res2):
        if isinstance(res, vlib.DriverDead):
            if res.kind == "hang":
                raise vlib.Infra("forced schedule did not answer: %s" % res)
            chk.violation("C17:life:process-died", "engine died under forced schedule %s: %s" % (list(s), res), {"steps": list(s)})
            continue
        full = res["forced"] == res["of"]
        full2 += full
        chk.replayed(1)
        chk.count(("sched2", s), nontrivial=full)
        names = [e["ev"] for e in res["events"]]
        rep = {"steps": list(s), "forced": res["forced"], "infeasible": res["infeasible"], "outcomes": res["outcomes"], "events": names}
        for e in res["events"]:
            if e["ev"] == "q.run" and e["kv"].get("nrun", 0) > e["kv"].get("max", 1 << 30):
                chk.violation("C17:admission:exceeded", "forced schedule %s: %d queries in the running table with MAX_RUNNING_QUERIES=%d" % (
                    list(s), e["kv"]["nrun"], e["kv"]["max"]), rep)
                break
        if any(o == "stuck" for o in res["outcomes"].values()) and full:
            chk.violation("C17:life:no-answer", "forced schedule %s: a query never answered: %s" % (list(s), res["outcomes"]), rep)
        if res["running_left"] or res["waiting_left"]:
            chk.violation("C17:cleanup:tables", "forced schedule %s left running=%d waiting=%d" % (list(s), res["running_left"], res["waiting_left"]), rep)
        runs_for_trace.append(res)
    chk.cov["forced_schedules"]["multi_query_schedules"] = len(sch2)
    chk.cov["forced_schedules"]["multi_query_fully_forced"] = full2
    # trace validation of the forced runs
    import c17
    res, trace = c17.validate(chk, runs_for_trace, 1, "forced")
    inv = [v for v in res.violated if v != "Deadlock"]
    if inv:
        chk.violation("C17:trace-invariant:" + inv[0], "invariant %s violated on a forced execution" % inv[0],
                      {"trace_tail": trace[-40:], "tlc": res.out[-2000:]})
    elif res.rc != 0:
        chk.drift.append("SPEC-DRIFT: forced-run trace rejected by Trace_QueryLifecycle near event %s: %s" % (
            res.depth, str(trace[max(0, res.depth - 1):res.depth + 1])[:400]))
