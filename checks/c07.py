"""C07 - flushed log data survives a process crash at any instant.

Model   spec/FlushProtocol.tla: one action per class of file operation of a block flush (.csg chunks by parallel
        column writers, .bsu, .sst.tmp/.sst, .sfm) and of a rotation (segmeta.json line), Crash at every point, and
        the recovery rule.  TLC checks Durable / NoInvent / BsuImpliesReadable for the protocol as it is now
        (SfmAtomic = TRUE) and shows the two deviations: SfmAtomic = FALSE (pinned commit) violates Durable;
        CountAgrees is violated by the .bsu-before-.sfm order.
Binding crash-state enumeration on the real engine: the writer process (sigdrv driven through a history of
        ingest/flush/rotate with marker writes around each call) runs ONCE under strace; lib/crashfs.py parses every
        file-system mutating system call in completion order; the durable state after a crash at instant i is the
        replay of calls 1..i on an empty directory.  Every such state (thorough) / every class boundary plus a seeded
        sample (quick) is handed to a fresh engine process: start-up, match-all search, count, more ingest + flush,
        search again, restart, search again.  Oracle = the property, with the markers saying which flushes had
        completed.  The recorded order of file operations of every suitable segment is also validated against
        Trace_FlushProtocol (conformance: the exhaustive model result transfers only if the code writes in the order the
        spec assumes); it was this validation that showed the rotation's second .sfm rewrite, which the first spec lacked.
        History "tree" runs with the persistent-query machinery primed, so that a rotation writes an agile tree
        (.strm / .strl) and recovered states are also asked a match-all group-by.  History "refresh" flushes INSIDE
        the ingest call (flush=true: ?refresh / OTLP shouldFlush), alone and on top of waiting events; history "big" sends
        one request larger than the write buffer, so that the ingest call flushes a full buffer by itself mid-request
        (its events may be on disk from the moment the call began and must be visible as a prefix of the request).
"""
import json
import os
import random
import shutil

import crashfs
import vlib

LEVEL = "model_checking"
CLAIMED = True   # set by the lead after review; only claimed checks enter MANIFEST.json

MANIFEST = dict(
    category="model_checking",
    technique="TLA+ spec of the flush/rotation file protocol with Crash+Recover (TLC) + crash-state enumeration of the real writer (strace-recorded system calls replayed prefix by prefix, each state recovered by a fresh engine process) + trace validation of the recorded file-operation order against the spec",
    text=("spec/FlushProtocol.tla models the order of file operations of a block flush and a rotation, a crash between any "
          "two of them, and the recovery rule; TLC checks that completed flushes stay searchable and the flush in progress is "
          "all-or-nothing. The real code is bound by recording every file-system call of a real writer run with strace, "
          "replaying every prefix of that sequence into a directory (= the durable state after a crash at that instant) and "
          "starting a fresh engine on it: start-up must succeed, events of completed flushes must be returned exactly once "
          "with their content, the in-progress flush all-or-nothing, counts consistent with what is searchable, later ingest "
          "must not overwrite recovered data. The recorded operation order is validated against the spec's action order. "
          "Histories: timer flushes and rotations (with and without a pending buffer), columns that appear in later blocks, "
          "agile-tree rotations, flushes that run INSIDE the ingest call (flush=true / ?refresh) and a request larger than "
          "the write buffer (the ingest call flushes by itself mid-request; thorough), two indexes sharing every flush / rotation "
          "call and segmeta.json (thorough)."),
    note=("The order validation (Trace_FlushProtocol) covers segments whose rotation has nothing left to flush; a rejected "
          "trace without a property failure is exit 2 (spec drift), not a verdict. "
          "Process-crash model only (completed system calls persist, OS survives): no torn single writes, no power loss. "
          "Crash points are those of the recorded schedules (parallel column writers are recorded in the order they "
          "happened; the model covers their other interleavings). Metrics WAL crash behaviour is C10."),
    design_ref="DESIGN.md 4/C07",
)

IDX = "cr"
IDXB = "crb"      # second index of the two-index history (ids 5000..5999)
BOTH = IDX + "," + IDXB


def idx_of(i):
    return IDXB if 5000 <= i < 6000 else IDX


def ev(i):
    e = {"id": i, "x": "v%d" % i, "n": i * 10, "w": "w%d" % (i % 2), "timestamp": 1700000000000 + i * 1000}
    if 50 <= i < 1000:
        e["late"] = "L%d" % i          # a column that first appears in a later block of the segment
    if 3000 <= i < 4000:
        e["pad"] = ("p%d" % i) * 9000  # 45 kB: ~43 such events fill the 2 MB write buffer, the ingest call then flushes by itself
    return e


def bulk_cmd(ids, index=None):
    return {"op": "bulk", "org": 0, "body": "".join('{"index":{"_index":"%s"}}\n%s\n' % (index or idx_of(i), json.dumps(ev(i))) for i in ids)}


def history(name):
    """-> list of steps: ('bulk', ids) | ('flush',) | ('rotate',) | ('refresh', id) | ('query', text).  ids are global and
    unique.  ('refresh', id) is an ingest call that flushes inside the call (flush=true: single-document ?refresh, OTLP
    shouldFlush): the flush runs inside SegStore.AddEntry, while the ingest call still holds its bookkeeping."""
    H = {
        "f3r": [("bulk", [1, 2]), ("flush",), ("bulk", [3]), ("flush",), ("bulk", [4, 5]), ("flush",), ("rotate",)],
        "rotwip": [("bulk", [1, 2]), ("flush",), ("bulk", [3]), ("rotate",), ("bulk", [4]), ("flush",)],
        "f1": [("bulk", [1]), ("flush",)],
        # flushes that run INSIDE the ingest call, alone and on top of events waiting in the buffer, then a timer flush
        # one request larger than the write buffer: AddEntry flushes the full buffer in the middle of the request (before the
        # event that would not fit), the rest waits for the timer flush
        "big": [("bulk", [1, 2]), ("flush",), ("bulk", list(range(3001, 3056))), ("flush",), ("bulk", [3]), ("flush",)],
        # two indexes share every flush / rotation call and the node's segmeta.json: each index's part of a flush is its own unit
        "twoidx": [("bulk", [1, 5001]), ("flush",), ("bulk", [2, 5002, 5003]), ("flush",), ("rotate",), ("bulk", [3, 5004]), ("flush",)],
        "refresh": [("bulk", [1, 2]), ("flush",), ("refresh", 3), ("bulk", [4]), ("refresh", 5), ("refresh", 6), ("bulk", [7]), ("flush",)],
        # the second and third block introduce a column the first block (and the running .sfm) does not know
        "newcol": [("bulk", [1, 2]), ("flush",), ("bulk", [51, 52]), ("flush",), ("bulk", [3, 53]), ("flush",), ("rotate",)],
        "r2": [("bulk", [1, 2]), ("flush",), ("rotate",), ("bulk", [3, 4]), ("flush",), ("rotate",), ("bulk", [5]), ("flush",)],
        "wide": [("bulk", list(range(1, 9))), ("flush",), ("bulk", list(range(9, 12))), ("flush",), ("rotate",)],
        # persistent-query machinery on and primed with group-by queries: the second segment carries an agile tree
        # (.strm / .strl written by the rotation), which match-all group-by queries read after recovery
        "tree": [("bulk", [1, 2]), ("flush",), ("query", "* | stats count by w"), ("query", "* | stats sum(n) by w"), ("rotate",),
                 ("bulk", [3, 4]), ("flush",), ("bulk", [5]), ("flush",), ("rotate",), ("bulk", [6]), ("flush",)],
    }
    return H[name]


def script(hist, data, mark):
    """sigdrv command script with markers + the per-call id sets"""
    # the data directory is given RELATIVE to the process's working directory: segment keys stored in .sfm / segmeta.json
    # are then relative too, so a crash state can be recovered from any location (cwd = the state's root)
    cmds = [{"op": "init", "dir": "data", "pqs": any(st[0] == "query" for st in hist)}]
    calls = []       # (kind, k, ids covered)
    pending = []
    k = ji = 0
    for st in hist:
        if st[0] == "bulk":
            ji += 1
            cmds.append({"op": "mark", "file": mark, "text": "ingest.begin %d" % ji})
            cmds.append(bulk_cmd(st[1]))
            cmds.append({"op": "mark", "file": mark, "text": "ingest.done %d" % ji})
            calls.append(("ingest", ji, list(st[1])))
            pending += st[1]
        elif st[0] == "query":
            cmds.append({"op": "query", "text": st[1], "index": IDX, "start": 1})
        elif st[0] == "refresh":
            k += 1
            cmds.append({"op": "mark", "file": mark, "text": "flush.begin %d" % k})
            cmds.append({"op": "ingest_refresh", "org": 0, "index": IDX, "docs": [json.dumps(ev(st[1]))]})
            cmds.append({"op": "mark", "file": mark, "text": "flush.done %d" % k})
            calls.append(("flush", k, list(pending) + [st[1]]))
            pending = []
        else:
            k += 1
            kind = "flush" if st[0] == "flush" else "rot"
            cmds.append({"op": "mark", "file": mark, "text": "%s.begin %d" % (kind, k)})
            cmds.append({"op": st[0]})
            cmds.append({"op": "mark", "file": mark, "text": "%s.done %d" % (kind, k)})
            calls.append((kind, k, list(pending)))
            pending = []
    cmds.append({"op": "quit"})
    return cmds, calls


def classify(op):
    p = op.get("path") or op.get("dst") or ""
    return crashfs.file_class(p)


def recover_and_check(binary, state_dir, completed, inprog, i_label, maybe=()):
    """Fresh engine on one crash state. -> list of (key, what)"""
    bad = []
    dr = None
    allowed = set(completed) | set(inprog) | set(maybe)
    unfinished = (set(inprog) | set(maybe)) - set(completed)      # events of the flush that was in progress at the crash
    SRCH = BOTH if any(isinstance(i, int) and 5000 <= i < 6000 for i in allowed) else IDX
    try:
        dr = vlib.Driver(binary, cwd=state_dir)
        try:
            dr.ok("init", dir="data", wait_ms=500)
        except vlib.Infra as e:
            return [("C07:startup:error", "start-up on the crash state failed: %s" % str(e)[:300])]

        def search(stage, must, may, sure=None):
            r = dr.cmd("query", text="*", index=SRCH, start=1, end=1900000000000, size=1000, timeout=60)
            res = r.get("res") or {}
            if not r.get("ok") or "qerr" in res or res.get("hang"):
                bad.append(("C07:query:error", "%s: match-all search failed: %s" % (stage, (r.get("err") or res.get("qerr") or "hang")[:300])))
                return None
            recs = res.get("hits", {}).get("records") or []
            ids = [h.get("id") for h in recs]
            if any(i is None for i in ids):
                bad.append(("C07:content", "%s: %d event(s) returned without their id field (content lost): %s" % (
                    stage, sum(1 for i in ids if i is None), json.dumps([h for h in recs if h.get("id") is None][:2])[:300])))
                ids = [i for i in ids if i is not None]
            if len(ids) != len(set(ids)):
                bad.append(("C07:dup", "%s: events returned twice: %s" % (stage, sorted(i for i in set(ids) if ids.count(i) > 1)[:5])))
            miss = sorted(set(must) - set(ids))
            if miss:
                bad.append(("C07:lost", "%s: events of completed flushes are not searchable: ids %s (returned %s)" % (stage, miss[:8], sorted(ids, key=str)[:12])))
            strange = sorted(set(ids) - set(must) - set(may), key=str)
            if strange:
                bad.append(("C07:invented", "%s: events that were never flushed: %s" % (stage, strange[:8])))
            for h in recs:
                i = h.get("id")
                if isinstance(i, int) and (i in must or i in may):
                    w = ev(i)
                    for k, v in w.items():
                        if h.get(k) != v:
                            key = "C07:content"
                            if h.get(k) is None and i in unfinished:
                                key = "C07:content:new-column-missing-in-unfinished-flush"
                            bad.append((key, "%s: event %d field %s = %s, ingested %s" % (stage, i, k, repr(h.get(k))[:60], repr(v)[:60])))
                            break
            # the flush in progress is visible as a whole or not at all; events of a request larger than the write buffer
            # (ids 3000..3999) are flushed in request order by the ingest call itself: the visible ones must be a prefix of it
            small = set(i for i in inprog if not 3000 <= i < 4000 and i not in maybe) if stage == "after restart" else set()
            for part in (set(i for i in small if idx_of(i) == IDX), set(i for i in small if idx_of(i) == IDXB)):
                got_inprog = set(ids) & part - set(must)
                if part and got_inprog and got_inprog != part - set(must):
                    bad.append(("C07:partial-flush", "%s: the flush in progress is partly visible: %s of %s" % (stage, sorted(got_inprog), sorted(part - set(must)))))
            bigs = sorted(i for i in (set(may) | set(must)) if isinstance(i, int) and 3000 <= i < 4000)
            vis = [i in set(ids) for i in bigs]
            if any(b and not a for a, b in zip(vis, vis[1:])):
                bad.append(("C07:partial-flush", "%s: events of one large request are visible with holes (they are flushed in request order): visible %s" % (
                    stage, [i for i, v in zip(bigs, vis) if v][:10])))
            # count must agree with what is searchable
            r2 = dr.cmd("query", text="* | stats count", index=SRCH, start=1, end=1900000000000, timeout=60)
            res2 = r2.get("res") or {}
            if not r2.get("ok") or "qerr" in res2 or res2.get("hang"):
                bad.append(("C07:query:error", "%s: stats count failed: %s" % (stage, (r2.get("err") or res2.get("qerr") or "hang")[:300])))
            else:
                rows = res2.get("measure") or []
                c = None
                if rows:
                    try:
                        c = int(float(str(rows[0]["MeasureVal"].get("count(*)")).replace(",", "")))
                    except (TypeError, ValueError):
                        c = None
                elif not ids:
                    c = 0
                if c != len(set(ids)):
                    bad.append(("C07:count-mismatch", "%s: count(*) = %s but a match-all search returns %d events" % (stage, c, len(set(ids)))))
            # a match-all group-by must be answered (it reads the segment's agile tree when there is one) and agree as well
            r4 = dr.cmd("query", text="* | stats count by w", index=SRCH, start=1, end=1900000000000, timeout=60)
            res4 = r4.get("res") or {}
            if not r4.get("ok") or "qerr" in res4 or res4.get("hang"):
                bad.append(("C07:query:error", "%s: group-by count failed: %s" % (stage, (r4.get("err") or res4.get("qerr") or "hang")[:300])))
            else:
                tot = 0
                for row in res4.get("measure") or []:
                    try:
                        tot += int(float(str(row["MeasureVal"].get("count(*)")).replace(",", "")))
                    except (TypeError, ValueError):
                        tot = None
                        break
                if tot != len(set(ids)):
                    bad.append(("C07:groupby-mismatch", "%s: the groups of `stats count by w` sum to %s but a match-all search returns %d events" % (stage, tot, len(set(ids)))))
            # a time-bounded search over exactly the time span of the newest completed events must find them too
            # (a recovered segment whose recorded time range is stale hides them from bounded searches only)
            mine = sorted(i for i in (sure if sure is not None else must) if isinstance(i, int) and i < 1000)
            if mine:
                newest = mine[-2:] if len(mine) >= 2 else mine
                lo_t, hi_t = ev(newest[0])["timestamp"], ev(newest[-1])["timestamp"]
                r3 = dr.cmd("query", text="*", index=IDX, start=lo_t, end=hi_t, size=1000, timeout=60)
                res3 = r3.get("res") or {}
                if r3.get("ok") and "qerr" not in res3 and not res3.get("hang"):
                    ids3 = set(h.get("id") for h in (res3.get("hits", {}).get("records") or []))
                    miss3 = [i for i in newest if i not in ids3]
                    if miss3:
                        bad.append(("C07:lost-in-time-range", "%s: a search bounded to [%d,%d] does not return events %s of a completed flush "
                                    "(a match-all search over all time does)" % (stage, lo_t, hi_t, miss3)))
            return set(ids)
        got = search("after restart", completed, allowed)
        if got is None:
            return bad
        # later ingestion must not overwrite recovered data
        new = [1001, 1002]
        r = dr.ok("bulk", body=bulk_cmd(new)["body"])
        dr.ok("flush")
        got2 = search("after further ingest", list(got) + new, [], sure=completed)
        # a NEW index after the restart (the list of index names is appended to by the recovered process)
        r = dr.ok("bulk", body=bulk_cmd([2001, 2002], index=IDX + "2")["body"])
        dr.ok("flush")
        r5 = dr.cmd("query", text="*", index=IDX + "2", start=1, end=1900000000000, size=100, timeout=60)
        ids5 = sorted(h.get("id") for h in ((r5.get("res") or {}).get("hits", {}).get("records") or []) if h.get("id") is not None)
        if ids5 != [2001, 2002]:
            bad.append(("C07:new-index-after-restart", "events ingested into a new index after the restart are not searchable there: %s" % ids5))
        dr.quit()
        dr = vlib.Driver(binary, cwd=state_dir)
        dr.ok("init", dir="data", wait_ms=500)
        search("after second restart", list(got) + new, [], sure=completed)
        r6 = dr.cmd("query", text="*", index=IDX + "2", start=1, end=1900000000000, size=100, timeout=60)
        ids6 = sorted(h.get("id") for h in ((r6.get("res") or {}).get("hits", {}).get("records") or []) if h.get("id") is not None)
        if ids6 != [2001, 2002]:
            bad.append(("C07:new-index-after-restart", "after the second restart the index created after the first restart returns %s (ingested 2001, 2002)" % ids6))
        r7 = dr.cmd("query", text="*", index="*", start=1, end=1900000000000, size=1000, timeout=60)
        ids7 = set(h.get("id") for h in ((r7.get("res") or {}).get("hits", {}).get("records") or []))
        if not set(got) <= ids7 or not {2001, 2002} <= ids7:
            bad.append(("C07:index-list", "a search over all indexes after the second restart misses events: recovered %s new-index %s" % (
                sorted(set(got) - ids7, key=str)[:6], sorted({2001, 2002} - ids7))))
    except vlib.DriverDead as e:
        if e.kind == "hang":
            raise vlib.Infra("engine did not answer on crash state %s: %s" % (i_label, e))
        bad.append(("C07:startup:crash", "engine process died on the crash state: %s" % e))
    finally:
        if dr is not None:
            dr.quit()
    return bad


SPEC_CLASSES = ("csg", "bsu", "ssttmp", "sst", "sfmtmp", "sfm", "strmtmp", "strm", "strl")


def spec_events(ops, data, seg_index):
    """Project the recorded operations of ONE segment (the seg_index-th segment directory that appears) onto FlushProtocol
    action names.  -> (events, params) or None when the segment's history is not of the spec's shape (a rotation that
    flushes a non-empty buffer itself)."""
    segdirs = []
    for op in ops:
        p = op.get("dst") or op.get("path") or ""
        if p.startswith(data) and crashfs.file_class(p) in SPEC_CLASSES:
            d = os.path.dirname(p)
            if d not in segdirs:
                segdirs.append(d)
    if seg_index >= len(segdirs):
        return None
    mine = segdirs[seg_index]
    # windows: the markers are global; the current segment index advances at every rot.done
    cur_seg, win, wins = 0, None, []       # wins: list of [kind, [op indexes of this segment]]
    nseg_meta = 0
    items = []      # (kind, payload) in order: ("win-begin", kind) ("op", idx) ("win-end", kind) ("segmeta", idx)
    for idx, op in enumerate(ops):
        p = op.get("dst") or op.get("path") or ""
        if op["k"] == "write" and not p.startswith(data):
            t = op["data"].decode().strip()
            kind = t.split(".")[0]
            if kind == "ingest":
                continue         # markers around ingest calls (for the crash oracle); not windows of the file protocol
            if ".begin" in t:
                win = kind
                if cur_seg == seg_index:
                    items.append(("win-begin", kind))
            elif ".done" in t:
                if cur_seg == seg_index:
                    items.append(("win-end", kind))
                win = None
                if kind == "rot":
                    cur_seg += 1
            continue
        cls = crashfs.file_class(p)
        if cls == "segmeta" and op["k"] == "write":
            if nseg_meta == seg_index:
                items.append(("segmeta", idx))
            nseg_meta += 1
            continue
        if cls in SPEC_CLASSES and os.path.dirname(p) == mine and cur_seg == seg_index:
            if win is None:
                return None      # a flush outside the marked flush / rotation calls (the ingest call flushed a full buffer itself)
            items.append(("op", idx))
    evs, cols = [], []
    sfm_atomic = tree_atomic = True
    k = 0
    while k < len(items):
        if items[k][0] != "win-begin":
            k += 1
            continue
        kind = items[k][1]
        body = []
        k += 1
        while k < len(items) and items[k][0] != "win-end":
            body.append(items[k])
            k += 1
        opidx = [x[1] for x in body if x[0] == "op"]
        first, last = {}, {}
        for i2 in opidx:
            p = ops[i2].get("dst") or ops[i2].get("path")
            first.setdefault(p, i2)
            last[p] = i2
        seen_cls = set()
        if kind == "rot" and any(crashfs.file_class(ops[i2].get("dst") or ops[i2].get("path")) == "csg" for i2 in opidx):
            return None          # the rotation flushed a block itself: not the shape of the spec's history
        if kind == "flush":
            here = set(os.path.basename(p2) for p2 in first if crashfs.file_class(p2) == "csg")
            if cols and here != set(cols):
                return None      # a column that is absent from some block (late-appearing column): the spec writes every column in every flush
        for it in body:
            if it[0] == "segmeta":
                evs.append({"ev": "SegmetaAppend"})
                continue
            i2 = it[1]
            op = ops[i2]
            p = op.get("dst") or op.get("path")
            cls = crashfs.file_class(p)
            if cls == "csg":
                c = os.path.basename(p)
                if c not in cols:
                    cols.append(c)
                if first[p] == i2:
                    evs.append({"ev": "ColStart", "c": c})
                if last[p] == i2:
                    evs.append({"ev": "ColFinish", "c": c})
            elif cls == "bsu":
                if "bsu" not in seen_cls and op["k"] == "write":
                    seen_cls.add("bsu")
                    evs.append({"ev": "ColsJoined"})
                    evs.append({"ev": "BsuAppend"})
            elif cls == "ssttmp":
                if "ssttmp" not in seen_cls:
                    seen_cls.add("ssttmp")
                    evs.append({"ev": "SstTmp"})
            elif cls == "sst" and op["k"] == "rename":
                evs.append({"ev": "SstRename"})
            elif cls == "sfm":
                pre = "Rot" if kind == "rot" else ""
                if op["k"] == "rename":
                    evs.append({"ev": pre + "SfmWrite"})
                elif op["k"] == "create":
                    sfm_atomic = False
                    evs.append({"ev": pre + "SfmWrite"})
                elif op["k"] == "write" and "sfmfill" not in seen_cls:
                    seen_cls.add("sfmfill")
                    evs.append({"ev": pre + "SfmFill"})
            elif cls == "strmtmp":
                if first[p] == i2:
                    evs.append({"ev": "TreeBegin"})
            elif cls == "strl":
                if first[p] == i2:
                    evs.append({"ev": "TreeLev"})
            elif cls == "strm":
                if op["k"] == "rename":
                    evs.append({"ev": "TreeEnd"})
                else:
                    tree_atomic = False
                    if first[p] == i2:
                        evs.append({"ev": "TreeBegin"})
                    if last[p] == i2:
                        evs.append({"ev": "TreeEnd"})
        if k < len(items):
            evs.append({"ev": "MarkDone" if kind == "flush" else "RotDone"})
        k += 1
    nf = sum(1 for e in evs if e["ev"] == "MarkDone")
    if nf == 0:
        return None
    return evs, {"NF": nf, "Cols": cols, "SfmAtomic": sfm_atomic, "Rotate": any(e["ev"] == "RotDone" for e in evs),
                 "Tree": any(e["ev"] == "TreeBegin" for e in evs), "TreeAtomic": tree_atomic}


TRACE_CFG = """SPECIFICATION TSpec
CONSTANTS
  NF = %(NF)d
  Cols = {%(cols)s}
  SfmAtomic = %(SfmAtomic)s
  Rotate = %(Rotate)s
  Tree = %(Tree)s
  TreeAtomic = %(TreeAtomic)s
INVARIANTS TypeOK BsuImpliesReadable
POSTCONDITION TraceAccepted
CHECK_DEADLOCK FALSE
"""


def validate_order(chk, name, ops, data):
    """trace validation of the recorded file-operation order of every suitable segment of the run"""
    if name == "twoidx":
        return       # two segments per flush / rotation window: the windows of spec_events are per single-segment history
    n_ok = 0
    for seg in range(4):
        pr = spec_events(ops, data, seg)
        if pr is None:
            continue
        evs, par = pr
        sc = vlib.scratch("c07cfg")
        try:
            cfgp = os.path.join(sc, "Trace_FP_run.cfg")
            b = lambda v: "TRUE" if v else "FALSE"
            open(cfgp, "w").write(TRACE_CFG % {"NF": par["NF"], "cols": ", ".join('"%s"' % c for c in par["Cols"]), "SfmAtomic": b(par["SfmAtomic"]),
                                               "Rotate": b(par["Rotate"]), "Tree": b(par["Tree"]), "TreeAtomic": b(par["TreeAtomic"])})
            res = vlib.trace_validate("Trace_FlushProtocol", "Trace_FP_run.cfg", evs, extra_files=[cfgp], timeout=300)
            if res.rc == 0 and not chk.cov.get("order_validation_selftest"):
                # demonstrate the binding once per run: the same real trace with one pair of operations swapped (.sst.tmp
                # before .bsu) must be rejected
                bad = list(evs)
                i = bad.index({"ev": "BsuAppend"})
                bad[i], bad[i + 1] = bad[i + 1], bad[i]
                rb = vlib.trace_validate("Trace_FlushProtocol", "Trace_FP_run.cfg", bad, extra_files=[cfgp], timeout=300)
                if rb.rc == 0:
                    raise vlib.Infra("Trace_FlushProtocol accepts a trace with .sst.tmp written before .bsu: the trace spec lost its teeth")
                chk.cov["order_validation_selftest"] = "real trace with BsuAppend/SstTmp swapped rejected at event %s" % rb.depth
        finally:
            vlib.rmtree(sc)
        chk.add_tlc("Trace_FlushProtocol[%s/seg%d]" % (name, seg), res,
                    "%d file-operation events of the real writer; NF=%d cols=%d rotate=%s tree=%s" % (len(evs), par["NF"], len(par["Cols"]), par["Rotate"], par["Tree"]))
        chk.replayed(1)
        if res.rc != 0:
            at = res.depth
            chk.drift.append("SPEC-DRIFT: the recorded file-operation order of history %s segment %d is not a behaviour of FlushProtocol "
                             "(invariants violated: %s); validation stopped at event %s: %s" % (name, seg, res.violated, at, json.dumps(evs[max(0, (at or 1) - 2):(at or 1) + 1])[:400]))
        else:
            n_ok += 1
        chk.cov.setdefault("order_validation", {})["%s/seg%d" % (name, seg)] = {"events": len(evs), "params": {k: v for k, v in par.items() if k != "Cols"},
                                                                                "accepted": res.rc == 0}
    return n_ok


def run_history(chk, binary, name, quick, rnd):
    hist = history(name)
    sc = vlib.scratch("c07")
    try:
        data = os.path.join(sc, "data")
        os.makedirs(data)
        mark = os.path.join(sc, "marks.txt")
        cmds, calls = script(hist, data, mark)
        cp = os.path.join(sc, "cmds.jsonl")
        open(cp, "w").write("\n".join(json.dumps(c) for c in cmds) + "\n")
        tr = os.path.join(sc, "trace.txt")
        rc = crashfs.record([binary], cp, tr, cwd=sc)
        if rc != 0:
            raise vlib.Infra("recording run of history %s failed rc=%s" % (name, rc))
        ops, unsup = crashfs.parse(tr, [data, mark])
        if unsup:
            raise vlib.Infra("writer used file operations the replayer does not model: %s" % unsup)
        # fidelity of the replayer: the full replay must equal the directory the real run left
        full = os.path.join(sc, "full")
        rp = crashfs.Replayer(data, full)
        for o in ops:
            if (o.get("path") or o.get("dst") or "").startswith(data):
                rp.apply(o)
        def tree(d):
            out = {}
            for dp, _, fns in os.walk(d):
                for fn in fns:
                    p = os.path.join(dp, fn)
                    out[os.path.relpath(p, d)] = open(p, "rb").read()
            return out
        ta, tb = tree(full), tree(data)
        if ta != tb:
            diff = sorted(set(ta) ^ set(tb)) + [k for k in ta if k in tb and ta[k] != tb[k]]
            raise vlib.Infra("replay of the recorded system calls does not reproduce the real directory (history %s): %s" % (name, diff[:6]))
        shutil.rmtree(full)
        validate_order(chk, name, ops, data)
        # crash points: i = number of operations that completed (0..len(ops))
        n = len(ops)
        pts = list(range(n + 1))
        if quick:
            # every boundary between operations of different file classes / kinds, all ops on sfm/bsu/sst/segmeta/suffix, + sample
            keep = {0, n}
            for i in range(1, n):
                a, b = ops[i - 1], ops[i]
                if classify(a) != classify(b) or a["k"] != b["k"] or classify(a) in ("sfm", "bsu", "sst", "ssttmp", "segmeta", "suffix", "strm", "strmtmp", "strl", "other"):
                    keep.add(i)
            rest = [i for i in pts if i not in keep]
            keep |= set(rnd.sample(rest, min(len(rest), 25)))
            pts = sorted(keep)
        # what had completed at each point
        marks = []  # (op index (1-based completion position), text)
        for j, o in enumerate(ops):
            if o["k"] == "write" and not (o.get("path") or "").startswith(data):
                marks.append((j + 1, o["data"].decode().strip()))
        def status(i):
            done = set(t.split()[1] for pos, t in marks if pos <= i and ".done" in t and not t.startswith("ingest."))
            begun = set(t.split()[1] for pos, t in marks if pos <= i and ".begin" in t and not t.startswith("ingest."))
            completed, inprog, maybe = [], [], []
            ibegun = set(t.split()[1] for pos, t in marks if pos <= i and t.startswith("ingest.begin"))
            idone = set(t.split()[1] for pos, t in marks if pos <= i and t.startswith("ingest.done"))
            for kind, k, ids in calls:
                if kind == "ingest":
                    # an ingest call that has begun may flush by itself (full buffer): its events may be on disk from then on
                    if str(k) in ibegun:
                        maybe += [x for x in ids if 3000 <= x < 4000 or str(k) not in idone]
                elif str(k) in done:
                    completed += ids
                elif str(k) in begun:
                    inprog += ids
            return completed, inprog, [x for x in maybe if x not in completed]
        # build the states
        rp = crashfs.Replayer(data, os.path.join(sc, "work"))
        states = []
        want = set(pts)
        for i in range(n + 1):
            if i in want:
                sd = os.path.join(sc, "state-%d" % i)
                os.makedirs(sd)
                if os.path.exists(os.path.join(sc, "work")):
                    shutil.copytree(os.path.join(sc, "work"), os.path.join(sd, "data"))
                else:
                    os.makedirs(os.path.join(sd, "data"))
                last = ops[i - 1] if i > 0 else None
                states.append((i, sd, (last["k"] + ":" + classify(last)) if last else "start"))
            if i < n:
                o = ops[i]
                if (o.get("path") or o.get("dst") or "").startswith(data):
                    rp.apply(o)

        def one(st):
            i, sd, label = st
            completed, inprog, maybe = status(i)
            try:
                return recover_and_check(binary, sd, completed, inprog, "%s@%d" % (name, i), maybe)
            finally:
                vlib.rmtree(sd)
        results = vlib.pmap(one, states, workers=10)
        labels = set()
        for (i, sd, label), bad in zip(states, results):
            chk.replayed(1)
            labels.add(label)
            completed, inprog, maybe = status(i)
            chk.count(("crash", name, i), nontrivial=bool(completed or inprog))
            seen = set()
            for key, what in bad:
                if key in seen:
                    continue
                seen.add(key)
                nxt = ops[i] if i < n else None
                where = "after %s, before %s" % (label, (nxt["k"] + ":" + classify(nxt)) if nxt else "end")
                chk.violation(key + ":" + label.split(":")[-1], "history %s, crash after %d of %d file operations (%s): %s" % (name, i, n, where, what),
                              {"history": name, "steps": [list(s) for s in hist], "crash_after_ops": i, "of": n, "where": where,
                               "completed_ids": completed[:60], "in_progress_ids": inprog[:60]})
        chk.cov.setdefault("histories", {})[name] = {"file_operations": n, "crash_states_recovered": len(states),
                                                       "distinct_last_op_labels": len(labels)}
        if len(chk.cov["samples"]) < 3:
            i, sd, label = states[len(states) // 2]
            chk.sample({"kind": "crash-state", "history": name, "steps": [list(s) for s in hist], "crash_after_ops": i, "of": n,
                        "last_op": label, "completed_ids": status(i)[0][:40], "in_progress_ids": status(i)[1][:40]})
        return ops, calls, data
    finally:
        vlib.rmtree(sc)


def run(chk):
    quick = chk.tier == "quick"
    for cfg, note in (("MC_FlushProtocol_atomic.cfg", "protocol as it is now: Durable NoInvent BsuImpliesReadable"),):
        r = vlib.run_tlc("MC_FlushProtocol", cfg, timeout=600, coverage=True)
        vlib.tlc_must_hold(r, "FlushProtocol " + cfg)
        chk.add_tlc(cfg, r, note)
    rt = vlib.run_tlc("MC_FlushProtocol", "MC_FlushProtocol_trunc.cfg", timeout=600)
    rc = vlib.run_tlc("MC_FlushProtocol", "MC_FlushProtocol_count.cfg", timeout=600)
    if "Durable" not in rt.violated:
        raise vlib.Infra("model sensitivity lost: O_TRUNC-then-write .sfm no longer violates Durable in the model")
    chk.cov["model_candidates"] = {"SfmAtomic=FALSE": "violates Durable (crash between O_TRUNC and write of .sfm)",
                                   "CountAgrees": "violated" if "CountAgrees" in rc.violated else "holds"}
    binary = vlib.build_driver()
    rnd = random.Random(chk.seed)
    names = ["f3r", "rotwip", "tree", "newcol", "refresh"] if quick else ["f3r", "rotwip", "tree", "newcol", "refresh", "big", "twoidx", "f1", "r2", "wide"]
    for nm in names:
        run_history(chk, binary, nm, quick, rnd)
    chk.assumptions += [
        "process-crash model: a completed system call is durable, the call in flight at the crash is not applied, writes are not torn",
        "crash points are those of the recorded run (one recorded order of the parallel column writers per history)",
        "strace sees every file-system mutating call of the writer (verified per run: full replay == real directory)",
    ]
    chk.describe(rule="for each history the writer runs once under strace; every prefix of its file operations (thorough) or every "
                      "class boundary + all metadata-file operations + 25 seeded others (quick) is materialised and recovered by a "
                      "fresh engine; non-trivial = a state in which at least one flush had begun", exhaustive=not quick)


def replay(chk, path):
    d = json.load(open(path))
    print(json.dumps(d, indent=1)[:5000])
    return 0
