"""C14 - retention and deletion remove exactly what is expired.

Model: spec/Retention.tla - segment sets with [earliest, latest] relative to the horizon; the three
  passes of pkg/retention/retention.go (time, volume, inode) as the code selects victims; the multi-step
  deletion (directory removal / in-memory metadata / empty-PQ meta / segmeta.json rewrite; metrics:
  in-memory / directory / metricmeta.json rewrite) one action per step; Crash at every step, Restart, Repeat.
  TLC checks Consistent / TimeExact / OldestFirst / Idempotent exhaustively (time pass as coded; all passes
  for the intended design) and shows which invariants the code as written violates (sensitivity configs).
Binding: spec/Gen_Retention.tla exports (segment set x pass kind/limit x interruption point) behaviours with
  the final state the spec predicts.  Each is replayed on the real engine: sigdrv builds the rotated log /
  metrics segments with controlled event times (explicit `timestamp`, OpenTSDB puts + size rotation), runs
  the steps before the interruption through the real step functions, ends the process, restarts, runs the
  REAL pass (DoRetentionBasedDeletion / doVolumeBasedDeletion / doInodeBasedDeletion), then compares
  `*`, `* | stats count by seg_marker`, the metrics selector query, segmeta.json, metricmeta.json, the
  empty-PQ meta files and the directories with the property and with the model.
"""
import concurrent.futures as cf
import glob
import json
import os
import random
import subprocess
import time

import vlib

LEVEL = "model_checking"
CLAIMED = True   # set by the lead after review; only claimed checks enter MANIFEST.json

MANIFEST = dict(
    category="model_checking",
    technique=("TLA+ spec of the retention passes and their multi-step deletion with crash/restart/repeat (TLC exhaustive) "
               "+ replay of TLC-enumerated segment sets x pass kind x interruption point on the real engine"),
    text=("spec/Retention.tla models rotated log and metrics segments with [earliest, latest] relative to the horizon, victim "
          "selection of the time / volume / inode passes exactly as retention.go does it (sort by latest time, scan), and "
          "DeleteSegmentData / DeleteMetricsSegmentData one action per step with Crash at every step, Restart and Repeat; TLC "
          "checks Consistent (survivors searchable, deleted data gone, metadata files list exactly the survivors), TimeExact, "
          "OldestFirst and Idempotent. Gen_Retention exports segment sets x pass x interruption point; every sampled behaviour "
          "is rebuilt on the real engine (explicit event timestamps, rotation between segments, OpenTSDB + size rotation for "
          "metrics, a tiny tmpfs for inode pressure), interrupted after step k through the real step functions, restarted, the "
          "real pass is run, and queries, segmeta.json, metricmeta.json, empty-PQ meta and directories are compared with the "
          "property and the model; plain repetition and a further restart must not change the outcome."),
    note=("The pass reads the wall clock itself, so a segment exactly AT the horizon cannot be pinned down (the statement leaves it "
          "open; model only). Interruption is emulated by calling the real step functions in the code's order and ending the "
          "process (no verifhook call sites in retention.go yet): cuts inside RemoveMetricsSegments, inside RemoveAll and between "
          "tmp-file write and rename are not reached. Volume pass only with limit 0 GB (limit granularity is 1 GB). Inode pass "
          "needs permission to mount a tmpfs, otherwise it is skipped and reported. Blob store deletion (step 1) is a no-op "
          "locally. Open metrics segments and several tenants are not covered."),
    design_ref="DESIGN.md 4/C14",
)

WORKERS = int(os.environ.get("VERIF_WORKERS", "5"))
FAR = 10 ** 9
MARGIN_MS = 900_000          # "newer than the horizon" = horizon at build time + 15 min + ...
HOUR_MS = 3600 * 1000
INODE_TOTAL = 1000
INODE_MAX_PCT = 85           # retention.MAX_INODE_USAGE_PERCENT
METRIC = "c14m"


class Skip(Exception):
    """behaviour cannot be concretised / bound (counted, never a verdict)."""


# --------------------------------------------------------------------------- small helpers

def bulk(dr, idx, evs, org=0):
    body = "".join(json.dumps({"index": {"_index": idx}}) + "\n" + json.dumps(e) + "\n" for e in evs)
    r = dr.ok("bulk", body=body, org=org)
    if r.get("processed") != len(evs) or r.get("response", {}).get("errors"):
        raise vlib.Infra("bulk ingest refused while building a scenario: %s" % json.dumps(r)[:400])


def read_lines(path):
    if not os.path.exists(path):
        return []
    out = []
    with open(path) as f:
        for l in f:
            l = l.strip()
            if l:
                try:
                    out.append(json.loads(l))
                except ValueError:
                    out.append({"_unparsable": l[:200]})
    return out


def segmeta_keys(info):
    return [m.get("segmentKey") for m in read_lines(info["segmeta"])]


def segmeta_lines(info):
    """segmeta.json as {segment key: decoded line} (every field of the line)"""
    return {m.get("segmentKey"): m for m in read_lines(info["segmeta"])}


TABLES = ["c14a", "c14b", "c14x", "c14y"]


def mmeta_dirs(info):
    return [m.get("mSegmentDir") for m in read_lines(info["metricsmeta"])]


def statvfs_used(path):
    st = os.statvfs(path)
    return st.f_files - st.f_ffree, st.f_files


def can_mount():
    d = vlib.scratch("c14mnt")
    try:
        p = subprocess.run(["mount", "-t", "tmpfs", "-o", "size=8m,nr_inodes=64", "tmpfs", d],
                           stdout=subprocess.PIPE, stderr=subprocess.STDOUT)
        if p.returncode != 0:
            return False
        subprocess.run(["umount", d], stdout=subprocess.PIPE, stderr=subprocess.STDOUT)
        return True
    except OSError:
        return False
    finally:
        vlib.rmtree(d)


# --------------------------------------------------------------------------- concretisation

def wrap_key(sec):
    """sort key the volume/inode passes compute for a metrics entry: uint64(uint32(sec) * 1000) wraps"""
    return (sec * 1000) % (1 << 32)


def concretise(beh, seed):
    """Abstract behaviour -> concrete times / shapes.  Pure function of (beh, seed) so that replay repeats it."""
    rnd = random.Random(seed)
    kind = beh["kind"]
    hours = rnd.choice([1, 24, 360, 2160]) if kind == "time" else 2160
    c = {"hours": hours, "seed": seed, "open": False, "two_indexes": rnd.random() < 0.5 and not beh.get("pq_scenario"), "segs": []}
    # equalities of the model are kept: in "tied" mode equal lo / hi classes of different segments become IDENTICAL
    # milliseconds (several segments ending on the same ms, an expired and a surviving segment starting on the same ms);
    # in "spread" mode every segment draws its own offsets.  A record with multiplicity m > 1 always means m segments
    # with identical [lo, hi] in one index.
    tied = rnd.random() < 0.6 or any(s.get("m", 1) > 1 for s in beh["segs"]) or bool(beh.get("ties"))
    c["tied"] = tied
    if tied:
        c["two_indexes"] = c["two_indexes"] and rnd.random() < 0.3

    def off(cls):
        if cls < 0:
            return -rnd.choice([1, 2, 700, 1001, 59_000, 3_600_001])
        return MARGIN_MS + rnd.choice([0, 1, 999, 60_000, 7_200_000])
    cls_off = {}
    if kind == "time":
        for cls in sorted(set([s["lo"] for s in beh["segs"]] + [s["hi"] for s in beh["segs"]])):
            cls_off[cls] = off(cls)
    same_delta = rnd.choice([0, 1, 400])
    rank_jit = {}
    for i, s in enumerate(beh["segs"]):
        if kind == "time":
            # offsets (ms) relative to the horizon measured when the scenario is built
            if tied:
                lo, hi = cls_off[s["lo"]], cls_off[s["hi"]]
                if s["lo"] == s["hi"]:
                    lo = hi - same_delta
            else:
                lo, hi = off(s["lo"]), off(s["hi"])
                if s["lo"] == s["hi"]:
                    lo = hi - rnd.choice([0, 1, 400])
            if lo > hi:
                lo = hi
        else:
            # only the order matters: rank r -> now - 30 d + r hours (all far from any horizon); equal ranks = equal times
            if tied:
                if s["hi"] not in rank_jit:
                    rank_jit[s["hi"]] = (rnd.randrange(0, 1000) * 1000, rnd.choice([0, 1000, 5000]))
                j, d = rank_jit[s["hi"]]
            else:
                j, d = rnd.randrange(0, 1000) * 1000, rnd.choice([0, 1000, 5000])
            hi = s["hi"] * HOUR_MS + j
            lo = hi - d
        c["segs"].append({"lo_off": lo, "hi_off": hi, "extra_cols": 4 * (s["w"] - 1), "pad": 300 * (s["w"] - 1),
                          "npts": s["w"], "m": s.get("m", 1)})
    if kind == "time":
        c["open"] = rnd.random() < 0.4
    elif kind == "volume":
        c["open"] = beh["openw"] > 0
    return c


# --------------------------------------------------------------------------- one behaviour on the real engine

class Scenario:
    def __init__(self, binary, beh, conc, allow_mount):
        self.binary, self.beh, self.conc = binary, beh, conc
        self.kind = beh["kind"]
        self.n = len(beh["segs"])
        self.dr = None
        self.mnt = None
        self.dir = None
        self.info = None
        self.seg = {}          # id -> dict(kind, key/dir, base, events/points)
        self.trace = []        # what happened (for replay output / samples)
        self.allow_mount = allow_mount
        self.with_pq = bool(beh.get("pq_scenario"))
        self.open_events = []
        self.base_events = []  # events of segments that are not part of the model (must always stay searchable)
        self.fill_dir = None
        self.fill_n = 0
        self.t_lo = self.t_hi = None
        self.orgs = sorted(set(x.get("org", 0) for x in beh["segs"]) | {0})

    # ---- process life
    def start(self, first):
        self.dr = vlib.Driver(self.binary)
        args = dict(dir=self.dir)
        if not first:
            args["wait_ms"] = 400
        if self.with_pq:
            args["pqs"] = True
        self.dr.ok("init", **args)
        self.info = self.dr.ok("ret_info")

    def stop(self):
        if self.dr is not None:
            self.dr.quit()
            self.dr = None

    def setup_dir(self):
        if self.kind == "inode":
            if not self.allow_mount:
                raise Skip("no-mount")
            self.mnt = vlib.scratch("c14mnt")
            p = subprocess.run(["mount", "-t", "tmpfs", "-o", "size=64m,nr_inodes=%d" % INODE_TOTAL, "tmpfs", self.mnt],
                               stdout=subprocess.PIPE, stderr=subprocess.STDOUT)
            if p.returncode != 0:
                vlib.rmtree(self.mnt)
                self.mnt = None
                raise Skip("no-mount")
            self.dir = os.path.join(self.mnt, "data")
            self.fill_dir = os.path.join(self.mnt, "fill")
            os.mkdir(self.dir)
            os.mkdir(self.fill_dir)
        else:
            self.dir = vlib.scratch("c14")

    def cleanup(self):
        try:
            self.stop()
        finally:
            if self.mnt:
                for _ in range(5):
                    p = subprocess.run(["umount", self.mnt], stdout=subprocess.PIPE, stderr=subprocess.STDOUT)
                    if p.returncode == 0:
                        break
                    time.sleep(0.3)
                else:
                    subprocess.run(["umount", "-l", self.mnt], stdout=subprocess.PIPE, stderr=subprocess.STDOUT)
                vlib.rmtree(self.mnt)
            elif self.dir:
                vlib.rmtree(self.dir)

    # ---- building
    def org_of(self, i):
        return self.beh["segs"][i - 1].get("org", 0)

    def index_of(self, i):
        # every organisation has its own index names (deletion of an emptied index is keyed by name: C13's subject, not C14's)
        a, b = ("c14a", "c14b") if self.org_of(i) == 0 else ("c14x", "c14y")
        return b if (self.conc["two_indexes"] and i % 2 == 0) else a

    def build(self):
        beh, conc = self.beh, self.conc
        now = int(time.time() * 1000)
        if self.kind == "time":
            self.hz = now - conc["hours"] * HOUR_MS          # horizon at build time (it only moves forward)
        else:
            self.hz = now - 30 * 24 * HOUR_MS                # reference point, far younger than any retention horizon
        hs = self.hz // 1000
        if self.kind != "time":
            # the model says "metrics keys wrap and sort before every log key, among themselves in true order":
            # make that exact by keeping all metrics times inside one wrap window of sec*1000 mod 2^32
            mets = [cs for s, cs in zip(beh["segs"], conc["segs"]) if s["kind"] == "met"]
            if mets:
                for shift in range(0, 60):
                    base = hs - shift * 86400
                    ks = [wrap_key(base + cs["hi_off"] // 1000) for cs in mets]
                    tr = [base + cs["hi_off"] // 1000 for cs in mets]
                    if all((ks[a] < ks[b]) == (tr[a] < tr[b]) for a in range(len(ks)) for b in range(len(ks))):
                        hs = base
                        self.hz = hs * 1000
                        break
                else:
                    raise Skip("wrap-window")
        times = []
        if self.with_pq:
            # life A: segmeta.json must exist at boot for the PQS listener goroutine to run; register the query
            self.start(True)
            t = self.hz + MARGIN_MS + 5000
            bulk(self.dr, "c14a", [{"timestamp": t, "seg_marker": "base", "k": 1, "color": "green"}])
            self.dr.ok("rotate")
            self.base_events.append(("base", 1, 0))
            times.append(t)
            self.stop()
            self.start(False)
            for _ in range(2):
                self.query("color=blue")
        else:
            self.start(True)
        for i in range(1, self.n + 1):
            s, cs = beh["segs"][i - 1], conc["segs"][i - 1]
            marker = "s%d" % i
            if s["kind"] == "log":
                lo, hi = self.hz + cs["lo_off"], self.hz + cs["hi_off"]
                ev1 = {"timestamp": lo, "seg_marker": marker, "k": 1}
                ev2 = {"timestamp": hi, "seg_marker": marker, "k": 2}
                for x in range(cs["extra_cols"]):
                    ev1["x%d" % x] = "v"
                if cs["pad"]:
                    ev2["pad"] = "p" * cs["pad"]
                if self.with_pq:
                    inpq = i in beh["pq0"]
                    ev1["color"] = "red" if inpq else "blue"
                    ev2["color"] = "red"
                members = []
                for r in range(cs.get("m", 1)):
                    e1, e2 = dict(ev1, r=r), dict(ev2, r=r)
                    before = set(segmeta_keys(self.info))
                    bulk(self.dr, self.index_of(i), [e1, e2], org=self.org_of(i))
                    self.dr.ok("rotate")
                    new = [k for k in segmeta_keys(self.info) if k not in before]
                    if len(new) != 1:
                        raise vlib.Infra("building segment %d: expected one new segmeta.json entry, got %s" % (i, new))
                    members.append({"key": new[0], "dir": os.path.dirname(new[0]), "events": [(marker, 1, r), (marker, 2, r)]})
                self.seg[i] = {"kind": "log", "members": members, "key": members[0]["key"], "dir": members[0]["dir"],
                               "events": [e for mb in members for e in mb["events"]]}
                times += [lo, hi]
            else:
                lo, hi = hs + cs["lo_off"] // 1000, hs + cs["hi_off"] // 1000
                if self.kind == "time" and s["hi"] < 0:
                    hi = min(hi, hs - 1)
                    lo = min(lo, hi)
                if self.kind == "time" and s["lo"] < 0:
                    lo = min(lo, hs - 1)
                pts = [(lo, 1.5)] if lo == hi else [(lo, 1.5), (hi, 2.5)]
                for x in range(1, cs["npts"]):
                    if lo + x < hi:
                        pts.append((lo + x, 3.5))
                before = set(mmeta_dirs(self.info))
                body = json.dumps([{"metric": METRIC, "tags": {"seg": marker}, "timestamp": t, "value": v} for t, v in pts])
                r = self.dr.ok("otsdb", body=body)
                if r.get("failed") or r.get("ok") != len(pts):
                    raise vlib.Infra("otsdb put refused while building: %s" % r)
                self.dr.ok("msizerotate", block_bytes=1, seg_bytes=1)
                new = [d for d in mmeta_dirs(self.info) if d not in before]
                if len(new) != 1:
                    raise vlib.Infra("building metrics segment %d: expected one new metricmeta.json entry, got %s" % (i, new))
                self.seg[i] = {"kind": "met", "key": new[0], "dir": os.path.dirname(new[0]), "series": marker,
                               "members": [{"key": new[0], "dir": os.path.dirname(new[0])}], "pts": sorted(t for t, _ in pts)}
                times += [lo * 1000, hi * 1000]
        if conc["open"]:
            # open (unrotated) log data, old and new events: not subject to any pass, must stay searchable
            t1, t2 = self.hz - 5000, self.hz + MARGIN_MS + 777
            if self.kind != "time":
                # a restart adopts the open segment as a rotated one: keep it the NEWEST data, so that the scan reaches it
                # last and "volume of open data" (spec) and "one more, newest segment" (after a restart) mean the same
                t1, t2 = self.hz + 20 * HOUR_MS, self.hz + 21 * HOUR_MS
            bulk(self.dr, "c14a", [{"timestamp": t1, "seg_marker": "open", "k": 1}, {"timestamp": t2, "seg_marker": "open", "k": 2}])
            self.dr.ok("flush")
            self.open_events = [("open", 1, 0), ("open", 2, 0)]
            times += [t1, t2]
        self.t_lo, self.t_hi = min(times), max(times)
        # rotated metrics segments enter the in-memory metadata through the 5 s refresh loop: wait for it
        if any(v["kind"] == "met" for v in self.seg.values()):
            want = set(v["series"] for v in self.seg.values() if v["kind"] == "met")
            t_end = time.time() + 25
            while True:
                got = self.mquery()
                if "qerr" not in got and want <= set(got["series"]):
                    break
                if time.time() > t_end:
                    raise vlib.Infra("rotated metrics segments did not become searchable within 25 s: %s" % got)
                time.sleep(0.5)
        if self.with_pq and beh["pq0"]:
            want = set(self.seg[i]["key"] for i in beh["pq0"])
            t_end = time.time() + 30
            while True:
                got = self.pq_listed()
                if want <= got:
                    break
                if time.time() > t_end:
                    raise Skip("pq-setup")     # the engine did not register the persistent query: nothing to check
                time.sleep(0.5)

    # ---- observation
    def query(self, text, org=0):
        r = self.dr.ok("query", text=text, index="*", start=1, end=int(time.time() * 1000) + FAR, size=1000, org=org)
        return r

    def mquery(self):
        r = self.dr.ok("mquery", promql=METRIC, start=self.t_lo // 1000 - 100, end=self.t_hi // 1000 + 100, step=1)
        if "qerr" in r:
            return {"qerr": r["qerr"]}
        out = {}
        for gid, pts in r.get("series", {}).items():
            tag = gid.split("seg:")[1].split(",")[0] if "seg:" in gid else gid
            out.setdefault(tag, []).extend(p[0] for p in pts)
        return {"series": {k: sorted(v) for k, v in out.items()}, "errs": r.get("errs")}

    def pq_listed(self):
        d = os.path.join(self.dir, "querynodes", self.info["host"], "pqmeta")
        out = set()
        for f in glob.glob(os.path.join(d, "*.meta")):
            try:
                out |= set(json.load(open(f)).keys())
            except (ValueError, OSError):
                pass
        return out

    def observe(self):
        o = {}
        recs_by, counts_by = {}, {}
        for org in self.orgs:           # every organisation asks for itself
            r = self.query("*", org)
            if "qerr" in r:
                o["search_err"] = r["qerr"]
                recs_by[org] = set()
            else:
                recs_by[org] = set((x.get("seg_marker"), x.get("k"), x.get("r") or 0) for x in ((r.get("hits") or {}).get("records") or []))
                if r.get("errors"):
                    o["search_errors_field"] = r.get("errors")
            r2 = self.query("* | stats count by seg_marker", org)
            counts_by[org] = {}
            if "qerr" in r2:
                o["stats_err"] = r2["qerr"]
            else:
                for m in r2.get("measure") or []:
                    g = m.get("GroupByValues") or [None]
                    counts_by[org][g[0]] = (m.get("MeasureVal") or {}).get("count(*)")
        recs, counts = recs_by[0], counts_by[0]
        has_met = any(v["kind"] == "met" for v in self.seg.values())
        mq = self.mquery() if has_met else {"series": {}}
        if "qerr" in mq:
            o["mquery_err"] = mq["qerr"]
            mq = {"series": {}}
        sm = segmeta_keys(self.info)
        mm = mmeta_dirs(self.info)
        logkeys = [mb["key"] for v in self.seg.values() if v["kind"] == "log" for mb in v["members"]]
        pk_by = {org: self.dr.ok("ret_pick", keys=logkeys, tables=TABLES, org=org) for org in self.orgs}
        rev = set(pk_by[0]["rev"])
        o["lines"] = segmeta_lines(self.info)
        pql = self.pq_listed() if self.with_pq else set()
        o["segmeta_dups"] = len(sm) != len(set(sm))
        o["tmp_files"] = [p for p in (self.info["segmeta"] + ".tmp", self.info["metricsmeta"] + ".tmp") if os.path.exists(p)]
        # keys the time-filtered selection returns although nobody listed them (must be data of this scenario only)
        o["picked_unlisted"] = sorted(k for org in self.orgs for k in pk_by[org]["picked"] if k not in sm)
        segs = {}
        for i, v in self.seg.items():
            if v["kind"] == "log":
                own = self.org_of(i)
                others = [x for x in self.orgs if x != own]
                cnt = counts_by[own].get("s%d" % i) or 0
                mst, agg = [], {"files": 0, "listed": 0, "mem": 0, "rev": 0, "picked": 0, "pq": 0, "found": 0, "foreign": 0}
                for mb in v["members"]:
                    # own organisation's view, and `foreign`: any other organisation finds / selects / holds the segment
                    f = {"files": os.path.isdir(mb["dir"]), "listed": mb["key"] in sm, "mem": mb["key"] in pk_by[own]["all"],
                         "rev": mb["key"] in rev, "picked": mb["key"] in pk_by[own]["picked"], "pq": mb["key"] in pql,
                         "found": len([e for e in mb["events"] if e in recs_by[own]]),
                         "foreign": sum(len([e for e in mb["events"] if e in recs_by[x]]) + int(mb["key"] in pk_by[x]["picked"]) +
                                        int(mb["key"] in pk_by[x]["all"]) for x in others)}
                    for k2 in agg:
                        agg[k2] += int(f[k2])
                    present = f["files"] and f["listed"] and f["mem"] and f["rev"] and f["picked"] and f["found"] == len(mb["events"]) \
                        and not f["foreign"]
                    absent = not (f["files"] or f["listed"] or f["mem"] or f["rev"] or f["picked"] or f["pq"] or f["found"] or f["foreign"])
                    mst.append("alive" if present else "gone" if absent else "mixed")
                n = len(v["members"])
                # group view: a flag is True if it holds for ANY member; n_* tell for how many
                segs[i] = {"files": agg["files"] > 0, "listed": agg["listed"] > 0, "mem": agg["mem"] > 0, "rev": agg["rev"] > 0,
                           "picked": agg["picked"] > 0, "pq": agg["pq"] > 0, "found": agg["found"], "count": cnt, "of": len(v["events"]),
                           "foreign": agg["foreign"], "org": own,
                           "m": n, "members_alive": mst.count("alive"), "members_gone": mst.count("gone"),
                           "n": {k2: agg[k2] for k2 in ("files", "listed", "mem", "rev", "picked")}}
            else:
                got = mq["series"].get(v["series"], [])
                segs[i] = {"files": os.path.isdir(v["dir"]), "listed": v["key"] in mm,
                           "found": len([t for t in v["pts"] if t in got]), "of": len(v["pts"]), "extra": len([t for t in got if t not in v["pts"]]),
                           "pq": False, "m": 1, "foreign": 0, "org": 0}
                segs[i]["mem"] = segs[i]["found"] > 0
                segs[i]["rev"] = segs[i]["picked"] = segs[i]["mem"]
                segs[i]["count"] = segs[i]["found"]
                ok = segs[i]["files"] and segs[i]["listed"] and segs[i]["found"] == segs[i]["of"]
                no = not (segs[i]["files"] or segs[i]["listed"] or segs[i]["found"])
                segs[i]["members_alive"], segs[i]["members_gone"] = int(ok), int(no)
        o["segs"] = segs
        o["open_found"] = len([e for e in self.open_events + self.base_events if e in recs])
        o["open_of"] = len(self.open_events + self.base_events)
        o["open_count"] = sum((counts.get(m) or 0) for m in set(e[0] for e in self.open_events + self.base_events))
        return o

    # ---- the pass and its steps
    def run_pass(self, org=0):
        if self.kind == "time":
            r = self.dr.ok("ret_time", hours=self.conc["hours"], org=org)
            used_hz = r["after_ms"] - self.conc["hours"] * HOUR_MS
            if used_hz >= self.hz + MARGIN_MS:
                raise vlib.Infra("scenario too slow: the horizon moved past the 'newer' events (%d ms)" % (used_hz - self.hz))
            self.trace.append({"pass": "time", "org": org, "hours": self.conc["hours"], "horizon_moved_ms": used_hz - self.hz})
        elif self.kind == "volume":
            v = self.dr.ok("ret_sysvol")
            self.dr.ok("ret_volume", gb=0, warn=5)
            self.trace.append({"pass": "volume", "gb": 0, "system_volume_bytes": v.get("bytes")})
        else:
            self.adjust_fill()
            used, total = statvfs_used(self.dir)
            self.dr.ok("ret_inode", warn=5)
            self.trace.append({"pass": "inode", "used": used, "total": total, "to_free": self.cur_free})

    # inode pressure: filler files next to the data directory on the same tmpfs
    def adjust_fill(self):
        """make `used inodes = 85 % target + cur_free` (cur_free <= 0: at or below the target, the pass must not fire)"""
        used, total = statvfs_used(self.dir)
        target = int(float(total) * float(INODE_MAX_PCT) / 100.0)
        want = target + self.cur_free
        delta = want - used
        while delta > 0:
            open(os.path.join(self.fill_dir, "f%d" % self.fill_n), "w").close()
            self.fill_n += 1
            delta -= 1
        while delta < 0 and self.fill_n > 0:
            self.fill_n -= 1
            os.unlink(os.path.join(self.fill_dir, "f%d" % self.fill_n))
            delta += 1
        used2, _ = statvfs_used(self.dir)
        if self.cur_free > 0 and used2 != want:
            raise vlib.Infra("could not set inode usage: used=%d want=%d" % (used2, want))

    def step(self, st):
        a = st["a"]
        if a in ("files", "mem"):
            self.dr.ok("ret_step", step=a, segkeys=[mb["key"] for mb in self.seg[st["s"]]["members"]])
        elif a in ("pqmeta", "segmeta"):
            self.dr.ok("ret_step", step=a, segkeys=[mb["key"] for i in self.cur_vL for mb in self.seg[i]["members"]])
        elif a == "m_mem":
            r = self.dr.ok("ret_mstep", step="mem", dirs=[self.seg[st["s"]]["key"]])
            if r.get("errs"):
                raise vlib.Infra("metrics segment not in memory although it was searchable: %s" % r)
        else:
            raise Skip("cut-inside-RemoveMetricsSegments")
        self.trace.append({"step": a, "seg": st.get("s")})


def plan_inode(beh, counts):
    """Find concrete 'inodes to free' values (first pass, pass after the interruption) for which the scan of
    doInodeBasedDeletion over the MEASURED directory inode counts takes the decisions of the abstract scan.
    Returns (free_first, free_second or None).  Raises Skip if no such value exists."""
    segs = beh["segs"]
    n = len(segs)
    ids = list(range(1, n + 1))
    starts = [st for st in beh["steps"] if st["a"] == "start"]
    crash_at = [k for k, st in enumerate(beh["steps"]) if st["a"] == "crash"]

    def order(files_listed):
        def key(i):
            return (0 if segs[i - 1]["kind"] == "met" else 1, segs[i - 1]["hi"])
        return sorted(files_listed, key=key)

    def scan(listed, files, to_free, w):
        if to_free <= 0:
            return set()
        marked, v = 0, set()
        for i in order(listed):
            if marked >= to_free:
                break
            if i not in files:
                continue
            if marked + w[i] <= to_free:
                v.add(i)
                marked += w[i]
        return v

    aw = {i: segs[i - 1]["w"] for i in ids}
    cw = {i: counts[i] for i in ids}
    listed = set(ids)
    files = set(ids)
    a_free1 = sum(aw.values()) - beh["limit"]
    want1 = set(starts[0]["vL"]) | set(starts[0]["vM"])
    assert scan(listed, files, a_free1, aw) == want1, "python scan disagrees with the spec"
    lo_gate = INODE_TOTAL // 100 + 1
    cands = [0] if a_free1 <= 0 else [t for t in range(lo_gate, sum(cw.values()) + 30) if scan(listed, files, t, cw) == want1]
    if not crash_at:
        if not cands:
            raise Skip("inode-concretisation")
        return cands[len(cands) // 2], None
    # state at the interruption
    removed_files, delisted = set(), set()
    for st in beh["steps"][:crash_at[0]]:
        if st["a"] in ("files", "m_files"):
            removed_files.add(st["s"])
        if st["a"] == "segmeta":
            delisted |= set(starts[0]["vL"])
    files2 = files - removed_files
    listed2 = listed - delisted
    want2 = set(starts[1]["vL"]) | set(starts[1]["vM"])
    a_free2 = sum(aw[i] for i in files2) - beh["limit"]
    assert scan(listed2, files2, a_free2, aw) == want2, "python scan disagrees with the spec (second pass)"
    good = []
    for t in cands:
        t2 = t - sum(cw[i] for i in removed_files)
        if a_free2 <= 0:
            if t2 < lo_gate:
                good.append((t, t2))
        elif t2 >= lo_gate and scan(listed2, files2, t2, cw) == want2:
            good.append((t, t2))
    if not good:
        raise Skip("inode-concretisation")
    return good[len(good) // 2]


def derived_steps(vL, vM):
    """the steps DeleteSegmentData / DeleteMetricsSegmentData take for these victims, per-victim loops in id order
    (what Gen_Retention emits with DetOrder) up to the last point that can be cut without a hook"""
    st = []
    if vL:
        st += [{"a": "files", "s": i} for i in sorted(vL)] + [{"a": "mem", "s": i} for i in sorted(vL)]
        st += [{"a": "pqmeta"}, {"a": "segmeta"}]
    st += [{"a": "m_mem", "s": i} for i in sorted(vM)]
    return st


def real_victims(ref):
    """what the REAL uninterrupted pass deleted in the reference run of the same scenario"""
    segs = ref["final"]["segs"]
    gone = sorted(i for i, s in segs.items() if not s["files"])
    return gone


def run_behaviour(binary, beh, conc, allow_mount=True, victims=None):
    """Returns dict(final=observation, after_repeat=..., after_restart=..., trace=[...]) or raises Skip / Infra.
    victims: ids the real uninterrupted pass deleted (reference run); the interrupted prefix is taken over these
    (identical to the spec's steps when the real selection equals the spec's)."""
    sc = Scenario(binary, beh, conc, allow_mount)
    try:
        steps = beh["steps"]
        crash_idx = [k for k, st in enumerate(steps) if st["a"] == "crash"]
        pre, own = [], False
        if crash_idx:
            pre = steps[1:crash_idx[0]]
            mv = sorted(steps[0]["vL"] + steps[0]["vM"])
            if victims is not None and sorted(victims) != mv:
                if beh["kind"] == "inode":
                    raise Skip("selection-differs-from-model")
                own = True
                vL = [i for i in victims if beh["segs"][i - 1]["kind"] == "log"]
                vM = [i for i in victims if beh["segs"][i - 1]["kind"] == "met"]
                ds = derived_steps(vL, vM)
                if len(pre) > len(ds):
                    raise Skip("cut-inside-RemoveMetricsSegments")
                pre = ds[:len(pre)]
            else:
                vL = steps[0]["vL"]
        sc.setup_dir()
        sc.build()
        pre_obs = sc.observe()
        bad = [i for i, s in pre_obs["segs"].items() if not classify(s)[0]]
        if bad or pre_obs["open_found"] != pre_obs["open_of"]:
            raise vlib.Infra("scenario not fully searchable before the pass (not a retention verdict): %s" % json.dumps(pre_obs)[:600])
        if sc.kind == "inode":
            counts = {i: sc.dr.ok("ret_inodes", dir=v["dir"]) for i, v in sc.seg.items()}
            free1, free2 = plan_inode(beh, counts)
            sc.cur_free = free1
            sc.trace.append({"inode_counts": counts, "to_free_first": free1, "to_free_after_interrupt": free2})
        if crash_idx:
            sc.cur_vL = vL
            if sc.kind == "inode":
                sc.adjust_fill()
            for st in pre:
                sc.step(st)
            sc.stop()                      # the process ends here: whatever was volatile is lost
            sc.trace.append({"crash": True})
            sc.start(False)
            if sc.kind == "inode":
                sc.cur_free = free2
        o1 = steps[0].get("org", 0)
        pre_lines = pre_obs["lines"]
        sc.run_pass(o1)
        res = {"final": settle(sc), "own_steps": own, "pre_lines": pre_lines, "org": o1}
        # plain repetition of the completed pass
        if sc.kind == "inode":
            # the next tick sees the usage the first pass left behind
            used, total = statvfs_used(sc.dir)
            sc.cur_free = used - int(float(total) * float(INODE_MAX_PCT) / 100.0)
        sc.run_pass(o1)
        res["after_repeat"] = settle(sc, res["final"])
        # a fresh process must see the same thing (metadata files are what it loads)
        sc.stop()
        sc.start(False)
        res["after_restart"] = settle(sc, res["after_repeat"])
        others = [x for x in sc.orgs if x != o1]
        if others and sc.kind == "time" and len(sc.orgs) > 1:
            # the other organisation's own pass (its next tick), seen by the running process and by a fresh one
            sc.run_pass(others[0])
            res["org2"] = others[0]
            res["after_other_org"] = settle(sc)
            sc.stop()
            sc.start(False)
            res["after_other_org_restart"] = settle(sc, res["after_other_org"])
        res["trace"] = sc.trace
        res["keys"] = {i: v["key"] for i, v in sc.seg.items()}
        return res
    except vlib.DriverDead as e:
        if e.kind == "hang":
            raise vlib.Infra("engine did not answer in time (machine load?): %s" % e)
        if e.rc in (-9, -15):
            # SIGKILL / SIGTERM come from outside (OOM killer, somebody's cleanup): the engine did not end by itself
            raise Skip("engine-killed-by-signal")
        return {"died": str(e), "trace": sc.trace}
    finally:
        sc.cleanup()


def classify(s):
    """(alive, gone) of one observed segment (or group of m segments with identical time range): alive = every member has its
    directory, is listed, is in all three in-memory structures incl. the time-filtered selection a query starts from, every
    event is returned by search and counted by stats; gone = no member has a directory, is listed, is in any in-memory
    structure / selected for search, nothing returned, not in an empty-PQ meta"""
    alive = s["members_alive"] == s["m"] and s["count"] == s["of"]
    gone = s["members_gone"] == s["m"] and s["count"] == 0
    return alive, gone


def obs_key(o):
    return json.dumps({"segs": {str(i): [s["files"], s["listed"], s["mem"], s["rev"], s["picked"], s["found"], s["count"], s["pq"],
                                         s["members_alive"], s["members_gone"], s.get("foreign", 0)] for i, s in o["segs"].items()},
                       "open": [o["open_found"], o["open_count"]]}, sort_keys=True)


def problems(sc, o):
    """observations that would be reported: used to decide whether to wait for the asynchronous loaders"""
    bad = 0
    for i, s in o["segs"].items():
        alive, gone = classify(s)
        if not (alive or gone):
            bad += 1
    if o["open_found"] != o["open_of"] or o["open_count"] != o["open_of"]:
        bad += 1
    return bad


def settle(sc, prev=None):
    """Observe; metadata loaders, the metrics refresh loop (5 s) and the PQS queue (10 s ticker) are asynchronous:
    anything that looks wrong is looked at again after their period and only the settled observation is used.
    (prev: an earlier settled observation; seeing exactly that again needs no second waiting period)"""
    o = sc.observe()
    waits = [0.4, 1.0, 5.5] + ([6.0, 6.0] if sc.with_pq else [])
    for w in waits:
        if not problems(sc, o) or (prev is not None and obs_key(o) == obs_key(prev)):
            break
        time.sleep(w)
        o = sc.observe()
    return o


# --------------------------------------------------------------------------- verdicts

def judge(beh, res, ref_final):
    """Property-level findings for one behaviour.  Returns list of (key, text)."""
    out = []
    kind = beh["kind"]
    crashed = beh["crashes"] > 0
    suffix = ":after-interrupt+repeat" if crashed else ""
    pn = kind + "-pass"
    if "died" in res:
        return [("C14:%s:engine-died%s" % (pn, suffix), "engine process ended by itself: " + res["died"])]
    segs = beh["segs"]
    first_org = res.get("org", 0)

    def stage(o, passed, suffix):
        """findings of one settled observation; passed = organisations whose pass has run (time pass)"""
        state = {}
        for i, s in sorted(o["segs"].items()):
            k = segs[i - 1]["kind"]
            kn = "log" if k == "log" else "metrics"
            alive, gone = classify(s)
            state[i] = "alive" if alive else "gone" if gone else "mixed"
            if alive or gone:
                continue
            grp = "" if s["m"] == 1 else " [group of %d segments with identical time range: %d alive, %d gone; per structure %s]" % (
                s["m"], s["members_alive"], s["members_gone"], s.get("n"))
            if s["m"] > 1 and s["members_alive"] + s["members_gone"] == s["m"]:
                # every member is cleanly alive or cleanly gone, but not all the same: judged below (which had to go / stay)
                state[i] = "split"
                if kind != "time":
                    out.append(("C14:%s:tied-%s-segments-partly-deleted%s" % (pn, kn, suffix),
                                "segment group %d: %d of %d segments with identical time range deleted, the others kept%s" % (
                                    i, s["members_gone"], s["m"], grp)))
                continue
            if s["listed"] and s["files"] and s.get("foreign"):
                out.append(("C14:%s:surviving-%s-segment-visible-to-another-org%s" % (pn, kn, suffix),
                            "segment %d (%s, org %s) survived, but another organisation now finds / selects it (%d hits): %s" % (
                                i, kn, s.get("org"), s["foreign"], s)))
                continue
            data_gone = (not s["files"]) or s["found"] == 0
            meta = "segmeta.json" if k == "log" else "metricmeta.json"
            if s["listed"] and not s["files"]:
                out.append(("C14:%s:%s-lists-deleted-segment%s" % (pn, meta, suffix),
                            "segment %d (%s): directory removed but %s still lists it: %s" % (i, kn, meta, s)))
            elif (not s["listed"]) and s["files"]:
                out.append(("C14:%s:%s-segment-files-remain-unlisted%s" % (pn, kn, suffix),
                            "segment %d (%s): removed from %s but its directory is still there: %s" % (i, kn, meta, s)))
            elif s["listed"] and s["files"] and (s["found"] != s["of"] or s["count"] != s["of"]):
                out.append(("C14:%s:surviving-%s-segment-not-fully-searchable%s" % (pn, kn, suffix),
                            "segment %d (%s) is listed and on disk but search returns %d/%d events (stats count %s): %s" % (
                                i, kn, s["found"], s["of"], s["count"], s)))
            elif (not s["listed"]) and (not s["files"]) and (s["found"] or s["count"]):
                out.append(("C14:%s:deleted-%s-data-still-returned-by-search%s" % (pn, kn, suffix),
                            "segment %d (%s) is deleted but search still returns %d events (stats count %s)" % (i, kn, s["found"], s["count"])))
            elif (not s["listed"]) and (not s["files"]) and s["mem"]:
                out.append(("C14:%s:deleted-%s-segment-still-in-memory-metadata%s" % (pn, kn, suffix),
                            "segment %d (%s): directory and %s entry are gone but the in-memory segment metadata (what queries walk) "
                            "still holds its key%s" % (i, kn, meta, grp)))
            elif (not s["listed"]) and (not s["files"]) and s["picked"]:
                out.append(("C14:%s:deleted-%s-segment-still-selected-for-search%s" % (pn, kn, suffix),
                            "segment %d (%s): directory and %s entry are gone, but the time-filtered segment selection every query starts "
                            "from (FilterSegmentsByTime over the per-table list) still returns its key%s%s" % (
                                i, kn, meta, grp, ("; query errors: %s" % str(o.get("search_errors_field"))[:200]) if o.get("search_errors_field") else "")))
            elif (not s["listed"]) and (not s["files"]) and s["rev"]:
                out.append(("C14:%s:deleted-%s-segment-still-in-reverse-index%s" % (pn, kn, suffix),
                            "segment %d (%s): directory and %s entry are gone but GetMicroIndex still resolves its key%s" % (i, kn, meta, grp)))
            elif s["listed"] and s["files"] and s["found"] == s["of"] and s["count"] == s["of"] and s["m"] == s.get("n", {}).get("files", 1) \
                    and s["m"] == s.get("n", {}).get("listed", 1):
                missing = [k2 for k2 in ("mem", "rev", "picked") if s.get("n", {}).get(k2, s["m"]) != s["m"]]
                out.append(("C14:%s:surviving-%s-segment-missing-from-in-memory-metadata%s" % (pn, kn, suffix),
                            "segment %d (%s) is on disk and listed but missing from %s%s" % (i, kn, missing, grp)))
            elif s["pq"] and data_gone:
                out.append(("C14:%s:empty-pq-meta-lists-deleted-segment%s" % (pn, suffix),
                            "segment %d is deleted (directory, segmeta.json, search) but an empty-PQ meta file still lists its key" % i))
            else:
                out.append(("C14:%s:%s-segment-half-deleted%s" % (pn, kn, suffix), "segment %d (%s): %s" % (i, kn, s)))
        # metadata files list exactly the survivors: a surviving entry is the entry that was there before the pass, field by field
        pre = res.get("pre_lines") or {}
        for key2, line in sorted((o.get("lines") or {}).items()):
            if key2 in pre and line != pre[key2]:
                flds = sorted(f for f in set(line) | set(pre[key2]) if line.get(f) != pre[key2].get(f))
                out.append(("C14:%s:segmeta.json-surviving-entry-altered:%s%s" % (pn, "+".join(flds)[:60], suffix),
                            "segmeta.json entry of surviving segment %s differs from the entry before the pass in %s: %s" % (
                                key2, flds, {f: [pre[key2].get(f), line.get(f)] for f in flds})))
                break
        if o["open_found"] != o["open_of"] or o["open_count"] != o["open_of"]:
            out.append(("C14:%s:open-or-unrelated-data-not-searchable%s" % (pn, suffix),
                        "events outside the rotated segments of the scenario: %d/%d found, stats count %d" % (
                            o["open_found"], o["open_of"], o["open_count"])))
        if o.get("segmeta_dups"):
            out.append(("C14:%s:segmeta-duplicate-entries%s" % (pn, suffix), "segmeta.json lists a segment twice"))
        if o.get("tmp_files"):
            out.append(("C14:%s:metadata-tmp-file-left%s" % (pn, suffix), "left behind: %s" % o["tmp_files"]))
        for e in ("search_err", "stats_err", "mquery_err"):
            if e in o:
                out.append(("C14:%s:query-error-after-pass%s" % (pn, suffix), "%s: %s" % (e, o[e])))
        # which segments had to go / stay
        if kind == "time":
            for i in sorted(state):
                hi = segs[i - 1]["hi"]
                kn = "log" if segs[i - 1]["kind"] == "log" else "metrics"
                own_passed = segs[i - 1].get("org", 0) in passed
                if hi < 0 and own_passed and state[i] in ("alive", "split"):
                    out.append(("C14:time-pass:expired-%s-segment-not-deleted%s" % (kn, suffix),
                                "segment %d (%s) newest event is older than the horizon but it survived (class lo=%d hi=%d)" % (
                                    i, kn, segs[i - 1]["lo"], hi)))
                if hi < 0 and not own_passed and state[i] in ("gone", "split"):
                    out.append(("C14:time-pass:segment-of-another-org-deleted%s" % suffix,
                                "segment %d (%s, org %s) was deleted by the pass of org %s" % (i, kn, segs[i - 1].get("org", 0), sorted(passed))))
                if hi > 0 and state[i] in ("gone", "split"):
                    out.append(("C14:time-pass:%s-segment-with-newer-event-deleted%s" % (kn, suffix),
                                "segment %d (%s) contains an event newer than the horizon but was deleted (class lo=%d hi=%d)" % (
                                    i, kn, segs[i - 1]["lo"], hi)))
        else:
            for a in sorted(state):
                for b in sorted(state):
                    # "kept" = its data is still there; a half-deleted older segment (directory already removed by the interrupted
                    # pass, metadata left behind) is reported under its own key above, it is not a segment that was kept
                    if state[a] == "gone" and state[b] != "gone" and o["segs"][b]["files"] and segs[a - 1]["hi"] > segs[b - 1]["hi"]:
                        out.append(("C14:%s:newer-%s-segment-deleted-older-%s-segment-kept%s" % (
                            pn, segs[a - 1]["kind"], segs[b - 1]["kind"], suffix),
                            "segment %d (%s, latest rank %d) deleted while older segment %d (%s, latest rank %d) survives" % (
                                a, segs[a - 1]["kind"], segs[a - 1]["hi"], b, segs[b - 1]["kind"], segs[b - 1]["hi"])))
            first = [st for st in beh["steps"] if st["a"] == "start"][0]
            if not crashed:
                if not (first["vL"] or first["vM"]) and any(v == "gone" for v in state.values()):
                    out.append(("C14:%s:deletion-while-under-the-limit" % pn, "nothing had to be freed but segments %s were deleted" % [
                        i for i in state if state[i] == "gone"]))
                oldest = min(range(1, len(segs) + 1), key=lambda i: segs[i - 1]["hi"])
                if oldest in first["vL"] + first["vM"] and all(v == "alive" for v in state.values()):
                    out.append(("C14:%s:nothing-deleted-while-over-the-limit" % pn,
                                "over the limit and the oldest segment fits, but the pass deleted nothing"))
        return state

    state = stage(res["final"], {first_org}, suffix)
    o = res["final"]
    if "after_other_org" in res:
        both = {first_org, res["org2"]}
        stage(res["after_other_org"], both, suffix + ":after-other-org-pass")
        stage(res["after_other_org_restart"], both, suffix + ":after-other-org-pass+restart")
    # same outcome when repeated / after a restart / when interrupted and repeated
    if obs_key(res["after_repeat"]) != obs_key(o) and kind != "inode":
        out.append(("C14:%s:repeat-changes-outcome%s" % (pn, suffix), "second run of the completed pass changed the outcome: %s -> %s" % (
            obs_key(o), obs_key(res["after_repeat"]))))
    if obs_key(res["after_restart"]) != obs_key(res["after_repeat"]):
        out.append(("C14:%s:restart-changes-outcome%s" % (pn, suffix), "a fresh process sees a different outcome: %s -> %s" % (
            obs_key(res["after_repeat"]), obs_key(res["after_restart"]))))
    if crashed and ref_final is not None and "final" in ref_final:
        r0 = {i: st for i, st in sorted(_states(ref_final["final"]).items())}
        same = r0 == state
        if beh.get("ties"):
            # segments whose latest times tie are interchangeable for the scan (sort.Slice may order them either way, in every
            # run): the outcome is compared up to that equivalence
            def cls(stt):
                return sorted((segs[int(i) - 1]["hi"], segs[int(i) - 1]["kind"], segs[int(i) - 1]["w"], v) for i, v in stt.items())
            same = cls(r0) == cls(state)
        if not same and "mixed" not in state.values():
            out.append(("C14:%s:interrupt+repeat-outcome-differs-from-uninterrupted" % pn,
                        "uninterrupted pass: %s; interrupted after %s and repeated: %s" % (
                            r0, [st["a"] + str(st.get("s", "")) for st in beh["steps"][1:_cut(beh) + 1]], state)))
    # de-duplicate keys, keep first text
    seen, ded = set(), []
    for k, t in out:
        if k not in seen:
            seen.add(k)
            ded.append((k, t))
    return ded


def _cut(beh):
    return [k for k, st in enumerate(beh["steps"]) if st["a"] == "crash"][0] - 1


def _states(o):
    st = {}
    for i, s in o["segs"].items():
        alive, gone = classify(s)
        st[i] = "alive" if alive else "gone" if gone else "mixed"
    return st


def model_mismatch(beh, res):
    """real final state vs. the final state the spec (constants = code as written) predicts"""
    if "final" not in res:
        return None
    f = beh["final"]
    diffs = []
    for i, s in sorted(res["final"]["segs"].items()):
        k = beh["segs"][i - 1]["kind"]
        exp = {"files": i in f["files"], "listed": i in (f["smeta"] if k == "log" else f["mmeta"]), "pq": i in f["pq"]}
        if k == "log":
            exp["picked"] = i in f.get("sorted", f["mem"])
            exp["mem"] = i in f["mem"]
        exp_search = i in f["mem"] and i in f["files"]
        got_search = s["found"] == s["of"]
        for fld in ("files", "listed", "pq", "picked", "mem"):
            if fld in exp and s[fld] != exp[fld]:
                diffs.append("seg %d %s: real %s, spec %s" % (i, fld, s[fld], exp[fld]))
        if got_search != exp_search:
            diffs.append("seg %d searchable: real %s (%d/%d), spec %s" % (i, got_search, s["found"], s["of"], exp_search))
    return diffs or None


# --------------------------------------------------------------------------- selection of behaviours

def scen_id(b):
    return json.dumps([b["segs"], b["kind"], b["limit"], b["openw"], b["pq0"], b["steps"][0].get("org", 0)], sort_keys=True)


def group(behs):
    g = {}
    for b in behs:
        g.setdefault(scen_id(b), []).append(b)
    return g


def bindable(b):
    """cuts between the directory removals and the metricmeta.json rewrite inside RemoveMetricsSegments are not
    reachable without a hook"""
    steps = b["steps"]
    ci = [k for k, st in enumerate(steps) if st["a"] == "crash"]
    if not ci:
        return True
    return not any(st["a"] in ("m_files", "m_meta") for st in steps[:ci[0]])


def pick(groups, rnd, n_scen, cuts_per, prefer=None):
    ids = sorted(groups)
    rnd.shuffle(ids)
    if prefer:
        ids.sort(key=lambda i: 0 if prefer(groups[i][0]) else 1)
    out = []
    for sid in ids[:n_scen]:
        bs = groups[sid]
        base = [b for b in bs if b["crashes"] == 0]
        cr = [b for b in bs if b["crashes"] > 0 and bindable(b)]
        rnd.shuffle(cr)
        out.append((sid, base[:1], cr if cuts_per is None else cr[:cuts_per]))
    return out


def run(chk):
    quick = chk.tier == "quick"
    rnd = random.Random(chk.seed)
    binary = vlib.build_driver()
    mount_ok = can_mount()

    # ---- model (runs in the background while behaviours are generated and replayed; joined at the end)
    def tlc(job):
        name, cfg, cov = job
        return vlib.run_tlc("MC_Retention", cfg, workers=3, timeout=1500, coverage=cov)
    jobs = [("time pass as coded (crash x2, repeat)", "MC_Retention_time.cfg" if quick else "MC_Retention_time_deep.cfg", quick),
            ("all passes, intended design (must hold)", "MC_Retention_intended.cfg", quick),
            ("as coded: volume order", "MC_Retention_ascoded_order.cfg", False),
            ("as coded: inode pass interrupted", "MC_Retention_ascoded_inode.cfg", False),
            ("as coded: empty-PQ meta", "MC_Retention_ascoded_pq.cfg", False),
            ("model mutant: per-table list entry located by binary search on the latest time (ties)", "MC_Retention_mut_bsearch.cfg", False),
            ("two organisations in one segmeta.json, per-organisation time passes (must hold)", "MC_Retention_orgs.cfg", False),
            ("model mutant: segmeta.json rewrite decodes into one reused entry (two organisations)", "MC_Retention_mut_scratch.cfg", False)]
    if not quick:
        jobs.insert(2, ("volume + inode passes, intended design, 4 segments (must hold)", "MC_Retention_intended_deep.cfg", False))

    def model_results(results):
        for (name, cfg, cov), r in zip(jobs, results):
            if cfg.startswith("MC_Retention_mut"):
                if r.error and not r.violated:
                    raise vlib.Infra("%s: TLC failed (%s)\n%s" % (cfg, r.error, r.out[-2000:]))
                if "Consistent" not in r.violated:
                    raise vlib.Infra("model sensitivity lost: %s no longer violates Consistent (ties in the segment sets gone?)" % cfg)
                chk.add_tlc(cfg, r, name + "; must violate Consistent: %s" % r.violated)
                chk.cov.setdefault("model_sensitivity", {})[cfg] = r.violated
            elif cfg.startswith("MC_Retention_ascoded"):
                if r.error:
                    raise vlib.Infra("%s: TLC failed (%s)\n%s" % (cfg, r.error, r.out[-2000:]))
                chk.add_tlc(cfg, r, name + "; expected to violate: %s" % r.violated)
                chk.cov.setdefault("model_sensitivity", {})[cfg] = r.violated or \
                    "no violation (the modelled deviation of the code is gone?)"
            else:
                vlib.tlc_must_hold(r, cfg)
                if cov and r.coverage_zero:
                    raise vlib.Infra("%s: vacuous actions %s" % (cfg, r.coverage_zero))
                chk.add_tlc(cfg, r, name + "; Consistent/TimeExact/OldestFirst/Idempotent/NoNeedlessDeletion")

    # ---- behaviours
    gens = [("time", "Gen_Retention_time.cfg" if quick else "Gen_Retention_time_deep.cfg"),
            ("pq", "Gen_Retention_pq.cfg"), ("orgs", "Gen_Retention_orgs.cfg"), ("volume", "Gen_Retention_volume.cfg"),
            ("vties", "Gen_Retention_volume_ties.cfg"),
            ("inode", "Gen_Retention_inode.cfg")]
    gres = vlib.pmap(lambda g: vlib.tlc_generate("Gen_Retention", g[1], timeout=1500), gens, workers=2)
    behs = {}
    for (name, cfg), (bs, r) in zip(gens, gres):
        if not bs:
            raise vlib.Infra("no behaviours generated by %s" % cfg)
        chk.add_tlc(cfg, r, "behaviour generation: %d behaviours" % len(bs))
        behs[name] = bs
    for b in behs["pq"]:
        b["pq_scenario"] = True
    # two organisations: the first completed pass of one organisation; the harness itself runs the other one's pass afterwards
    behs["orgs"] = [b for b in behs["orgs"] if len([st for st in b["steps"] if st["a"] in ("start", "repeat")]) == 1]
    for b in behs["vties"]:
        b["ties"] = True      # sort.Slice may order tied entries either way: several scan orders per scenario
    ex = cf.ThreadPoolExecutor(max_workers=2)
    futs = [ex.submit(tlc, j) for j in jobs]
    try:
        replay_all(chk, quick, rnd, binary, mount_ok, behs)
        model_results([f.result() for f in futs])
    finally:
        ex.shutdown(wait=True)


def replay_all(chk, quick, rnd, binary, mount_ok, behs):

    def has_met(b):
        return any(s["kind"] == "met" for s in b["segs"])

    def interesting_time(b):
        his = [s["hi"] for s in b["segs"]]
        return min(his) < 0 < max(his)

    def mult(b):
        return max(s.get("m", 1) for s in b["segs"])

    def tied_victims(b):   # a group of segments with identical time range that has to be deleted in one batch
        return any(s.get("m", 1) > 1 and s["hi"] < 0 for s in b["segs"])

    plan = []
    g_all = group(behs["time"])
    g_time = {k: v for k, v in g_all.items() if mult(v[0]) == 1}
    g_nomet = {k: v for k, v in g_time.items() if not has_met(v[0]) and interesting_time(v[0])}
    g_met = {k: v for k, v in g_time.items() if has_met(v[0]) and interesting_time(v[0])}
    g_rest = {k: v for k, v in g_time.items() if not interesting_time(v[0])}
    # ties: m segments of one index ending (and starting) on the same millisecond, as victims (next to survivors that share
    # their earliest time / next to other expired segments) and as survivors
    g_tie_v = {k: v for k, v in g_all.items() if mult(v[0]) > 1 and tied_victims(v[0]) and not has_met(v[0])}
    g_tie_vm = {k: v for k, v in g_all.items() if mult(v[0]) > 1 and tied_victims(v[0]) and has_met(v[0])}
    g_tie_s = {k: v for k, v in g_all.items() if mult(v[0]) > 1 and not tied_victims(v[0]) and not has_met(v[0]) and interesting_time(v[0])}
    # multi-tenant segmeta.json: both organisations' lines interleaved, a pass that rewrites the file (victims and survivors)
    def orgs_interesting(b):
        st = b["steps"][0]
        vict = set(st["vL"] + st["vM"])
        surv = [i for i in range(1, len(b["segs"]) + 1) if i not in vict]
        return len(set(x.get("org", 0) for x in b["segs"])) > 1 and vict and surv

    def foreign_line_before_default_survivor(b):
        vict = set(b["steps"][0]["vL"])
        return any(b["segs"][j - 1].get("org", 0) != 0 and b["segs"][i - 1].get("org", 0) == 0 and i not in vict
                   for i in range(1, len(b["segs"]) + 1) for j in range(1, i))
    g_org = {k: v for k, v in group(behs["orgs"]).items() if orgs_interesting(v[0])}
    g_org_a = {k: v for k, v in g_org.items() if foreign_line_before_default_survivor(v[0])}
    g_org_b = {k: v for k, v in g_org.items() if k not in g_org_a}
    plan += pick(g_org_a, rnd, 2 if quick else 16, 0)
    plan += pick(g_org_b, rnd, 2 if quick else 16, 0)
    plan += pick(g_tie_v, rnd, 3 if quick else 20, 1 if quick else 3, prefer=lambda b: len(b["segs"]) > 1)
    plan += pick(g_tie_vm, rnd, 0 if quick else 4, 1)
    plan += pick(g_tie_s, rnd, 1 if quick else 6, 1)
    plan += pick(g_nomet, rnd, 7 if quick else 80, 2 if quick else None)
    plan += pick(g_met, rnd, 4 if quick else 24, 1 if quick else None)
    plan += pick(g_rest, rnd, 2 if quick else 10, 1)
    g_pq = {k: v for k, v in group(behs["pq"]).items() if v[0]["pq0"]}
    plan += pick(g_pq, rnd, 1 if quick else 3, 1 if quick else 2,
                 prefer=lambda b: any(b["segs"][i - 1]["hi"] < 0 for i in b["pq0"]))
    g_vol = group(behs["volume"])
    plan += pick({k: v for k, v in g_vol.items() if not has_met(v[0])}, rnd, 3 if quick else 24, 1 if quick else 3)
    plan += pick({k: v for k, v in g_vol.items() if has_met(v[0])}, rnd, 3 if quick else 24, 1 if quick else 3,
                 prefer=lambda b: not b["ok"]["oldest"])
    # volume pass over log segments whose latest times tie (a victim and a survivor / two victims end on the same ms)
    g_vt = {k: v for k, v in group(behs["vties"]).items()
            if len(set(s["hi"] for s in v[0]["segs"])) < len(v[0]["segs"]) and len(v[0]["segs"]) > 1}
    plan += pick(g_vt, rnd, 2 if quick else 16, 1 if quick else 3, prefer=lambda b: len(b["segs"]) == 3)
    inode_plan = []
    if mount_ok:
        g_ino = {k: v for k, v in group(behs["inode"]).items() if not has_met(v[0])}
        g_inom = {k: v for k, v in group(behs["inode"]).items() if has_met(v[0])}
        inode_plan += pick(g_ino, rnd, 5 if quick else 40, 1 if quick else 3)
        inode_plan += pick(g_inom, rnd, 1 if quick else 8, 1 if quick else 2)
        plan += inode_plan
    else:
        chk.cov["inode_pass"] = "SKIPPED: mounting a tmpfs is not permitted here"

    def seed_of(sid):
        return chk.seed * 100003 + (hash_str(sid) % 100000)

    def order(ts):   # long scenarios first
        return sorted(ts, key=lambda t: (0 if t[1].get("pq_scenario") else 1 if has_met(t[1]) else 2 if mult(t[1]) > 1 else 3))

    def work(t):
        sid, b, seed, victims = t
        conc = concretise(b, seed)
        try:
            return run_behaviour(binary, b, conc, mount_ok, victims), conc
        except Skip as e:
            return {"skip": str(e)}, conc
    # phase 1: the uninterrupted pass of every scenario (also tells which segments the REAL selection takes);
    # phase 2 (as soon as the scenario's phase 1 is done): the same scenario interrupted after step k, restarted,
    # pass repeated
    t1 = order([(sid, b, seed_of(sid), None) for sid, base, crs in plan for b in base])
    crs_of = {sid: crs for sid, base, crs in plan}
    tasks, outs = [], []
    with cf.ThreadPoolExecutor(max_workers=WORKERS) as ex:
        f1 = {ex.submit(work, t): t for t in t1}
        f2 = {}
        for f in cf.as_completed(list(f1)):
            t = f1[f]
            r, c = f.result()
            tasks.append((t[0], t[1], t[2]))
            outs.append((r, c))
            if "final" in r:
                for b in crs_of.get(t[0], []):
                    t2 = (t[0], b, t[2], real_victims(r))
                    f2[ex.submit(work, t2)] = t2
        for f in cf.as_completed(list(f2)):
            t = f2[f]
            tasks.append((t[0], t[1], t[2]))
            outs.append(f.result())

    # completion order is arbitrary: fix the order in which findings are reported
    both = sorted(zip(tasks, outs), key=lambda x: (x[0][0], x[0][1]["crashes"], json.dumps(x[0][1]["steps"], sort_keys=True)))
    tasks, outs = [x[0] for x in both], [x[1] for x in both]
    ref = {}
    for (sid, b, seed), (res, conc) in zip(tasks, outs):
        if b["crashes"] == 0 and "skip" not in res:
            ref[sid] = res
    skipped, drift, fixed = {}, [], []
    n_done = 0
    vio_seen = {}
    for (sid, b, seed), (res, conc) in zip(tasks, outs):
        if "skip" in res:
            skipped[res["skip"]] = skipped.get(res["skip"], 0) + 1
            continue
        n_done += 1
        chk.replayed(1)
        cut = "none" if not b["crashes"] else "/".join(st["a"] for st in b["steps"][1:_cut(b) + 1]) or "start"
        nontrivial = bool(b["steps"][0]["vL"] or b["steps"][0]["vM"]) and len(b["segs"]) > 1
        chk.count((b["kind"], sid, cut), nontrivial=nontrivial)
        fails = judge(b, res, ref.get(sid))
        for key, text in fails:
            vio_seen[key] = vio_seen.get(key, 0) + 1
            if vio_seen[key] == 1:     # one report (and one replay file) per distinct finding
                chk.violation(key, text, {"behaviour": b, "seed": seed, "concretisation": conc, "observed": res})
        mm = None if (res.get("own_steps") or b.get("ties")) else model_mismatch(b, res)
        predicted_ok = all(b["ok"].values())
        if mm and not fails:
            (drift if predicted_ok else fixed).append({"behaviour": b, "diff": mm})
        if len(chk.cov["samples"]) < 4 and (b["crashes"] or b["kind"] != "time"):
            chk.sample({"kind": b["kind"], "segs": b["segs"], "limit": b["limit"],
                        "steps_before_interrupt": [st for st in b["steps"][1:_cut(b) + 1]] if b["crashes"] else None,
                        "spec_final": b["final"], "real_final": res.get("final", res), "trace": res.get("trace")})
    chk.cov["behaviours_by_pass"] = {k: len([1 for t in tasks if t[1]["kind"] == k]) for k in ("time", "volume", "inode")}
    chk.cov["behaviours_with_tied_segments"] = {
        "groups_of_12_identical_ranges": len([1 for t in tasks if max(s.get("m", 1) for s in t[1]["segs"]) > 1]),
        "volume_pass_latest_time_ties": len([1 for t in tasks if t[1].get("ties")])}
    chk.cov["behaviours_with_two_organisations"] = len([1 for t in tasks if len(set(s.get("org", 0) for s in t[1]["segs"])) > 1])
    chk.cov["skipped"] = skipped
    chk.cov["findings_by_key"] = vio_seen
    chk.cov["model_predicted_failure_not_reproduced"] = len(fixed)
    if n_done == 0:
        raise vlib.Infra("no behaviour could be replayed: %s" % skipped)
    if skipped.get("engine-killed-by-signal", 0) > max(3, n_done // 10):
        raise vlib.Infra("too many engine processes were killed from outside (SIGKILL/SIGTERM): %s" % skipped)
    if drift and not chk.violations:
        raise vlib.Infra("SPEC-DRIFT: the real engine ends in a state the spec does not predict although the property "
                         "holds: %s" % json.dumps(drift[0])[:1500])
    chk.cov["spec_drift_cases"] = len(drift)
    chk.assumptions += [
        "the pass reads time.Now() itself: 'older' events are placed before the horizon computed when the scenario is built (it only "
        "moves forward), 'newer' events 15 min or more after it; a latest time exactly AT the horizon is model-only (statement leaves it open)",
        "interruption = prefix of the real step functions in the order DeleteSegmentData / DeleteMetricsSegmentData call them, then "
        "process end; cuts inside RemoveMetricsSegments / RemoveAll / between tmp write and rename need verifhook call sites",
        "the in-memory metrics metadata has been refreshed (5 s loop) before the pass runs",
        "volume pass with limit 0 GB; inode pass on a tmpfs with %d inodes and filler files" % INODE_TOTAL,
        "observations that look wrong are re-read after the asynchronous loaders' period (0.4 s .. 5.5 s; PQS queue 12 s) before they count",
    ]
    chk.describe(rule="TLC enumerates segment sets (<= 3 quick / 4 thorough segments; log/metrics; older / straddling / newer) x pass "
                      "kind and limit x interruption point; a seeded sample of scenarios is built on the real engine, each with its "
                      "uninterrupted behaviour and interrupted ones. distinct_nontrivial = distinct (pass, segment set, cut) with "
                      "at least two segments and a non-empty victim set",
                 exhaustive=False)


def hash_str(s):
    h = 0
    for ch in s:
        h = (h * 131 + ord(ch)) % 1000000007
    return h


def replay(chk, path):
    d = json.load(open(path))
    rp = d["replay"]
    b, conc = rp["behaviour"], rp["concretisation"]
    print("property C14 key=%s" % d.get("key"))
    print("what: %s" % d.get("what"))
    print("behaviour: %s" % json.dumps(b))
    binary = vlib.build_driver()
    ref, victims = None, None
    try:
        if b["crashes"]:
            b0 = dict(b)
            first = [st for st in b["steps"] if st["a"] == "start"][0]
            b0["steps"], b0["crashes"] = [first], 0
            ref = run_behaviour(binary, b0, conc, can_mount())
            print("uninterrupted reference run, final: %s" % json.dumps(ref.get("final"), sort_keys=True))
            if "final" in ref:
                victims = real_victims(ref)
                print("segments the real uninterrupted pass deleted: %s" % victims)
        res = run_behaviour(binary, b, conc, can_mount(), victims)
    except Skip as e:
        print("cannot be replayed here: %s" % e)
        return 2
    print("trace: %s" % json.dumps(res.get("trace")))
    for stage in ("final", "after_repeat", "after_restart"):
        if stage in res:
            print("%s: %s" % (stage, json.dumps(res[stage], sort_keys=True)))
    fails = judge(b, res, ref)
    for k, t in fails:
        print("FINDING %s :: %s" % (k, t))
    print("reproduced" if any(k == d.get("key") for k, _ in fails) else "not reproduced")
    return 1 if fails else 0
