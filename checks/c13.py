"""C13 - searches see only the requested indexes of the requesting tenant; deleting an index removes all of its
data and nothing else.

Model: spec/Tenancy.tla - (a) the abstract store of the statement (events per organisation and index, aliases,
  Expand(org, expr), Query(org, expr)) and (b) a transcription of how siglens registers, finds and deletes the
  same data (virtual table file vs in-memory registry, alias map, open / unrotated / rotated segments listed by
  TABLE NAME, deleteIndex and the four functions it calls).  TLC checks NoLeak / ExactByName / Exact for the
  patched transcription, NoDeleteExact for the transcription of the tree under test, in every reachable state.
Binding: TLC-generated histories (exhaustive canonical histories on a small alphabet + simulated longer ones over
  3 organisations and prefix-related names a / ab / b with the shared alias al) are replayed on the real engine
  with organisation ids 0/1/2; every event carries (org, idx, id) markers and a column named after (org, idx);
  after every operation every (org, expression) pair is searched, after deletes and at the end also
  `| stats count by`, column listing, index listing and a metrics query per organisation.
"""
import glob
import json
import os
import random
import re
import time

import vlib

LEVEL = "model_checking"
CLAIMED = True   # set by the lead after review; only claimed checks enter MANIFEST.json

MANIFEST = dict(
    category="model_checking",
    technique="TLA+ spec of the tenant/index store with an abstract layer (the statement) and a transcription of the "
              "registry / segment lists / deleteIndex; TLC checks isolation and delete-exactness in every state; TLC-generated "
              "operation histories are replayed on the real engine and every (org, index expression, query form) answer is "
              "compared with the abstract layer after every operation",
    text=("spec/Tenancy.tla: events[org][index], aliases[org], tables[org]; Ingest / Flush / Rotate / AddAlias / RemoveAlias / "
          "DeleteIndex; Expand(org, expr) for a, ab, abc, b, al (alias), a* (trailing), a*b (inner), *b (leading wildcard), *, 'b,a*b' over "
          "names that extend each other (a, ab, abc) and an alias shared across indexes and organisations; DeleteIndex over direct "
          "names and the wildcards a*b / *b; transcription of virtualtablenames file vs memory map, "
          "aliasToIndexNames, open/unrotated/rotated segments keyed by table name with OrgId filters, deleteIndex by name. TLC: "
          "NoLeak, ExactByName, Exact (patched transcription), NoDeleteExact (this tree's transcription), 2 orgs x 4 indexes, <= 4 "
          "operations (thorough: 2 orgs <= 5, 3 orgs <= 4). Replay: four generated pools - all canonical histories of exactly 4 "
          "operations over 2 orgs x {a, ab, abc} (13 410), simulated histories of 6 operations over 3 orgs x {a, ab, abc, b}, and all "
          "canonical histories of 5 operations in which ingest+rotate is one step (segment-rich: up to 4 rotated segments of one "
          "(org, index) before it is deleted; 20 774), and all canonical histories of 4 operations over organisation ids and index names "
          "whose naive concatenations collide (orgs 2 and 12 x indexes a and a1: 'a'+'12' = 'a1'+'2'; 2 512; the simulated pool uses orgs "
          "0, 2, 12 and adds a1 as well) - from which a seeded stratified sample (deviating / most-at-stake deletes / "
          "feature classes) is executed on the real engine (ES bulk with org id, alias and delete-index handlers with a synthetic "
          "RequestCtx, flush, forced rotation); after every operation every (org, expression) is searched and its columns listed (one "
          "column per event, so a re-created index must not inherit columns); `stats count by`, `stats count`, listIndices and a "
          "PromQL selector per organisation are checked after deletes, rotations and at the end."),
    note=("Replay is a sample (quick 160 histories, thorough 2000), not all histories. Completeness (an answer missing events) "
          "is judged only where the statement speaks: data lost through a DeleteIndex; other under-delivery that the transcription "
          "predicts is recorded as an observation, unpredicted under-delivery is SPEC-DRIFT (exit 2). Delete is exercised with "
          "direct names and wildcards that match no alias (no alias deletes); ingest never targets an alias name; restart, retention, PQS and the "
          "Elasticsearch _search API are not exercised; metrics isolation is one selector query per organisation on a fixed "
          "prologue (one series per organisation with identical name), not part of the TLC histories. The per-organisation alias "
          "directories are created by the harness (the open-source tree only creates organisation 0's)."),
    design_ref="DESIGN.md 4/C13",
)

WORKERS = int(os.environ.get("VERIF_WORKERS", "0")) or min(vlib.NCPU, 8)
T0 = 1_700_000_000_000
NAMES = ("a", "a1", "ab", "abc", "b")


def is_del(opd, org=None, idx=None):
    """is opd a successful DeleteIndex (of organisation org) (that names index idx)"""
    return opd["op"] == "delete" and bool(opd["present"]) and (org is None or opd["org"] == org) and (idx is None or idx in opd["names"])


def is_ingest(opd):
    return opd["op"] in ("ingest", "ingest_rotate")


def is_rotate(opd):
    return opd["op"] in ("rotate", "ingest_rotate")
ORGS3 = [0, 1, 2]
MT0 = 1_700_000_000


def doc(o, i, n):
    return {"timestamp": T0 + n, "org": "o%d" % o, "idx": i, "eid": "e%d" % n, "c_o%d_%s_e%d" % (o, i, n): n, "msg": "event %d of org %d" % (n, o)}


def rec_triple(r):
    """(org, idx, id) markers of a returned record; None if it is not one of ours"""
    try:
        return (int(str(r.get("org"))[1:]), r.get("idx"), int(str(r.get("eid"))[1:]))
    except (TypeError, ValueError):
        return None


class Replayer:
    def __init__(self, binary, orgs):
        self.binary, self.orgs = binary, orgs
        self.d = vlib.scratch("c13")
        self.dr = vlib.Driver(binary)
        self.dr.ok("init", dir=self.d)
        self.dr.ok("ten_mkorgdirs", orgs=[o for o in orgs if o != 0])

    def close(self):
        self.dr.quit()
        vlib.rmtree(self.d)

    def restart(self):
        """new server life on the same data directory (the driver exits without a shutdown flush)"""
        self.dr.quit()
        self.dr = vlib.Driver(self.binary)
        self.dr.ok("init", dir=self.d, wait_ms=400)

    def metrics_prologue(self):
        for o in self.orgs:
            body = json.dumps([{"metric": "c13m", "tags": {"org": "o%d" % o}, "timestamp": MT0 + o, "value": 100 + o}])
            r = self.dr.ok("otsdb", org=o, body=body)
            if r.get("failed"):
                raise vlib.Infra("metrics prologue rejected: %s" % r)

    def apply(self, op):
        k = op["op"]
        if k == "ingest":
            o, i, n = op["org"], op["idx"], op["id"]
            body = json.dumps({"index": {"_index": i}}) + "\n" + json.dumps(doc(o, i, n)) + "\n"
            r = self.dr.ok("bulk", org=o, body=body)
            if r.get("herr") or (r.get("response") or {}).get("errors"):
                raise vlib.Infra("C13 ingest rejected: %s" % r)
            return r
        if k == "ingest_rotate":
            self.apply(dict(op, op="ingest"))
            return self.dr.ok("rotate")
        if k == "flush":
            return self.dr.ok("flush")
        if k == "rotate":
            return self.dr.ok("rotate")
        if k in ("alias_add", "alias_remove"):
            r = self.dr.ok("ten_alias", org=op["org"], action="add" if k == "alias_add" else "remove", index=op["idx"], alias=op["alias"])
            if "Bad Request" in json.dumps(r):
                raise vlib.Infra("alias operation rejected by the handler (spec assumes it is accepted): %s %s" % (op, r))
            return r
        if k == "delete":
            r = self.dr.ok("ten_delete_index", org=op["org"], index=op["idx"])
            return r
        raise vlib.Infra("unknown op %r" % (op,))

    # ---- observations: each returns a set of (org, idx, id) triples, or None on a query error
    def search(self, o, e, text="*"):
        q = self.dr.ok("query", org=o, index=e, text=text, start=T0 - 1000, end=T0 + 10_000_000, size=2000)
        if q.get("hang"):
            raise vlib.Infra("query hang (load?)")
        if "qerr" in q:
            return None, q["qerr"]
        out = set()
        for r in (q.get("hits") or {}).get("records") or []:
            t = rec_triple(r)
            if t:
                out.add(t)
        return out, q

    def stats(self, o, e):
        q = self.dr.ok("query", org=o, index=e, text="* | stats count by org, idx, eid", start=T0 - 1000, end=T0 + 10_000_000, size=2000)
        if q.get("hang"):
            raise vlib.Infra("query hang (load?)")
        if "qerr" in q:
            return None
        out = set()
        cols = q.get("groupByCols") or []
        for m in q.get("measure") or []:
            g = dict(zip(cols, m.get("GroupByValues") or []))
            try:
                out.add((int(str(g.get("org"))[1:]), g.get("idx"), int(str(g.get("eid"))[1:])))
            except ValueError:
                pass
        return out

    def total(self, o, e):
        """`* | stats count` (answered from segment statistics when it can be)"""
        q = self.dr.ok("query", org=o, index=e, text="* | stats count", start=T0 - 1000, end=T0 + 10_000_000, size=10)
        if q.get("hang"):
            raise vlib.Infra("query hang (load?)")
        if "qerr" in q:
            return None
        for m in q.get("measure") or []:
            v = (m.get("MeasureVal") or {}).get("count(*)")
            if isinstance(v, (int, float)):
                return int(v)
        return 0

    def columns(self, o, e):
        r = self.dr.ok("ten_columns", org=o, index=e, start=T0 - 1000, end=T0 + 10_000_000)
        out = set()
        for c in r.get("body") or []:
            m = re.match(r"^c_o(\d+)_([a-z0-9]+)_e(\d+)$", str(c))
            if m:
                out.add((int(m.group(1)), m.group(2), int(m.group(3))))
        return out

    def indices(self, o):
        r = self.dr.ok("ten_indices", org=o)
        return set(x.get("index") for x in (r.get("body") or []) if isinstance(x, dict))

    def metrics(self, o):
        r = self.dr.ok("mquery", org=o, promql="c13m", start=MT0 - 10, end=MT0 + 100, step=1)
        if "qerr" in r:
            return None
        return set(r.get("series") or {})


def kind_of(e):
    return {"*": "all", "a*": "wildcard", "a*b": "inner-wildcard", "*b": "leading-wildcard", "al": "alias", "b,a*b": "list"}.get(e, "name")


def replay_history(binary, h):
    """Executes one history; returns {"viol": [(key, text)], "obs": [...], "drift": [...], "died": str|None}"""
    steps = h["steps"]
    orgs = sorted(int(o) for o in steps[0]["ev"])
    out = {"viol": [], "obs": [], "drift": [], "died": None, "trace": []}
    rp = None
    try:
        rp = Replayer(binary, orgs)
        rp.metrics_prologue()
        ingested_at = {}     # id -> step no
        own = {}             # id -> (org, idx)
        prev = {}            # (o, e) -> previous search result
        for k, st in enumerate(steps):
            op = st["op"]
            res = rp.apply(op)
            if is_ingest(op):
                ingested_at[op["id"]] = k
                own[op["id"]] = (op["org"], op["idx"])
            if op["op"] == "delete":
                okd = res.get("status") == 200
                if okd != bool(op["present"]):
                    # the statement: deleting an (existing) index removes its data; a 404 for an existing index is judged by
                    # what the queries below still return, so it is only noted here
                    out["obs"].append("step %d: delete(%s,%s) answered %s but the index %s" % (
                        k + 1, op["org"], op["idx"], res.get("status"), "exists" if op["present"] else "does not exist"))
            last = k == len(steps) - 1
            full = last or op["op"] == "delete" or is_rotate(op)
            cur = {}
            for o in orgs:
                evo, viso, exo = st["ev"][str(o)], st["vis"][str(o)], st["expand"][str(o)]
                for e in sorted(exo):
                    allowed = set((o, i, n) for i in exo[e] for n in evo.get(i, []))
                    expected = set((o, i, n) for i in exo[e] for n in viso.get(i, []))
                    forms = [("search", rp.search(o, e)[0])]
                    if full:
                        forms.append(("stats", rp.stats(o, e)))
                    cur[(o, e)] = forms[0][1]
                    for form, got in forms:
                        if got is None:
                            out["obs"].append("step %d: %s query error for org %d expr %s" % (k + 1, form, o, e))
                            continue
                        # ---- the property's "only"
                        for t in sorted(got - allowed):
                            if t[0] != o:
                                key, why = "C13:leak:%s:cross-org" % form, "event of organisation %d" % t[0]
                            elif t[2] in own and t[2] not in evo.get(t[1], []):
                                gen = "second-generation" if any(is_del(s["op"], o, t[1]) and j < ingested_at.get(t[2], -1)
                                                                 for j, s in enumerate(steps[:k + 1])) else "first-generation"
                                key, why = "C13:delete-index:data-survives:%s" % gen, "event e%d of the deleted index %s" % (t[2], t[1])
                            else:
                                key, why = "C13:leak:%s:index-not-named:%s" % (form, kind_of(e)), "event of index %s which %r does not name" % (t[1], e)
                            out["viol"].append((key, "step %d (%s): %s over %r for org %d returned %s (marker %s); expression names %s" % (
                                k + 1, json.dumps(op), form, e, o, why, t, exo[e])))
                        # ---- "... and nothing else" (completeness)
                        missing = expected - got
                        if missing and form == "search":
                            impl = set(st["impl"][str(o)][e])
                            for t in sorted(missing):
                                ing = ingested_at.get(t[2], 10 ** 9)
                                cross = [j for j in range(k + 1) if j > ing and is_del(steps[j]["op"], None, t[1]) and steps[j]["op"]["org"] != t[0]]
                                was_seen = t in (prev.get((o, e)) or set())
                                culprit = None
                                if cross:
                                    culprit = cross[-1]
                                elif op["op"] == "delete" and not is_del(op, t[0], t[1]) and was_seen:
                                    culprit = k        # it was returned before this delete and is expected after it
                                if culprit is not None:
                                    j, dj = culprit, steps[culprit]["op"]
                                    rot = any(is_rotate(s["op"]) for s in steps[ing:j])
                                    fl = any(s["op"]["op"] == "flush" or is_rotate(s["op"]) for s in steps[ing:j])
                                    layer = "rotated" if rot else ("unrotated" if fl else "open")
                                    rel = "cross-org" if dj["org"] != t[0] else "other-index"
                                    out["viol"].append(("C13:delete-index:%s:%s" % (rel, layer),
                                                        "step %d: %r for org %d no longer returns event e%d of (org %d, index %s) after step %d %s "
                                                        "deleted a different index (data was %s)" % (k + 1, e, o, t[2], t[0], t[1], j + 1, json.dumps(dj), layer)))
                                elif t[2] not in impl:
                                    out["obs"].append("incomplete:%s: step %d %r org %d misses e%d (the transcription predicts this)" % (
                                        kind_of(e), k + 1, e, o, t[2]))
                                else:
                                    out["drift"].append("step %d: %r for org %d misses e%d; neither the statement nor the transcription explains it" % (k + 1, e, o, t[2]))
                        if form == "search":
                            impl = set(st["impl"][str(o)][e])
                            ids = set(t[2] for t in got)
                            if ids != impl:
                                out["trace"].append("step %d org %d %r: real %s transcription %s" % (k + 1, o, e, sorted(ids), sorted(impl)))
                    # column listing after EVERY operation: only columns of live events of the named indexes
                    cols = rp.columns(o, e)
                    okcols = set((o, i, n) for i in exo[e] for n in evo.get(i, []))
                    for c in sorted(cols - okcols):
                        if c[0] != o:
                            key = "C13:leak:columns:cross-org"
                        elif c[2] in own and c[2] not in evo.get(c[1], []):
                            key = "C13:delete-index:data-survives:columns"
                        else:
                            key = "C13:leak:columns:index-not-named:%s" % kind_of(e)
                        out["viol"].append((key, "step %d (%s): listColumnNames over %r for org %d lists column c_o%d_%s_e%d (%s; live indexes named: %s)" % (
                            k + 1, json.dumps(op), e, o, c[0], c[1], c[2],
                            "a column of the deleted index's event e%d" % c[2] if key.endswith("survives:columns") else "not a column of the indexes the expression names",
                            sorted(i for i in exo[e] if evo.get(i)))))
                    if full:
                        tot = rp.total(o, e)
                        if tot is not None and tot > len(allowed):
                            gone = [i for i in exo[e] if not evo.get(i) and any(is_del(s_["op"], o, i) for s_ in steps[:k + 1])]
                            out["viol"].append(("C13:delete-index:data-survives:stats-count" if gone else "C13:leak:stats-count", "step %d: `* | stats count` over %r for org %d counts %d events, only %d exist in the "
                                                "indexes it names" % (k + 1, e, o, tot, len(allowed))))
                if full:
                    idx = rp.indices(o)
                    stray = sorted(i for i in idx if i in NAMES and not any(
                        is_ingest(s["op"]) and s["op"]["org"] == o and s["op"]["idx"] == i for s in steps[:k + 1]))
                    if stray:
                        out["viol"].append(("C13:leak:indices:cross-org", "step %d: listIndices for org %d lists %s which it never created" % (k + 1, o, stray)))
                    ms = rp.metrics(o)
                    if ms is not None:
                        bad = sorted(g for g in ms if ("org:o%d," % o) not in g)
                        if bad:
                            out["viol"].append(("C13:leak:metrics:cross-org", "step %d: metrics selector c13m for org %d returns series %s" % (k + 1, o, bad)))
                        if not any(("org:o%d," % o) in g for g in ms):
                            out["obs"].append("metrics: org %d does not see its own series at step %d" % (o, k + 1))
            prev = cur
        # ---- a second server life: everything that was searchable and is not deleted must still be searchable (by name and by *)
        restarted = False
        rotated_alive = any(is_rotate(s_["op"]) and any(ids and not any(is_del(d["op"], int(o), i) for d in steps[r + 1:])
                                                         for o, by in s_["ev"].items() for i, ids in by.items())
                            for r, s_ in enumerate(steps))
        if any(is_del(s_["op"]) for s_ in steps) and rotated_alive:      # (only rotated data is judged after a restart, see below)
            st = steps[-1]
            rp.restart()
            restarted = True
            k = len(steps)
            for o in orgs:
                viso, exo = st["vis"][str(o)], st["expand"][str(o)]
                for e in [x for x in sorted(exo) if x in NAMES or x == "*"]:
                    want = set((o, i, n) for i in exo[e] for n in viso.get(i, [])) & (prev.get((o, e)) or set())
                    got = set()
                    deadline = time.time() + 4.0
                    while True:
                        got = rp.search(o, e)[0] or set()
                        if not (want - got) or time.time() > deadline:
                            break
                        time.sleep(0.3)          # recovery of unrotated segments is asynchronous
                    allowed = set((o, i, n) for i in exo[e] for n in st["ev"][str(o)].get(i, []))
                    for t in sorted(got - allowed):
                        key = "C13:leak:search:cross-org:after-restart" if t[0] != o else "C13:delete-index:data-survives:after-restart"
                        out["viol"].append((key, "after a restart: search over %r for org %d returned marker %s; expression names %s" % (e, o, t, exo[e])))
                    for t in sorted(want - got):
                        ing = ingested_at.get(t[2], 10 ** 9)
                        dels = [s_["op"] for j, s_ in enumerate(steps) if j > ing and is_del(s_["op"]) and not is_del(s_["op"], t[0], t[1])]
                        cross = [d for d in dels if t[1] in d["names"] and d["org"] != t[0]]
                        # only ROTATED events are judged: they are listed in segmeta.json and every server life loads them; flushed but
                        # unrotated segments of organisations other than 0 are not re-adopted at start-up by this build (GetMyIds() = [0]),
                        # with or without a delete in the history - that loss is not this property's subject
                        was_rotated = any(is_rotate(s_["op"]) for s_ in steps[ing:])
                        if cross and was_rotated:
                            out["viol"].append(("C13:delete-index:cross-org:after-restart",
                                                "event e%d of (org %d, index %s) was returned for %r before the restart and is gone after it; %s had deleted "
                                                "the same-named index of another organisation" % (t[2], t[0], t[1], e, json.dumps(cross[-1]))))
                        else:
                            out["obs"].append("restart-loss: e%d of (org %d, %s) not returned after restart" % (t[2], t[0], t[1]))
        # ---- persistent metadata: a delete must leave the rotated segments of every OTHER (org, index) listed in segmeta.json.
        # If one is missing, a second server life on the same directory decides: the events were searchable before the
        # restart and must still be.  (Restart is only used when segmeta.json already shows the loss, so losses that a
        # restart causes for other reasons - C07's subject - cannot be blamed on the delete.)
        if any(is_del(s_["op"]) for s_ in steps):
            survivors = {}       # (org, idx) -> ids that were rotated and whose index was not deleted afterwards
            done = set()
            for r, s_ in enumerate(steps):
                if not is_rotate(s_["op"]):
                    continue
                for o, by in s_["ev"].items():
                    for i, ids in by.items():
                        new = set(ids) - done
                        done |= set(ids)
                        if new and not any(is_del(d["op"], int(o), i) for d in steps[r + 1:]):
                            survivors.setdefault((int(o), i), set()).update(new)
            listed = set()
            for p in glob.glob(os.path.join(rp.d, "ingestnodes", "*", "segmeta.json")):
                for line in open(p):
                    try:
                        m = json.loads(line)
                        listed.add((int(m.get("orgid", 0)), m.get("virtualTableName")))
                    except ValueError:
                        pass
            lost = sorted(k for k in survivors if k not in listed)
            if lost:
                before = {k: prev.get((k[0], k[1])) or set() for k in lost}
                if not restarted:
                    rp.restart()
                for (o, i) in lost:
                    want = set((o, i, n) for n in survivors[(o, i)]) & before[(o, i)]
                    if not want:
                        continue      # already not searchable before the restart (reported above, if it is a violation)
                    got = set()
                    deadline = time.time() + 4.0
                    while True:
                        got = rp.search(o, i)[0] or set()
                        if not (want - got) or time.time() > deadline:
                            break
                        time.sleep(0.3)
                    if want - got:
                        dels = [d["op"] for d in steps if is_del(d["op"]) and not is_del(d["op"], o, i)]
                        rel = "cross-org" if any(i in d["names"] and d["org"] != o for d in dels) else "other-index"
                        out["viol"].append(("C13:delete-index:%s:persistent-metadata" % rel,
                                            "rotated segment of (org %d, index %s) is no longer listed in segmeta.json after %s; its events %s were searchable "
                                            "before a restart and are gone after it" % (o, i, json.dumps(dels[-1] if dels else None), sorted(n for (_, _, n) in want - got))))
                    else:
                        out["obs"].append("segmeta: (org %d, %s) not listed but still searchable after restart" % (o, i))
    except vlib.DriverDead as e:
        if e.kind == "hang" or e.rc in (-15, -9, -2):
            # no answer in time, or the process was killed from outside (SIGTERM/SIGKILL/SIGINT): not the engine's doing
            raise vlib.Infra("engine did not answer in time or was killed from outside (machine load / cleanup?): %s" % e)
        out["died"] = str(e)
    finally:
        if rp is not None:
            rp.close()
    return out


def probe_variant(binary):
    rp = Replayer(binary, [0, 1])
    try:
        rp.apply({"op": "ingest", "org": 0, "idx": "a", "id": 1})
        rp.apply({"op": "ingest", "org": 1, "idx": "a", "id": 2})
        rp.apply({"op": "flush"})
        rp.apply({"op": "delete", "org": 1, "idx": "a"})
        fixdel = bool(rp.search(0, "a")[0])
        rp.apply({"op": "ingest", "org": 0, "idx": "b", "id": 3})
        rp.apply({"op": "flush"})
        rp.apply({"op": "delete", "org": 0, "idx": "b"})
        rp.apply({"op": "ingest", "org": 0, "idx": "b", "id": 4})
        rp.apply({"op": "flush"})
        fixreg = (0, "b", 4) in (rp.search(0, "*")[0] or set())
        return {"FixDelete": fixdel, "FixRegistry": fixreg}
    finally:
        rp.close()


def write_cfg(sc, name, template, flags, repl=None):
    txt = open(os.path.join(vlib.SPEC, template)).read()
    for k, v in flags.items():
        txt = re.sub(r"%s = (TRUE|FALSE)" % k, "%s = %s" % (k, "TRUE" if v else "FALSE"), txt)
    for a, b in (repl or {}).items():
        txt = txt.replace(a, b)
    p = os.path.join(sc, name)
    open(p, "w").write(txt)
    return p


def deviating(h):
    """does the transcription predict an answer that differs from the abstract layer somewhere in this history"""
    for st in h["steps"]:
        for o, ex in st["expand"].items():
            for e, idxs in ex.items():
                want = sorted(n for i in idxs for n in st["vis"][o].get(i, []))
                if sorted(st["impl"][o][e]) != want:
                    return True
    return False


def colliding(h):
    """do two (organisation, index) pairs whose naive concatenations coincide ("a"+"12" = "a1"+"2", either order) hold live
    events at the same time somewhere in the history"""
    for st in h["steps"]:
        pairs = [(o, i) for o, by in st["ev"].items() for i, ids in by.items() if ids]
        for x in range(len(pairs)):
            for y in range(x + 1, len(pairs)):
                (o1, i1), (o2, i2) = pairs[x], pairs[y]
                if i1 + o1 == i2 + o2 or o1 + i1 == o2 + i2:
                    return True
    return False


def features(h):
    ops = [s["op"]["op"] for s in h["steps"]]
    coexist = any(v.get(i) and v.get(j) for st in h["steps"] for v in st["vis"].values() for i in v for j in v if j != i and j.startswith(i))
    return ("delete" in ops, "rotate" in ops or "ingest_rotate" in ops, any(o.startswith("alias") for o in ops), coexist, colliding(h))


def run(chk):
    quick = chk.tier == "quick"
    binary = vlib.build_driver()
    flags = probe_variant(binary)
    chk.cov["code_variant"] = flags
    sc = vlib.scratch("c13cfg")
    try:
        # ---- model
        rf = vlib.run_tlc("MC_Tenancy", "MC_Tenancy_fixed.cfg" if quick else "MC_Tenancy_fixed_deep.cfg", timeout=1500, workers=WORKERS, coverage=quick)
        vlib.tlc_must_hold(rf, "Tenancy (patched transcription): NoLeak / ExactByName / Exact")
        chk.add_tlc("MC_Tenancy_fixed", rf, "NoLeak, ExactByName, Exact, TypeOK; deletion keyed by (index, org) and registry kept in step")
        if not quick:
            rf3 = vlib.run_tlc("MC_Tenancy", "MC_Tenancy_fixed_3orgs.cfg", timeout=1500, workers=WORKERS)
            vlib.tlc_must_hold(rf3, "Tenancy (patched transcription, 3 orgs)")
            chk.add_tlc("MC_Tenancy_fixed_3orgs", rf3, "same invariants, 3 organisations")
        mc = write_cfg(sc, "MC_Tenancy_cur.cfg", "MC_Tenancy.cfg", flags, None if quick else {"MaxOps = 4": "MaxOps = 5"})
        rc = vlib.run_tlc("MC_Tenancy", "MC_Tenancy_cur.cfg", timeout=1500, extra_files=[mc], workers=WORKERS)
        vlib.tlc_must_hold(rc, "Tenancy (this tree's transcription): NoDeleteExact")
        chk.add_tlc("MC_Tenancy", rc, "NoDeleteExact, TypeOK for code variant %s" % flags)
        if not all(flags.values()):
            mb = write_cfg(sc, "MC_Tenancy_cur_byname.cfg", "MC_Tenancy_byname.cfg", flags)
            rb = vlib.run_tlc("MC_Tenancy", "MC_Tenancy_cur_byname.cfg", timeout=600, extra_files=[mb], workers=WORKERS)
            if "ExactByName" not in rb.violated:
                raise vlib.Infra("model sensitivity lost: transcription %s no longer violates ExactByName" % flags)
            chk.cov["model_candidates"] = "this tree's transcription violates ExactByName (candidates; decided by replay)"
        # ---- behaviours
        g1 = write_cfg(sc, "Gen_Tenancy_small_cur.cfg", "Gen_Tenancy_small.cfg", flags)
        small, r1 = vlib.tlc_generate("Gen_Tenancy", "Gen_Tenancy_small_cur.cfg", timeout=900, extra_files=[g1])
        chk.add_tlc("Gen_Tenancy_small", r1, "all canonical histories of 4 operations, 2 orgs x {a, ab, abc} x alias al, deletes over names and a*b")
        g2 = write_cfg(sc, "Gen_Tenancy_sim_cur.cfg", "Gen_Tenancy_sim.cfg", flags)
        sim, r2 = vlib.tlc_generate("Gen_Tenancy", "Gen_Tenancy_sim_cur.cfg", timeout=900, simulate="num=%d" % (250 if quick else 1500), depth=7,
                                    seed=chk.seed, extra_files=[g2])
        chk.add_tlc("Gen_Tenancy_sim", r2, "simulated histories of 6 operations, orgs {0, 2, 12} x {a, a1, ab, abc, b} x alias al, deletes over names, a*b, *b")
        g4 = write_cfg(sc, "Gen_Tenancy_coll_cur.cfg", "Gen_Tenancy_coll.cfg", flags)
        coll, r4 = vlib.tlc_generate("Gen_Tenancy", "Gen_Tenancy_coll_cur.cfg", timeout=900, extra_files=[g4])
        chk.add_tlc("Gen_Tenancy_coll", r4, "all canonical histories of 4 operations over organisation ids and index names whose concatenations collide: "
                                            "orgs {2, 12} x {a, a1}")
        g3 = write_cfg(sc, "Gen_Tenancy_segs_cur.cfg", "Gen_Tenancy_segs.cfg", flags)
        segs, r3 = vlib.tlc_generate("Gen_Tenancy", "Gen_Tenancy_segs_cur.cfg", timeout=900, extra_files=[g3])
        chk.add_tlc("Gen_Tenancy_segs", r3, "all canonical histories of 5 operations with ingest+rotate as one step (segment-rich), 2 orgs x {ab}")
    finally:
        vlib.rmtree(sc)
    if not small or not sim or not segs or not coll:
        raise vlib.Infra("no histories generated")
    sim = vlib.dedup(sim, key=lambda h: json.dumps([s["op"] for s in h["steps"]]))
    rnd = random.Random(chk.seed)

    def risk(h):
        """what is at stake when a delete runs, maximised over the successful deletes of the history:
        - other data that a wrongly keyed / wrongly matched delete would hit: live events of the same index name in another
          organisation, of index names that extend or are extended by a deleted name, and - for a wildcard delete - of any other
          index of the organisation (rotated data counts double);
        - 3 points per additional rotated segment the deleted (organisation, index) owns (lists of several segments are where
          removal loops go wrong);
        - 1 point for a wildcard in the deleted expression;
        - 3 points + the number of searchable events of an index that loses an alias (what a stale alias entry would leak);
        - 4 points (also without any delete) when two (organisation, index) pairs whose naive concatenations coincide are live
          at the same time;
        - the continuation: 2 points per later ingest / rotation of another organisation's index of a deleted name, more when
          that index had a rotated segment before the delete, rotates again and is written to afterwards."""
        best = 4 if colliding(h) else 0        # keys built by concatenating name and organisation id would coincide
        rotated = False
        for k, st in enumerate(h["steps"]):
            op = st["op"]
            if is_rotate(op):
                rotated = True
            if op["op"] == "alias_remove":
                # an alias is taken away from an index: its searchable events are what a stale alias entry would leak
                # (one more point when the alias keeps naming another index: shared alias)
                n_ev = len(st["vis"][str(op["org"])].get(op["idx"], []))
                if n_ev:
                    shared = any(op["idx"] not in names and names for e_, names in st["expand"][str(op["org"])].items() if e_ == op["alias"])
                    best = max(best, 3 + n_ev + (1 if shared else 0))
            if is_del(op) and k > 0:
                before = h["steps"][k - 1]
                r = 1 if "*" in op["idx"] else 0
                for o, by in before["ev"].items():
                    for i, ids in by.items():
                        if not ids or is_del(op, int(o), i):
                            continue
                        related = any(i == d or i.startswith(d) or d.startswith(i) for d in op["names"])
                        if related or ("*" in op["idx"] and int(o) == op["org"]):
                            r += 2 if rotated else 1
                for i in op["names"]:
                    r += 3 * max(0, before["segs"][str(op["org"])].get(i, 0) - 1)
                # what happens AFTER the delete to the survivors of the same index name: every later ingest / rotation of
                # another organisation's index of a deleted name (5 extra points once it has rotated before the delete, rotates
                # again after it and is written to after that rotation: the life of a segment store that outlives a neighbour)
                for o, by in before["ev"].items():
                    for i in op["names"]:
                        if int(o) == op["org"] or not by.get(i):
                            continue
                        later = h["steps"][k + 1:]
                        rots = [j for j, s_ in enumerate(later) if is_rotate(s_["op"])]
                        ings = [j for j, s_ in enumerate(later) if is_ingest(s_["op"]) and s_["op"]["org"] == int(o) and s_["op"]["idx"] == i]
                        r += 2 * (len(rots) + len(ings))
                        if before["segs"][o].get(i, 0) >= 1 and rots and any(j >= rots[0] for j in ings):
                            r += 5 + 3 * sum(1 for j in ings if j > rots[0])
                best = max(best, r)
        return best

    def pick(pool, n):
        """stratified: 40% histories on which the transcription deviates from the abstract layer (none on a fully patched tree:
        their share goes to the next class), 35% histories whose deletes put most at stake (see risk), the rest spread over the
        feature classes (delete / rotate / alias / an index and an index whose name extends it both hold searchable data)"""
        rnd.shuffle(pool)
        dev = [h for h in pool if deviating(h)]
        sel = dev[:(n * 4) // 10]
        chosen = set(id(h) for h in sel)
        risky = sorted((h for h in pool if id(h) not in chosen and risk(h) > 0), key=lambda h: -risk(h))
        want_risky = (n * 35) // 100 + ((n * 4) // 10 - len(sel))
        # the riskiest third, sampled (not just the top: keep variety)
        top = risky[:max(want_risky * 3, 1)]
        rnd.shuffle(top)
        for h in top[:want_risky]:
            sel.append(h)
            chosen.add(id(h))
        by = {}
        for h in pool:
            if id(h) not in chosen:
                by.setdefault(features(h), []).append(h)
        classes = sorted(by)
        i = 0
        while len(sel) < n and any(by.values()):
            c = classes[i % len(classes)]
            if by[c]:
                sel.append(by[c].pop())
            i += 1
        return sel

    n_small, n_sim, n_segs, n_coll = (50, 40, 45, 25) if quick else (700, 600, 450, 250)
    sel = pick(small, n_small) + pick(sim, n_sim) + pick(segs, n_segs) + pick(coll, n_coll)
    retried = []

    def history_with_retry(h):
        # a hang / missing answer under machine load is infrastructure: the history is replayed once more on a fresh engine
        try:
            return replay_history(binary, h)
        except vlib.Infra as e:
            if "hang" not in str(e) and "did not answer" not in str(e):
                raise
            retried.append(str(e)[:200])
            return replay_history(binary, h)

    results = vlib.pmap(history_with_retry, sel, workers=WORKERS)
    chk.cov["histories_retried_after_hang"] = len(retried)

    found = {}
    drift, traces, observations = [], 0, {}
    for h, r in zip(sel, results):
        ops = [s["op"] for s in h["steps"]]
        chk.replayed(1)
        f = features(h)
        chk.count(json.dumps(ops), nontrivial=f[0] or f[2])
        if r["died"]:
            r["viol"].append(("C13:engine-died", "engine process died: %s" % r["died"]))
        seen = set()
        for key, text in r["viol"]:
            if key in seen:
                continue
            seen.add(key)
            size = (len(ops), len(json.dumps(ops)))
            if key not in found or size < found[key]["size"]:
                found[key] = {"size": size, "text": text, "rp": {"history": h, "ops": ops}, "n": found.get(key, {}).get("n", 0) + 1}
            else:
                found[key]["n"] += 1
        for o in r["obs"]:
            k = o.split(":")[0] + ":" + o.split(":")[1] if o.startswith("incomplete") else o.split(":")[0]
            observations[k] = observations.get(k, 0) + 1
        if r["drift"] and not r["viol"]:
            drift.append({"ops": ops, "what": r["drift"][:3]})
        if r["trace"]:
            traces += 1
            chk.cov.setdefault("transcription_difference_sample", {"ops": ops, "what": r["trace"][:3]})
        if len(chk.cov["samples"]) < 3 and f[0] and len(ops) >= 4:
            chk.sample({"ops": ops, "violations": [v[0] for v in r["viol"]][:4], "observations": r["obs"][:3]})
    for key in sorted(found):
        f = found[key]
        chk.violation(key, "%s  [%d histories with this signature; shortest shown: %s]" % (f["text"], f["n"], json.dumps(f["rp"]["ops"])), f["rp"])
    chk.cov["observations"] = observations
    chk.cov["histories_where_real_differs_from_transcription"] = traces
    if drift and not found:
        raise vlib.Infra("SPEC-DRIFT: the engine under-delivers where neither the statement nor spec/Tenancy.tla's transcription "
                         "says so (no violation observed), e.g. %s" % json.dumps(drift[0]))
    chk.assumptions += [
        "per-organisation alias directories exist (created by the harness)",
        "an alias / index-delete request that the handler acknowledges has taken effect when the handler returns",
        "event ids are unique; an answer is identified by the (org, idx, eid) marker fields of the returned records",
    ]
    chk.describe(rule="histories = TLC-generated sequences of ingest/flush/rotate/alias add/alias remove/delete index; after each operation "
                      "7 index expressions x every organisation are searched (plus stats/columns/indices/metrics after deletes, rotations "
                      "and at the end). distinct_nontrivial = distinct histories containing a delete or an alias operation",
                 exhaustive=False)


def replay(chk, path):
    d = json.load(open(path))
    h = d["replay"]["history"]
    binary = vlib.build_driver()
    r = replay_history(binary, h)
    print("key:", d["key"])
    print("history:", json.dumps(d["replay"]["ops"]))
    hit = [v for v in r["viol"] if v[0] == d["key"]]
    for v in (hit or r["viol"])[:5]:
        print("  ", v[0], "::", v[1])
    print("REPRODUCED" if hit else "NOT REPRODUCED")
    return 1 if hit else 0
