"""C17 (G): parser half.  TLC enumerates every token sequence of spec/Grammar.tla (three languages) up to a small
length (plus -simulate samples of longer SPL sequences in the thorough tier); each text is parsed twice by the real
parser (same text => same plan, no hang) and every text that parses is executed over a small stored data set
(answer or error in bounded time, process alive).  The clause grammar (GrammarClauses) gives single clauses
with column lists, every ordered pair of clauses over single columns (quick, all executed) and pairs with column lists
(thorough).  Two further product grammars are executed completely:
GrammarEval (positional eval functions x boundary arguments) and GrammarProm (PromQL range function x selector form incl.
subquery step classes x shape of the request's time range x outer aggregation); a hang is a verdict only when the same
request hangs again on a fresh process over the same stored data."""
import json
import re
import os

import vlib

# order = token index in spec/Grammar.tla (1-based)
TOKENS = {
    "spl": ["*", "x=1", "x>2", 'y="a b"', "z=ab*", "foo", '"foo bar"', "AND", "OR", "NOT", "(", ")", "|", "stats", "count",
            "sum(x)", "by", "y", "head", "3", "sort", "-x", "eval", "w=x*2", "where", "dedup", "fields", "rex", "field=y",
            '"(?<a>\\\\w+)"', "timechart", "span=1h", "top", "rename", "as", "fillnull", "bin", "x", ",", "avg(x)"],
    "sql": ["SELECT", "*", "x", ",", "y", "FROM", "a", "WHERE", "x=1", "AND", "GROUP BY", "ORDER BY", "LIMIT", "3",
            "COUNT(*)", "AS", "c", "(", ")", "'s'"],
    "promql": ["cpu", "{", "}", 'a="b"', 'a=~"b.*"', ",", "sum", "(", ")", "by", "rate", "[5m]", "+", "1", "avg", "/",
               "without", "(a)"],
}
LANGNAME = {"spl": "Splunk QL", "sql": "SQL"}


def run(chk, binary):
    quick = chk.tier == "quick"
    texts = []
    for lang in ("spl", "sql", "promql"):
        cfg = "Gen_Grammar_%s%s.cfg" % (lang, "" if quick else "_deep")
        beh, r = vlib.tlc_generate("Grammar", cfg, timeout=900)
        chk.add_tlc("Grammar[%s]" % cfg, r, "all token sequences")
        if len(TOKENS[lang]) < max(max(b["toks"]) for b in beh):
            raise vlib.Infra("token table of %s shorter than NTok" % lang)
        texts += [{"lang": lang, "text": " ".join(TOKENS[lang][t - 1] for t in b["toks"])} for b in beh]
    # clause grammar: well-formed pipelines whose commands take column lists with repetition / permutation
    beh, r = vlib.tlc_generate("GrammarClauses", "Gen_GrammarClauses.cfg" if quick else "Gen_GrammarClauses_deep.cfg", timeout=900)
    chk.add_tlc("GrammarClauses", r, "search | clause [| clause] with column lists")
    if quick:
        # every ORDERED PAIR of clauses over single columns (a clause reading a column the previous one removed, a limit
        # behind an aggregation, ...); the thorough config has the pairs with column lists
        beh2, r2 = vlib.tlc_generate("GrammarClauses", "Gen_GrammarClauses_pairs.cfg", timeout=900)
        chk.add_tlc("GrammarClauses[pairs]", r2, "search | clause | clause over single columns")
        for b in beh2:
            b["pair"] = True
        beh = beh + beh2
    for b in beh:
        parts = [b["search"]]
        for c in b["clauses"]:
            if c["by"]:
                parts.append("%s by %s" % (c["cmd"], ", ".join(c["by"])))
            else:
                parts.append("%s %s" % (c["cmd"], ", ".join(c["cols"])))
        t = {"lang": "spl", "text": " | ".join(parts)}
        if b.get("pair"):
            t["req"] = True        # executed completely, not sampled
        texts.append(t)
    # eval grammar: positional functions x argument values around the boundaries of the stored values
    beh, r = vlib.tlc_generate("GrammarEval", "Gen_GrammarEval.cfg", timeout=600)
    chk.add_tlc("GrammarEval", r, "eval r=<positional fn>(column, a [, b]) over 7 integer classes")
    INTS = [-7, -3, -1, 0, 1, 2, 9]        # stored values: x in 0..4, y = "a b" (2 words), z = "abc" (3 characters)
    for b in beh:
        a, bb, col = INTS[b["a"] - 1], (INTS[b["b"] - 1] if b["b"] else None), b["col"]
        two = lambda pre: "%s%d%s)" % (pre, a, "" if bb is None else ", %d" % bb)
        fn = b["fn"]
        if fn == "mvindex_split":
            e = two('mvindex(split(%s, " "), ' % col)
        elif fn == "mvindex":
            e = two("mvindex(%s, " % col)
        elif fn == "substr":
            e = two("substr(%s, " % col)
        elif fn == "round":
            e = "round(%s, %d)" % (col, a)
        elif fn == "mvrange":
            e = "mvrange(%d, %d, %d)" % (a, bb if bb is not None else 3, 1 if a % 2 else 2)
        elif fn == "mvjoin_split":
            e = 'mvjoin(mvindex(split(%s, " "), %d%s), "-")' % (col, a, "" if bb is None else ", %d" % bb)
        elif fn == "replace_idx":
            e = 'substr(replace(%s, "a", "bb"), %d%s)' % (col, a, "" if bb is None else ", %d" % bb)
        elif fn == "tonumber_base":
            e = "tonumber(%s, %d)" % (col, abs(a) + (bb or 0) % 3)
        elif fn == "pow":
            e = "pow(%s, %d)" % (col, a)
        else:
            e = "substr(ltrim(%s), %d%s)" % (col, a, "" if bb is None else ", %d" % bb)
        texts.append({"lang": "spl", "text": "* | eval r=%s" % e})
    # PromQL request grammar: range function x selector form (incl. subquery step classes) x request range shape x outer aggregation
    beh, r = vlib.tlc_generate("GrammarProm", "Gen_GrammarProm.cfg", timeout=600)
    chk.add_tlc("GrammarProm", r, "range function x selector form x request range class x outer aggregation")
    RANGES = {"instant": (1700000300, 1700000300), "second": (1700000300, 1700000301), "hour": (1699999000, 1700002600),
              "day": (1699950000, 1700036400)}
    for b in beh:
        inner = "cpu%s" % b["sel"]
        call = "quantile_over_time(0.5, %s)" % inner if b["fn"] == "quantile_over_time" else "%s(%s)" % (b["fn"], inner)
        text = call if not b["outer"] else "%s (%s)" % (b["outer"], call)
        st, en = RANGES[b["range"]]
        texts.append({"lang": "promql", "text": text, "start": st, "end": en, "req": True})
    if not quick:
        beh, r = vlib.tlc_generate("Grammar", "Gen_Grammar_spl_sim.cfg", simulate="num=2000", depth=6, seed=chk.seed, timeout=600)
        chk.add_tlc("Grammar[spl_sim]", r, "sampled longer SPL sequences")
        texts += [{"lang": "spl", "text": " ".join(TOKENS["spl"][t - 1] for t in b["toks"])} for b in vlib.dedup(beh)]
    texts = vlib.dedup(texts)
    sc = vlib.scratch("c17g")
    d = vlib.scratch("c17gd")
    dr = None
    try:
        # split into shards parsed in parallel driver processes
        nshard = 8
        shards = [texts[i::nshard] for i in range(nshard)]

        def parse(i):
            p = os.path.join(sc, "t%d.ndjson" % i)
            with open(p, "w") as f:
                for t in shards[i]:
                    f.write(json.dumps(t) + "\n")
            drp = vlib.Driver(binary)
            try:
                return drp.ok("parse_replay", file=p, timeout=1500)
            finally:
                drp.quit()
        try:
            results = vlib.pmap(parse, range(nshard), workers=nshard)
        except vlib.DriverDead as e:
            if e.kind == "hang":
                raise vlib.Infra("parse replay did not finish: %s" % e)
            chk.violation("C17:parse:process-died", "process died while parsing enumerated query texts: %s" % e, {"n": len(texts)})
            return
        valid = []
        tot = {"n": 0, "parsed": 0, "errors": 0, "panics": 0}
        for res in results:
            for k in tot:
                tot[k] += res[k]
            valid += res["valid"]
            for m in res["mismatches"]:
                chk.violation("C17:parse:nondeterministic-plan:" + m["lang"], "same text, different plan: %r: %s" % (m["text"], m["why"][:400]), m)
            for h in res["hangs"]:
                chk.violation("C17:parse:hang:" + h["lang"], "parser did not return within 10 s on %r" % h["text"], h)
        chk.cov["grammar"] = dict(tot, recovered_parse_panics_sample=[p for res in results for p in res["panic_samples"]][:5])
        chk.count(n=tot["n"])
        for i in range(tot["parsed"]):
            chk.count(("parsed", i), nontrivial=True, n=0)
        chk.replayed(tot["n"])
        # execute the ones that parse (SPL and SQL over logs; PromQL over metrics)
        dr = vlib.Driver(binary)
        dr.ok("init", dir=d)
        dr.ok("bulk", body="".join('{"index":{"_index":"a"}}\n{"id":%d,"x":%d,"y":"%s","z":"%s","w":1,"timestamp":%d}\n' % (
            i, i % 5, ["a b", "a", "a b c", ""][i % 4], ["abc", "", "a", "abcdefgh"][i % 4], 1700000000000 + i * 1000) for i in range(40)))
        dr.ok("flush")
        def put_metrics(drv):
            # the open metrics block lives in memory: a fresh process needs the datapoints again to be "the same stored data"
            drv.ok("otsdb", body=json.dumps([{"metric": "cpu", "tags": {"a": "b"}, "timestamp": 1700000000 + i * 60, "value": i} for i in range(10)]))
        put_metrics(dr)
        # the eval-grammar texts are all executed (their point is the execution); the rest is sampled in the quick tier
        ev = [v for v in valid if " | eval r=" in v["text"] or v.get("req")]
        rest = [v for v in valid if not (" | eval r=" in v["text"] or v.get("req"))]
        todo = valid if not quick else vlib.sample(rest, 400, chk.seed) + ev
        nexec = 0
        hung = {}        # violation key -> count: a text class that hangs is not executed over and over (40 s x 3 per text)
        for q in todo:
            hkey = "C17:exec:hang:" + q["lang"] + (":" + q["text"].split("[")[1].split("]")[0] if q.get("req") and "[" in q["text"] else "")
            if hung.get(hkey, 0) >= (1 if q.get("req") else 4):
                chk.cov["grammar"]["skipped_after_reproduced_hang"] = chk.cov["grammar"].get("skipped_after_reproduced_hang", 0) + 1
                continue
            try:
                if q["lang"] == "promql":
                    r = dr.cmd("mquery", promql=q["text"], start=q.get("start", 1699999000), end=q.get("end", 1700003600), step=60, timeout=40)
                else:
                    r = dr.cmd("query", text=q["text"], index="a", lang=LANGNAME[q["lang"]], start=1, end=1800000000000, timeout_ms=20000,
                               timeout=40)
            except vlib.DriverDead as e:
                died = e
                dr = vlib.Driver(binary)
                dr.ok("init", dir=d, wait_ms=300)
                put_metrics(dr)
                if died.kind == "hang":
                    # a verdict needs a reproduction: the same text on the fresh process (a one-off stall of a process that
                    # has answered tens of thousands of queries under machine load is not a property of the query)
                    again = 0
                    for _ in range(2):
                        try:
                            if q["lang"] == "promql":
                                r2 = dr.cmd("mquery", promql=q["text"], start=q.get("start", 1699999000), end=q.get("end", 1700003600), step=60, timeout=40)
                            else:
                                r2 = dr.cmd("query", text=q["text"], index="a", lang=LANGNAME[q["lang"]], start=1, end=1800000000000,
                                            timeout_ms=20000, timeout=40)
                            if isinstance(r2.get("res"), dict) and r2["res"].get("hang"):
                                again += 1
                        except vlib.DriverDead:
                            again += 1
                            dr = vlib.Driver(binary)
                            dr.ok("init", dir=d, wait_ms=300)
                            put_metrics(dr)
                    if again:
                        hung[hkey] = hung.get(hkey, 0) + 1
                        chk.violation(hkey,
                                      "no answer within 40 s for %r%s (reproduced %d of 2 times on a fresh process)" % (
                                          q["text"], " over [%s,%s]" % (q["start"], q["end"]) if q.get("req") else "", again), q)
                    else:
                        chk.cov["grammar"].setdefault("stalls_not_reproduced", []).append(q["text"])
                else:
                    chk.violation("C17:exec:process-died:" + q["lang"], "process died executing %r: %s" % (q["text"], died), q)
                continue
            nexec += 1
            res = r.get("res") or {}
            if isinstance(res, dict) and str(res.get("qerr", "")).startswith("PANIC"):
                # the harness recovered a panic of the query's own goroutine; the server has no such recover: the process dies
                site = ""
                m = re.search(r"PANIC in query: (.{0,120})", res["qerr"])
                if m:
                    site = re.sub(r"[0-9]+", "N", m.group(1))[:80]
                chk.violation("C17:exec:panic:%s:%s" % (q["lang"], site), "query %r panicked in the query goroutine (the server process would die): %s" % (q["text"], res["qerr"][:400]), q)
            if isinstance(res, dict) and res.get("hang"):
                chk.violation("C17:exec:hang:" + q["lang"], "query %r neither answered nor failed within 20 s" % q["text"], q)
        chk.cov["grammar"]["executed"] = nexec
        chk.sample({"kind": "grammar", "texts": [t["text"] for t in texts[:3]] + [v["text"] for v in valid[:5]]})
    finally:
        if dr is not None:
            dr.quit()
        vlib.rmtree(sc)
        vlib.rmtree(d)
