"""C08 - metric datapoints are stored and returned bit-exactly per series.

Model: spec/Gorilla.tla (encoder/decoder case analysis), checked exhaustively by TLC
  (BitExact, InSync, Geometry) and used as the behaviour generator.
Binding:
  (fn)  every TLC-generated class sequence is concretised against the real encoder state
        and run through the real compress.Compressor / DecompressIterator (round trip after
        every step + predicted stream length).
  (e2e) class sequences are ingested through the OpenTSDB handler into the real engine and
        read back with a selector query: open block, after block/segment rotation, after
        restart; several series with colliding tag concatenations must stay separate.  Besides the selector of each
        series, the metric name alone is queried over the whole range and over prefix / suffix windows that leave some
        of its series without any datapoint in range: the others must still come back complete and bit-exact.
  (life) spec/MetricsLifecycle.tla (put / block flush / segment rotation / restart in any order; NothingMoves checked
        exhaustively, LoseOpenOnRestart must violate) generates random-walk histories whose "check" steps carry the answers
        the specification requires for every selector x prefix / suffix / full window; each history is performed on the real
        engine (restart = shutdown rotation + new process, puts continue afterwards) and every answer compared bit-exactly.
        This replay found that a series first put after a segment rotation stayed invisible until the next tags tree flush.
"""
import json
import math
import os
import random
import struct
import time

import vlib

LEVEL = "model_checking"
CLAIMED = True   # set by the lead after review; only claimed checks enter MANIFEST.json

MANIFEST = dict(
    category="model_checking",
    technique="TLA+ specs of the Gorilla codec case analysis and of the metrics store lifecycle (TLC exhaustive) + replay of every TLC-enumerated class sequence on the real codec and of TLC-generated lifecycle histories (put / block flush / segment rotation / restart / windowed selector queries with spec-computed answers) on the real engine",
    text=("spec/Gorilla.tla transcribes the encoder/decoder case analysis (delta-of-delta classes, XOR window reuse/new window, "
          "field widths); TLC checks BitExact/InSync/Geometry over all class sequences up to MaxLen. Every enumerated sequence "
          "is concretised against the real encoder state and run through the real compress package (round trip after each step "
          "+ spec-predicted stream length), and a seeded sample goes end to end: OpenTSDB ingest, selector query while open, "
          "after block flush, size-driven segment rotation, shutdown rotation and restart, with colliding tag sets. "
          "spec/MetricsLifecycle.tla models where an accepted datapoint lives (open block, flushed blocks, rotated segments) "
          "under put / block flush / segment rotation / restart and what every selector x time window must return; TLC checks "
          "NothingMoves exhaustively and generates random-walk histories whose check steps carry the required answers, which are "
          "compared bit-exactly on the real engine (series sharing a metric name with colliding tag concatenations, puts "
          "continuing after rotation and restart, windows that leave series empty)."),
    note=("Classes are (dod class, leading/trailing zero geometry); middle bits random per VERIF_SEED, not all 2^64 values. "
          "32-bit dod arithmetic modelled with unbounded integers. e2e uses finite values (JSON cannot carry NaN/Inf); several "
          "datapoints in the same second are not compared. Prometheus remote-write / OTLP metric ingest paths are covered by C16."),
    design_ref="DESIGN.md 4/C08",
)


T0 = 1_700_000_000


def f2hex(f):
    return "%016x" % struct.unpack(">Q", struct.pack(">d", f))[0]


def hex2f(h):
    return struct.unpack(">d", struct.pack(">Q", int(h, 16)))[0]


def xor_for(rnd, lead, trail):
    hi, lo = 63 - lead, trail
    x = (1 << hi) | (1 << lo)
    if hi > lo + 1:
        mask = ((1 << hi) - 1) & ~((1 << (lo + 1)) - 1)
        x |= rnd.getrandbits(64) & mask
    return x


def finite(bits):
    return ((bits >> 52) & 0x7ff) != 0x7ff


def concretise(beh, rnd):
    """class sequence -> [(ts, bits)] with finite float values (JSON ingest cannot carry NaN/Inf).
    Returns None if no finite concretisation was found."""
    for _ in range(20):
        prev = rnd.choice([0x3ff0000000000000, 0x8000000000000000, 0x40c81cd6c8b43958, 0, 0x4059000000000000,
                           rnd.getrandbits(64) & 0x7fefffffffffffff])
        t, delta = T0 + rnd.randrange(0, 1000) * 7, 0
        pts = [(t, prev)]
        ok = True
        for st in beh["steps"]:
            delta += st["dod"]
            t += delta
            if not st["x"]["z"]:
                prev ^= xor_for(rnd, st["x"]["lead"], st["x"]["trail"])
            if not finite(prev) or t <= 0 or t >= 2 ** 32:
                ok = False
                break
            pts.append((t, prev))
        if ok:
            return pts
    return None


# tag sets whose naive concatenations collide: a+bc vs ab+c, key/value swapped, prefix names
TAGSETS = [
    ("cpu", {"a": "bc"}), ("cpu", {"ab": "c"}), ("cpu", {"bc": "a"}), ("cpu", {"a": "b", "c": "d"}),
    ("cpu", {"a": "b", "c": "dd"}), ("cpua", {"a": "bc"}), ("cp", {"ua": "bc"}), ("cpu", {"a": "b,c=d"}),
]


def gid_of(s):
    return s["name"] + "{" + "".join("%s:%s," % (k, v) for k, v in sorted(s["tags"].items()))


def e2e_case(binary, case):
    """One e2e scenario: several series, values from class sequences; queried while open, after an in-process
    block flush / size-driven segment rotation, after the shutdown rotation and after restart."""
    idx, seed, series = case["idx"], case["seed"], case["series"]
    d = vlib.scratch("c08e2e")
    fails = []
    dr = None
    try:
        dr = vlib.Driver(binary)
        dr.ok("init", dir=d)
        rows = [(si, t, bits) for si, s in enumerate(series) for (t, bits) in s["pts"]]
        rnd = random.Random(seed)
        queues = [[r for r in rows if r[0] == si] for si in range(len(series))]
        order = []
        while any(queues):
            q = rnd.choice([q for q in queues if q])
            order.append(q.pop(0))
        half = len(order) // 2 if case["mid"] != "none" else len(order)
        lo = min(r[1] for r in rows) - 10
        hi = max(r[1] for r in rows) + 10
        acc = {}

        def put(rs):
            if not rs:
                return
            body = json.dumps([{"metric": series[si]["name"], "tags": series[si]["tags"], "timestamp": t,
                                "value": hex2f("%016x" % bits)} for (si, t, bits) in rs])
            r = dr.ok("otsdb", body=body)
            if r["failed"] != 0 or r["ok"] != len(rs):
                fails.append(("ingest-rejected", "otsdb put accepted %s of %d" % (r, len(rs))))
            for (si, t, bits) in rs:
                acc.setdefault(si, {}).setdefault(t, []).append(bits)

        def check(stage, collect=None):
            bad = []
            for si, s in enumerate(series):
                want = acc.get(si, {})
                sel = s["name"] + "{" + ",".join('%s="%s"' % (k, v) for k, v in sorted(s["tags"].items())) + "}"
                r = dr.ok("mquery", promql=sel, start=lo, end=hi, step=1)
                if "qerr" in r:
                    bad.append(("query-error", "%s: %s: %s" % (stage, sel, r["qerr"])))
                    continue
                got = r.get("series", {})
                if len(got) != (1 if want else 0):
                    bad.append(("series-merged-or-missing", "%s: selector %s returned %d series: %s" % (
                        stage, sel, len(got), sorted(got))))
                    continue
                for gid, pts in got.items():
                    if gid != gid_of(s):
                        bad.append(("tags-differ", "%s: selector %s reports series %r, ingested %r" % (stage, sel, gid, gid_of(s))))
                    gotmap = {p[0]: p[1] for p in pts}
                    for t, blist in want.items():
                        if len(blist) != 1:
                            continue  # several datapoints in one second: aggregation semantics, not claimed here
                        w = "%016x" % blist[0]
                        g = gotmap.get(t)
                        if g is None:
                            bad.append(("datapoint-missing", "%s: %s ts=%d missing" % (stage, sel, t)))
                        elif g != w:
                            bad.append(("value-bits", "%s: %s ts=%d got %s want %s" % (stage, sel, t, g, w)))
                    extra = set(gotmap) - set(want)
                    if extra:
                        bad.append(("datapoint-invented", "%s: %s extra ts %s" % (stage, sel, sorted(extra)[:5])))
                # sub-range queries: a window ending between two datapoints must return exactly the datapoints inside it,
                # whatever the order in which they arrived
                tss = sorted(want)
                for cut in tss[:-1]:
                    end = cut + 1
                    if end in want or len(tss) < 2:
                        continue
                    rw = dr.ok("mquery", promql=sel, start=lo, end=end, step=1)
                    gw = set(p[0] for pts in rw.get("series", {}).values() for p in pts)
                    ww = set(t for t in want if t <= end)
                    if "qerr" not in rw and gw != ww:
                        bad.append(("window", "%s: %s window [%d,%d] returned ts %s, expected %s" % (
                            stage, sel, lo, end, sorted(gw)[:6], sorted(ww)[:6])))
                        break
            # by metric name only: exactly the ingested series of that name, each with exactly its tags
            for name in sorted(set(s["name"] for s in series)):
                exp = sorted(gid_of(s) for si, s in enumerate(series) if s["name"] == name and acc.get(si))
                r = dr.ok("mquery", promql=name, start=lo, end=hi, step=1)
                got = sorted(r.get("series", {}))
                if "qerr" not in r and got != exp:
                    bad.append(("series-set", "%s: metric %s returned series %s, ingested %s" % (stage, name, got, exp)))
                # windows over ALL series of the name: a window may leave some series without any datapoint in range
                # (a target that stopped reporting) - the others must still come back complete and bit-exact
                members = [(si, s) for si, s in enumerate(series) if s["name"] == name and acc.get(si)]
                allts = sorted(set(t for si, _ in members for t in acc[si]))
                cuts = sorted(set(allts[(len(allts) * q) // 6] for q in range(1, 6))) if len(allts) >= 3 else []
                for cut in cuts:
                    for (ws, we) in ((cut, hi), (lo, cut)):
                        expw = {}
                        for si, s in members:
                            inw = {t: b for t, b in acc[si].items() if ws <= t <= we and len(b) == 1}
                            amb = any(ws <= t <= we and len(b) != 1 for t, b in acc[si].items())
                            if inw or amb:
                                expw[gid_of(s)] = (inw, amb)
                        for rep in range(2):     # the engine walks the matched series in map order: ask twice
                            rw = dr.ok("mquery", promql=name, start=ws, end=we, step=1)
                            if "qerr" in rw:
                                bad.append(("query-error", "%s: %s window [%d,%d]: %s" % (stage, name, ws, we, rw["qerr"])))
                                break
                            gotw = rw.get("series", {})
                            miss = [g for g, (inw, amb) in expw.items() if inw and g not in gotw]
                            strange = [g for g in gotw if g not in expw]
                            if miss or strange:
                                bad.append(("window-series-set", "%s: metric %s window [%d,%d]: series missing %s, unexpected %s" % (
                                    stage, name, ws, we, miss[:3], strange[:3])))
                                break
                            wrong = None
                            for g, pts in gotw.items():
                                inw, amb = expw[g]
                                gm = {p[0]: p[1] for p in pts}
                                for t, b in inw.items():
                                    if gm.get(t) != "%016x" % b[0]:
                                        wrong = (g, t, gm.get(t), "%016x" % b[0])
                                if not amb and set(gm) - set(inw):
                                    wrong = (g, sorted(set(gm) - set(inw))[0], "present", "not ingested / outside the window")
                            if wrong:
                                bad.append(("window-datapoints", "%s: metric %s window [%d,%d]: series %s ts=%s got %s want %s" % (
                                    (stage, name, ws, we) + wrong)))
                                break
                        else:
                            continue
                        break
            if collect is not None:
                collect.extend(bad)
            else:
                fails.extend(bad)
            return bad

        put(order[:half])
        check("open")
        if case["mid"] == "blockflush":
            dr.ok("mblockflush")
            check("block-flushed")
        elif case["mid"] == "segrotate":
            dr.ok("msizerotate", block_bytes=1, seg_bytes=1)
            # the rotated segment becomes visible to queries through the 5 s metadata refresh loop
            t_end = time.time() + 12
            while True:
                tmp = []
                if not check("segment-rotated", collect=tmp) or time.time() > t_end:
                    fails.extend(tmp)
                    break
                time.sleep(0.5)
        put(order[half:])
        check("second-half")
        dr.ok("mrotate")  # what shutdown does; only legal once per process life
        check("shutdown-rotated")
        dr.quit()
        dr = vlib.Driver(binary)
        dr.ok("init", dir=d, wait_ms=400)
        check("restarted")
    except vlib.DriverDead as e:
        if e.kind == "hang":
            raise vlib.Infra("engine did not answer in time (machine load?): %s" % e)
        fails.append(("driver-died", str(e)))
    finally:
        if dr is not None:
            dr.quit()
        vlib.rmtree(d)
    return fails


LIFE_SERIES = {"s1": ("cpu", {"a": "bc"}), "s2": ("cpu", {"ab": "c"}), "s3": ("cpu", {"bc": "a"}), "s4": ("mem", {"a": "bc"})}     # "cpu" and "mem" live in the same shard (one tags tree holder)
LIFE_GROUPS = [["s1", "s2", "s3"], ["s4"]]


def lifecycle_case(binary, case):
    """One TLC-generated history of spec/MetricsLifecycle.tla on the real engine.  Every "check" step of the history carries
    the answers the specification requires (selector x window -> set of (series, time)); they are compared bit-exactly."""
    beh, seed = case["beh"], case["seed"]
    rnd = random.Random(seed)
    step = rnd.choice([10, 10, 60, 7])
    const = {m: rnd.choice([None, 0x3ff0000000000000, 0x4059000000000000, 0]) for m in LIFE_SERIES}

    def ts_of(m, t):
        return T0 + t * step + ((seed * 31 + ord(m[1]) * 7 + t * 13) % 3 if step > 7 else 0)
    vals = {}

    def bits_of(m, t):
        if (m, t) not in vals:
            b = const[m]
            while b is None or not finite(b):
                b = rnd.getrandbits(64)
            vals[(m, t)] = b
        return vals[(m, t)]
    d = vlib.scratch("c08life")
    fails = []
    dr = None
    rotated_at = None
    try:
        dr = vlib.Driver(binary)
        dr.ok("init", dir=d)
        for k, st in enumerate(beh["steps"]):
            op = st["op"]
            if op == "put":
                name, tags = LIFE_SERIES[st["s"]]
                r = dr.ok("otsdb", body=json.dumps([{"metric": name, "tags": tags, "timestamp": ts_of(st["s"], st["t"]),
                                                     "value": hex2f("%016x" % bits_of(st["s"], st["t"]))}]))
                if r["failed"] != 0 or r["ok"] != 1:
                    fails.append(("ingest-rejected", "step %d: otsdb put of %s t=%d answered %s" % (k, st["s"], st["t"], r)))
            elif op == "blockflush":
                dr.ok("mblockflush")
            elif op == "segrotate":
                dr.ok("msizerotate", block_bytes=1, seg_bytes=1)
                # the query side lists the rotated segment at its next metadata refresh (every 5 s; the window in between
                # is C11's subject): continue after it, so that the following puts and checks see the state users live in
                # for the rest of the day - rotated and open segments side by side under one tags tree holder
                time.sleep(6)
                rotated_at = time.time()
            elif op == "tagsflush":
                dr.ok("mtagsflush")      # one iteration of the tags tree flush timer
            elif op == "restart":
                dr.ok("mrotate")
                dr.quit()
                dr = vlib.Driver(binary)
                dr.ok("init", dir=d, wait_ms=400)
                rotated_at = None
            elif op == "check":
                def once():
                    bad = []
                    for ans in st["answers"]:
                        sel = sorted(ans["sel"])
                        forms = []
                        if len(sel) == 1:
                            name, tags = LIFE_SERIES[sel[0]]
                            forms.append(name + "{" + ",".join('%s="%s"' % kv for kv in sorted(tags.items())) + "}")
                        if sel in LIFE_GROUPS:
                            forms.append(LIFE_SERIES[sel[0]][0])
                            # the same group selected by a regular expression on the metric name (the engine reports such
                            # series under the name "*")
                            forms.append('{__name__=~"%s[%s]"}' % (LIFE_SERIES[sel[0]][0][:-1], LIFE_SERIES[sel[0]][0][-1]))
                        ws, we = T0 + ans["a"] * step, T0 + ans["b"] * step + step - 1
                        exp = {}
                        for m, t in ans["expect"]:
                            name, tags = LIFE_SERIES[m]
                            exp.setdefault(gid_of({"name": name, "tags": tags}), {})[ts_of(m, t)] = "%016x" % bits_of(m, t)
                        for text in forms:
                            if text.startswith("{__name__"):
                                exp_ = {"*" + g[g.index("{"):]: v for g, v in exp.items()}
                            else:
                                exp_ = exp
                            r = dr.ok("mquery", promql=text, start=ws, end=we, step=1)
                            if "qerr" in r:
                                bad.append(("query-error", "step %d: %s over [%d,%d]: %s" % (k, text, ws, we, r["qerr"])))
                                continue
                            got = {g: {p[0]: p[1] for p in pts} for g, pts in r.get("series", {}).items()}
                            if got != exp_:
                                miss = sorted(g for g in exp_ if g not in got)
                                extra = sorted(g for g in got if g not in exp_)
                                diff = [(g, sorted(set(exp_[g].items()) ^ set(got[g].items()))[:3]) for g in exp_ if g in got and exp_[g] != got[g]]
                                kind = "series-missing" if miss else "series-unexpected" if extra else "datapoints"
                                bad.append((kind, "step %d (%s): %s over window [%d,%d] (model window [%d,%d]): series missing %s, unexpected %s, differing %s" % (
                                    k, " ".join(x["op"] for x in beh["steps"][:k]), text, ws, we, ans["a"], ans["b"], miss[:3], extra[:3], diff[:2])))
                                if len(bad) >= 3:
                                    return bad
                    return bad
                bad = once()
                # a rotated segment becomes visible to queries through the 5 s metadata refresh loop (a step of its own in
                # MetricsVisibility.tla): wait for it, a verdict is what remains afterwards
                while bad and rotated_at is not None and time.time() < rotated_at + 12:
                    time.sleep(0.5)
                    bad = once()
                seen = set()
                for kind, what in bad:
                    if kind not in seen:
                        seen.add(kind)
                        fails.append((kind, what))
                if fails:
                    break
    except vlib.DriverDead as e:
        if e.kind == "hang":
            raise vlib.Infra("engine did not answer in time (machine load?): %s" % e)
        fails.append(("driver-died", str(e)))
    finally:
        if dr is not None:
            dr.quit()
        vlib.rmtree(d)
    return fails


def identity_case(binary, series, seed):
    """All series of the SeriesIdentity model in ONE engine: each gets its own value at the same timestamp; by-name queries must
    return exactly as many series as were ingested, each with its own value; also after block flush and restart."""
    d = vlib.scratch("c08id")
    fails = []
    dr = None
    try:
        dr = vlib.Driver(binary)
        dr.ok("init", dir=d)
        rnd = random.Random(seed)
        order = list(range(len(series)))
        rnd.shuffle(order)
        t = T0 + 5
        body = json.dumps([{"metric": series[i]["name"], "tags": {x["k"]: x["v"] for x in series[i]["tags"]}, "timestamp": t,
                            "value": float(i) + 0.5} for i in order])
        r = dr.ok("otsdb", body=body)
        accepted = r["ok"]
        if r["failed"]:
            # the ingest API may refuse a tag set (e.g. empty values); refused series are simply not expected back
            fails.append(("info", "ingest refused %d of %d series" % (r["failed"], len(series))))

        def check(stage):
            for name in sorted(set(s["name"] for s in series)):
                mine = [i for i, s in enumerate(series) if s["name"] == name]
                q = dr.ok("mquery", promql=name, start=t - 10, end=t + 10, step=1)
                got = q.get("series", {})
                vals = sorted(p[2] for pts in got.values() for p in pts)
                want = sorted(float(i) + 0.5 for i in mine)
                if r["failed"] == 0 and (len(got) != len(mine) or vals != want):
                    missing = [series[i] for i in mine if float(i) + 0.5 not in vals][:3]
                    fails.append(("series-merged", "%s: metric %s: %d distinct series ingested, %d returned; values not returned "
                                  "unchanged for e.g. %s" % (stage, name, len(mine), len(got), json.dumps(missing))))
        check("open")
        dr.ok("mblockflush")
        check("block-flushed")
        dr.ok("mrotate")
        dr.quit()
        dr = vlib.Driver(binary)
        dr.ok("init", dir=d, wait_ms=400)
        check("restarted")
    except vlib.DriverDead as e:
        if e.kind == "hang":
            raise vlib.Infra("engine did not answer in time: %s" % e)
        fails.append(("driver-died", str(e)))
    finally:
        if dr is not None:
            dr.quit()
        vlib.rmtree(d)
    return fails


def run(chk):
    quick = chk.tier == "quick"
    # ---- model: exhaustive check of the codec spec
    r = vlib.run_tlc("MC_Gorilla", "MC_Gorilla.cfg" if quick else "MC_Gorilla_deep.cfg", timeout=1500, coverage=quick)
    vlib.tlc_must_hold(r, "Gorilla exhaustive")
    chk.add_tlc("MC_Gorilla", r, "BitExact/InSync/Geometry; all dod classes x all xor classes, MaxLen=%d" % (3 if quick else 4))
    # sensitivity of the model: the un-clamped encoder (what the pinned commit did) must violate BitExact
    r2 = vlib.run_tlc("MC_Gorilla", "MC_Gorilla_noclamp.cfg", timeout=600)
    if "BitExact" not in r2.violated:
        raise vlib.Infra("model sensitivity lost: un-clamped encoder model no longer violates BitExact")
    chk.cov["model_sensitivity"] = "ClampLead=FALSE violates BitExact (expected)"

    # ---- behaviours
    beh_val, rv = vlib.tlc_generate("Gen_Gorilla", "Gen_Gorilla_val.cfg" if quick else "Gen_Gorilla_val_deep.cfg", timeout=1500)
    beh_ts, rt = vlib.tlc_generate("Gen_Gorilla", "Gen_Gorilla_ts.cfg" if quick else "Gen_Gorilla_ts_deep.cfg", timeout=1500)
    beh_mix, rm = vlib.tlc_generate("Gen_Gorilla", "Gen_Gorilla_mix.cfg", timeout=1500)
    chk.add_tlc("Gen_Gorilla_val", rv, "behaviour generation: value classes")
    chk.add_tlc("Gen_Gorilla_ts", rt, "behaviour generation: timestamp classes")
    chk.add_tlc("Gen_Gorilla_mix", rm, "behaviour generation: mixed")
    if not beh_val or not beh_ts:
        raise vlib.Infra("no behaviours generated")

    binary = vlib.build_driver()
    # ---- (fn) replay on the real codec
    sc = vlib.scratch("c08")
    try:
        total = 0
        for name, behs in (("val", beh_val), ("ts", beh_ts), ("mix", beh_mix)):
            p = os.path.join(sc, name + ".ndjson")
            with open(p, "w") as f:
                for b in behs:
                    f.write(json.dumps(b) + "\n")
            dr = vlib.Driver(binary)
            try:
                res = dr.ok("gorilla_replay", file=p, seed=chk.seed, timeout=1200)
            finally:
                dr.quit()
            total += res["behaviours"]
            chk.replayed(res["behaviours"])
            chk.count(n=res["steps"])
            chk.cov.setdefault("fn_replay", {})[name] = {"behaviours": res["behaviours"], "steps": res["steps"],
                                                         "distinct_step_classes": res["classes"]}
            for i in range(res["classes"]):
                chk.count(("fn", name, i), nontrivial=True, n=0)
            if res.get("sample"):
                chk.sample({"kind": "fn-replay/" + name, "case": res["sample"]})
            drift = [f for f in res["fails"] if f["kind"] == "length"]
            bad = [f for f in res["fails"] if f["kind"] != "length"]
            for f in bad:
                lead = None
                key = "C08:codec:%s:%s" % (f["kind"], f["class"])
                chk.violation(key, "codec round trip: %s [%s]" % (f["detail"], f["class"]),
                              {"kind": "fn", "input": f["input"], "class": f["class"]})
            if drift and not bad:
                raise vlib.Infra("SPEC-DRIFT: real encoder stream length differs from spec prediction while round trip "
                                 "holds: %s" % drift[0])
    finally:
        vlib.rmtree(sc)

    # ---- series identity (spec/SeriesIdentity.tla): every pair of distinct series must stay two series
    pairs, rs = vlib.tlc_generate("SeriesIdentity", "Gen_SeriesIdentity.cfg", timeout=600)
    vlib.tlc_must_hold(rs, "SeriesIdentity")
    chk.add_tlc("SeriesIdentity", rs, "all ordered pairs of distinct (name, tag set) over the collision alphabet")
    uniq = {}
    for p in pairs:
        for s_ in (p["a"], p["b"]):
            uniq[json.dumps(s_, sort_keys=True)] = s_
    all_series = [uniq[k] for k in sorted(uniq)]
    idf = identity_case(binary, all_series, chk.seed)
    chk.replayed(len(pairs))
    chk.count(n=len(pairs))
    for i in range(len(all_series)):
        chk.count(("identity", i), nontrivial=True, n=0)
    chk.cov["series_identity"] = {"pairs": len(pairs), "distinct_series": len(all_series), "notes": [w for k, w in idf if k == "info"]}
    seen_k = set()
    for kind, what in idf:
        if kind == "info" or kind in seen_k:
            continue
        seen_k.add(kind)
        chk.violation("C08:identity:" + kind, what, {"kind": "identity", "series": all_series[:8]})

    # ---- (e2e)
    rnd = random.Random(chk.seed)
    n_cases = 24 if quick else 240
    pool = beh_val + beh_mix + beh_ts
    cases = []
    for i in range(n_cases):
        nser = rnd.choice([1, 2, 3, 4])
        tsets = rnd.sample(TAGSETS, nser)
        series = []
        for (name, tags) in tsets:
            pts = None
            while pts is None:
                pts = concretise(rnd.choice(pool), rnd)
            series.append({"name": name, "tags": tags, "pts": pts})
        mid = "segrotate" if i % 12 == 5 else rnd.choice(["none", "blockflush", "blockflush"])
        cases.append({"idx": i, "seed": chk.seed * 7919 + i, "series": series, "mid": mid})
    results = vlib.pmap(lambda c: e2e_case(binary, c), cases)
    for c, fails in zip(cases, results):
        chk.replayed(1)
        chk.count(("e2e", c["idx"]), nontrivial=len(c["series"]) > 1 or c["mid"] != "none")
        seen = set()
        for kind, detail in fails:
            if kind in seen:
                continue
            seen.add(kind)
            if kind == "driver-died":
                chk.violation("C08:e2e:driver-died", "engine process died during metrics scenario: " + detail, c)
            else:
                chk.violation("C08:e2e:" + kind, detail, c)
    # ---- (life) histories of spec/MetricsLifecycle.tla: put / block flush / segment rotation / restart in any order, the
    # answers required by the specification after each stretch
    rl = vlib.run_tlc("MC_MetricsLifecycle", "MC_MetricsLifecycle.cfg", timeout=900)
    vlib.tlc_must_hold(rl, "MetricsLifecycle exhaustive")
    chk.add_tlc("MC_MetricsLifecycle", rl, "NothingMoves / AnswerIsStored / AnswerComplete (the engine's tags-search and name-regex rules return the required answer); 3 series, times 1..3, 7 steps, 1 restart")
    rl2 = vlib.run_tlc("MC_MetricsLifecycle", "MC_MetricsLifecycle_loseopen.cfg", timeout=600)
    if "NothingMoves" not in rl2.violated:
        raise vlib.Infra("model sensitivity lost: a restart that forgets the open block no longer violates NothingMoves")
    for cfg, what in (("MC_MetricsLifecycle_tthfirst.cfg", "tags search decided by the first request of the holder (pinned rule, repaired by 5b5e30d)"),
                      ("MC_MetricsLifecycle_namesfirst.cfg", "regex candidate names from the holder's oldest segment only (pinned rule, repaired by e7a279d)")):
        rs_ = vlib.run_tlc("MC_MetricsLifecycle", cfg, timeout=600)
        if "AnswerComplete" not in rs_.violated:
            raise vlib.Infra("model sensitivity lost: %s no longer violates AnswerComplete" % cfg)
        chk.cov.setdefault("model_sensitivity_lifecycle", []).append("%s: %s violates AnswerComplete (expected)" % (cfg, what))
    life, rg = vlib.tlc_generate("Gen_MetricsLifecycle", "Gen_MetricsLifecycle.cfg", simulate="num=%d" % (400 if quick else 3000), depth=17,
                                 seed=chk.seed, timeout=600)
    chk.add_tlc("Gen_MetricsLifecycle", rg, "random walks of 16 steps over 4 series (3 share a metric name), times 1..6, <=2 restarts, <=1 segment rotation")
    life = vlib.dedup(life)
    # prefer histories that put into a series again after a restart / rotation and that check more than once
    def life_score(b):
        ops = [x["op"] for x in b["steps"]]
        sc_ = ops.count("check")
        for i, o in enumerate(ops):
            if o in ("restart", "segrotate", "blockflush") and "put" in ops[i + 1:]:
                sc_ += 2
        # a metric name / a series that appears for the first time after a segment rotation or a restart, next to older ones
        for kind in ("segrotate", "restart"):
            if kind in ops:
                i = ops.index(kind)
                before = set(x["s"] for x in b["steps"][:i] if x["op"] == "put")
                after = set(x["s"] for x in b["steps"][i + 1:] if x["op"] == "put")
                if before and after - before:
                    sc_ += 3
                    if any(g and not (set(g) & before) and (set(g) & after) for g in LIFE_GROUPS):
                        sc_ += 3
        return sc_
    life.sort(key=lambda b: (-life_score(b), json.dumps(b, sort_keys=True)))
    nl = 16 if quick else 160
    chosen = life[:nl // 2] + vlib.sample(life[nl // 2:], nl - nl // 2, chk.seed)
    lcases = [{"idx": i, "seed": chk.seed * 104729 + i, "beh": b} for i, b in enumerate(chosen)]
    lres = vlib.pmap(lambda c: lifecycle_case(binary, c), lcases)
    for c, fl in zip(lcases, lres):
        chk.replayed(1)
        chk.count(("life", json.dumps([x["op"] + str(x.get("s", "")) + str(x.get("t", "")) for x in c["beh"]["steps"]])), nontrivial=True)
        seen = set()
        for kind, detail in fl:
            if kind in seen:
                continue
            seen.add(kind)
            chk.violation("C08:life:" + kind, detail, {"kind": "lifecycle", "seed": c["seed"],
                                                        "steps": [{k2: v2 for k2, v2 in x.items() if k2 != "answers"} for x in c["beh"]["steps"]]})
    chk.cov["lifecycle"] = {"histories_generated": len(life), "replayed": len(lcases),
                            "checks_per_history": round(sum(sum(1 for x in c["beh"]["steps"] if x["op"] == "check") for c in lcases) / max(1, len(lcases)), 1)}
    chk.sample({"kind": "e2e", "case": {"series": [{"name": s["name"], "tags": s["tags"],
                                                    "pts": [[t, "%016x" % b] for t, b in s["pts"]]} for s in cases[0]["series"]],
                                        "mid": cases[0]["mid"]}})
    chk.assumptions += [
        "A1: 32-bit delta-of-delta arithmetic is modelled with unbounded integers (exact for |dod| < 2^31)",
        "value classes are (leading zeros, trailing zeros) of the XOR; middle bits are drawn at random per seed",
        "e2e uses finite float64 values only (JSON ingest cannot carry NaN/Inf); same-second duplicates are not compared",
    ]
    chk.describe(rule="TLC enumerates every sequence of <=MaxLen encoder case classes (dod class x xor geometry); each is "
                    "concretised and run on the real codec (fn) and a seeded sample through OpenTSDB ingest + selector "
                    "query across rotation/restart (e2e). distinct_nontrivial = distinct (dod,xor) step classes hit on the "
                    "real codec + e2e scenarios with >1 series or a mid-way rotation",
               exhaustive=False)


def replay(chk, path):
    d = json.load(open(path))
    print(json.dumps(d, indent=1)[:4000])
    return 0
